#!/venv/bin/python
"""Regenerates /verif/MANIFEST.json from the table below (keeps the file valid and consistent)."""
import json, os
V = os.path.dirname(os.path.dirname(os.path.abspath(__file__)))
RUN = '/venv/bin/python sa/run.py --property %s --tier %s'
CHECKS = {}   # id -> dict(text=, note=, technique=, design=)
NA = {}
exec(open(os.path.join(V, 'tools', 'manifest_table.py')).read())
checks = []
for pid in sorted(CHECKS):
    c = CHECKS[pid]
    checks.append({
        'property_id': pid,
        'quick_cmd': RUN % (pid, 'quick'),
        'thorough_cmd': RUN % (pid, 'thorough'),
        'evidence_file': 'evidence/%s.json' % pid,
        'replay_cmd_template': '/venv/bin/python sa/run.py --property %s --replay {path}' % pid,
        'engine': 'sa',
        'level_claimed': {'category': 'other', 'text': c['text'], 'design_ref': c.get('design', 'DESIGN.md section 2, ' + pid)},
        'level_note': c['note'],
        'technique': c['technique'],
    })
m = {
    'version': 1,
    'setup_cmd': '/venv/bin/python sa/setup_check.py',
    'hooks': {'guard': 'SKOOLKIT_VERIF', 'enable': 'none needed: the checks read source only; no hook commits exist',
              'baseline_off_cmd': 'cd /repo && /venv/bin/python -m pytest -ra -q -p no:cacheprovider --timeout=900 --continue-on-collection-errors',
              'source_commits': [], 'add_only': True},
    'engines': [{'name': 'sa', 'path': 'sa/', 'serves_properties': sorted(CHECKS),
                 'kind_free_text': 'repository-specific static analysis: Python ast + clang -ast-dump=json facts, slot instantiation, local value numbering into a normalised term language, interval x mask abstract interpretation, finite-domain folding, call-graph / who-may-write / def-use / event-order rules; plus compile-time evaluation (folding) of repository source by the checker own evaluator against independent reference models'}],
    'checks': checks,
    'notes': NOTES,
    'not_applicable': [{'property_id': k, 'reason': v} for k, v in sorted(NA.items())],
}
with open(os.path.join(V, 'MANIFEST.json'), 'w') as f:
    json.dump(m, f, indent=1)
print('MANIFEST.json: %d checks, %d not applicable' % (len(checks), len(NA)))
