#!/venv/bin/python
"""Apply each seeded change to /repo, run every claimed check (quick tier) in parallel, record which properties report a violation.
usage: tools/seed_matrix.py <seed-root> <out.json>   (seed-root contains <ID>/<variant>/patch.diff or <ID>-out/<variant>/patch.diff)"""
import json, os, subprocess, sys, glob
from concurrent.futures import ThreadPoolExecutor
root, out = sys.argv[1], sys.argv[2]
props = [c['property_id'] for c in json.load(open('/verif/MANIFEST.json'))['checks']]
def run(p):
    r = subprocess.run(['/venv/bin/python', '/verif/sa/run.py', '--property', p], capture_output=True, text=True, env=dict(os.environ, VERIF_EVIDENCE_DIR='/tmp/seed/evtmp'))
    rules = sorted({l.split('rule ')[1].split(':')[0] for l in r.stdout.splitlines() if ': rule ' in l and not l.startswith('rule')})
    return p, r.returncode, rules
res = {}
if os.path.exists(out):
    res = json.load(open(out))
seeds = sorted(glob.glob(os.path.join(root, '*', '*', 'patch.diff'))) or sorted(glob.glob(os.path.join(root, '*', 'patch.diff')))
for pf in seeds:
    d = os.path.dirname(pf)
    sid = os.path.basename(os.path.dirname(d)).replace('-out', '') + '/' + os.path.basename(d)
    if os.path.dirname(d) == root.rstrip('/'):
        sid = os.path.basename(d)          # /verif/seeded/<ID>-<v>/patch.diff
    if sid in res:
        continue
    subprocess.run(['git', '-C', '/repo', 'checkout', '--', '.'])
    a = subprocess.run(['git', '-C', '/repo', 'apply', pf], capture_output=True, text=True)
    if a.returncode != 0:
        res[sid] = {'applies': False}
        continue
    with ThreadPoolExecutor(9) as ex:
        rs = list(ex.map(run, props))
    subprocess.run(['git', '-C', '/repo', 'checkout', '--', '.'])
    res[sid] = {'applies': True, 'detected_by': {p: rules for p, rc, rules in rs if rc == 1}, 'errors': [p for p, rc, rules in rs if rc not in (0, 1)]}
    json.dump(res, open(out, 'w'), indent=1)
    print(sid, sorted(res[sid]['detected_by']), res[sid]['errors'], flush=True)
subprocess.run(['git', '-C', '/repo', 'checkout', '--', '.'])
