#!/venv/bin/python
"""Apply each seeded change to a scratch copy of /repo's HEAD (outside /repo and /verif, removed afterwards), run every claimed check
(quick tier) on it in parallel, record which properties report a violation.
usage: tools/seed_matrix.py <seed-root> <out.json>   (seed-root contains <ID>-out/<variant>/patch.diff, or <name>/patch.diff as in /verif/seeded)"""
import json, os, subprocess, sys, glob, shutil, tempfile
from concurrent.futures import ThreadPoolExecutor
root, out = sys.argv[1], sys.argv[2]
props = [c['property_id'] for c in json.load(open('/verif/MANIFEST.json'))['checks']]
res = json.load(open(out)) if os.path.exists(out) else {}
seeds = sorted(glob.glob(os.path.join(root, '*', '*', 'patch.diff'))) or sorted(glob.glob(os.path.join(root, '*', 'patch.diff')))
base = tempfile.mkdtemp(prefix='seedmx-')
clean = os.path.join(base, 'clean')
os.makedirs(clean)
subprocess.run('git -C /repo archive HEAD skoolkit c | tar -x -C %s' % clean, shell=True, check=True)
def run(args):
    p, tree, ev = args
    r = subprocess.run(['/venv/bin/python', '/verif/sa/run.py', '--property', p, '--repo', tree], capture_output=True, text=True, env=dict(os.environ, VERIF_EVIDENCE_DIR=ev))
    rules = sorted({l.split('rule ')[1].split(':')[0] for l in r.stdout.splitlines() if ': rule ' in l and not l.startswith('rule')})
    return p, r.returncode, rules
try:
    for pf in seeds:
        d = os.path.dirname(pf)
        sid = os.path.basename(os.path.dirname(d)).replace('-out', '') + '/' + os.path.basename(d)
        if os.path.dirname(d) == root.rstrip('/'):
            sid = os.path.basename(d)
        if sid in res:
            continue
        tree = os.path.join(base, 'tree')
        shutil.rmtree(tree, ignore_errors=True)
        shutil.copytree(clean, tree)
        a = subprocess.run(['patch', '-p1', '-s', '-f', '-d', tree, '-i', pf], capture_output=True, text=True)
        if a.returncode != 0:
            res[sid] = {'applies': False}
            json.dump(res, open(out, 'w'), indent=1)
            print(sid, 'does not apply', flush=True)
            continue
        ev = os.path.join(base, 'ev')
        os.makedirs(ev, exist_ok=True)
        with ThreadPoolExecutor(9) as ex:
            rs = list(ex.map(run, [(p, tree, ev) for p in props]))
        res[sid] = {'applies': True, 'detected_by': {p: rules for p, rc, rules in rs if rc == 1}, 'errors': [p for p, rc, rules in rs if rc not in (0, 1)]}
        json.dump(res, open(out, 'w'), indent=1)
        print(sid, sorted(res[sid]['detected_by']), res[sid]['errors'], flush=True)
finally:
    shutil.rmtree(base, ignore_errors=True)
