#!/venv/bin/python
"""Writes sa/core/canon_names.json: for every function of /repo's current skoolkit/*.py the local variables in order of first binding
(see sa/core/canon.py).  Run after /repo changes (fix commits)."""
import ast, json, os, sys
sys.path.insert(0, os.path.dirname(os.path.dirname(os.path.abspath(__file__))))
from sa.core import canon
root = sys.argv[1] if len(sys.argv) > 1 else '/repo'
out = {}
for f in sorted(os.listdir(os.path.join(root, 'skoolkit'))):
    if f.endswith('.py'):
        tree = ast.parse(open(os.path.join(root, 'skoolkit', f)).read())
        out[f[:-3]] = {q: {'locals': canon.local_names(fn), 'exprs': sorted(canon.shapes(fn))} for q, fn in canon.outer_functions(tree)}
p = os.path.join(os.path.dirname(os.path.dirname(os.path.abspath(__file__))), 'sa', 'core', 'canon_names.json')
json.dump(out, open(p, 'w'), indent=0, sort_keys=True)
print('%d modules, %d functions' % (len(out), sum(len(v) for v in out.values())))
