#!/venv/bin/python
"""Writes sa/core/canon_names.json: for every function of /repo's current skoolkit/*.py the local variables in order of first binding
(see sa/core/canon.py).  Run after /repo changes (fix commits)."""
import ast, json, os, sys
sys.path.insert(0, os.path.dirname(os.path.dirname(os.path.abspath(__file__))))
from sa.core import canon
root = sys.argv[1] if len(sys.argv) > 1 else '/repo'
out = {}
for f in sorted(os.listdir(os.path.join(root, 'skoolkit'))):
    if f.endswith('.py'):
        tree = ast.parse(open(os.path.join(root, 'skoolkit', f)).read())
        out[f[:-3]] = {q: {'locals': canon.local_names(fn), 'exprs': sorted(canon.shapes(fn)), 'nested': sorted({n.name for n in ast.walk(fn) if isinstance(n, ast.FunctionDef) and n is not fn})} for q, fn in canon.outer_functions(tree)}
from sa.core import cfacts
canon._TABLE = {}          # the facts must be taken as they are
facts = cfacts.load(root)
out['__c__'] = {build: {d['name']: canon.c_locals(d) for d in decls if d.get('kind') == 'FunctionDecl' and any(c.get('kind') == 'CompoundStmt' for c in d.get('inner', []))} for build, decls in facts.items()}
p = os.path.join(os.path.dirname(os.path.dirname(os.path.abspath(__file__))), 'sa', 'core', 'canon_names.json')
json.dump(out, open(p, 'w'), indent=0, sort_keys=True)
print('%d modules, %d functions, %d C functions' % (len(out) - 1, sum(len(v) for k, v in out.items() if k != '__c__'), len(out['__c__'].get('plain', {}))))
