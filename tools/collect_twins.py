#!/venv/bin/python
"""Copies confirmed behaviour-preserving refactorings (twins) written by sub-agents from /tmp/twin/<ID>-out/<v>/ into /verif/twins/<ID>-<v>/
(patch.diff, notes.md, meta.json).  A twin is kept when confirm.sh recorded the pinned suite result (14 failed, 4577 passed) with the patch
applied and, where the author wrote a differential check, its exit code 0."""
import json, os, re, shutil, sys
SRC = os.environ.get('TWINS_SRC', '/tmp/twin')
DST = '/verif/twins'
os.makedirs(DST, exist_ok=True)
kept = 0
for out in sorted(os.listdir(SRC)):
    if not out.endswith('-out'):
        continue
    pid = out[:-4]
    for v in sorted(os.listdir(os.path.join(SRC, out))):
        d = os.path.join(SRC, out, v)
        if not os.path.exists(os.path.join(d, 'patch.diff')) or not os.path.exists(os.path.join(d, 'confirmed.txt')):
            continue
        conf = open(os.path.join(d, 'confirmed.txt')).read().strip()
        m = re.match(r'equiv=(\S+) suite=(.*)', conf)
        ok = bool(m) and m.group(1) in ('0', 'none') and m.group(2).startswith('14 failed, 4577 passed')
        if not ok:
            print('NOT KEPT', pid, v, conf)
            continue
        dst = os.path.join(DST, '%s-%s' % (pid, v))
        os.makedirs(dst, exist_ok=True)
        for fn in ('patch.diff', 'notes.md'):
            if os.path.exists(os.path.join(d, fn)):
                shutil.copy(os.path.join(d, fn), dst)
        files = sorted(set(re.findall(r'^\+\+\+ b/(\S+)', open(os.path.join(d, 'patch.diff')).read(), re.M)))
        meta = {'property': pid, 'files': files, 'what_was_run': {'suite_with_refactoring': m.group(2), 'author_differential_check_exit': m.group(1),
                'commands': ['git apply patch.diff (scratch worktree of /repo HEAD)', '/venv/bin/python -m pytest -q -p no:cacheprovider -n 8 tests', '/venv/bin/python equiv.py']},
                'expected': 'every check silent (exit 0)'}
        json.dump(meta, open(os.path.join(dst, 'meta.json'), 'w'), indent=1)
        kept += 1
print(kept, 'twins kept in', DST)
