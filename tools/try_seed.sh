#!/bin/sh
# usage: tools/try_seed.sh <patch.diff> <property> [<property>...]   -- applies the patch to /repo, runs the quick checks, reverts
patch=$1; shift
git -C /repo apply "$patch" || exit 3
for p in "$@"; do
  echo "--- $p on $(basename $(dirname $patch))"
  /venv/bin/python /verif/sa/run.py --property $p 2>&1 | grep -v "^rule \|^ANALYSIS-LIMIT" | cut -c1-400 | tail -8
  echo "exit=$?"
done
git -C /repo checkout -- . 
git -C /repo status --short | grep -v egg-info
