#!/venv/bin/python
"""setup_cmd: verify the offline prerequisites of the static checks (nothing is built or installed)."""
import os, shutil, subprocess, sys, sysconfig
ok = True
if not shutil.which('clang'):
    print('clang not found'); ok = False
inc = sysconfig.get_paths()['include']
if not os.path.exists(os.path.join(inc, 'Python.h')):
    print('Python.h not found under', inc); ok = False
os.makedirs(os.path.join(os.path.dirname(os.path.dirname(os.path.abspath(__file__))), 'evidence', 'replay'), exist_ok=True)
print('setup ok' if ok else 'setup FAILED')
sys.exit(0 if ok else 1)
