#!/venv/bin/python
"""CLI: run.py --property C07 [--tier quick|thorough] [--repo /repo] [--replay FILE]"""
import argparse, importlib, json, os, sys, traceback
sys.path.insert(0, os.path.dirname(os.path.dirname(os.path.abspath(__file__))))
from sa.core import report
from sa.core.pyfacts import FactError
from sa.core.effects import Unsupported

def main():
    ap = argparse.ArgumentParser()
    ap.add_argument('--property', required=True)
    ap.add_argument('--tier', default=os.environ.get('VERIF_TIER', 'quick'))
    ap.add_argument('--repo', default=os.environ.get('VERIF_REPO', '/repo'))
    ap.add_argument('--replay')
    ap.add_argument('--no-selftest', action='store_true')
    args = ap.parse_args()
    seed = int(os.environ.get('VERIF_SEED', '0') or 0)
    tier = args.tier if args.tier in ('quick', 'thorough') else 'quick'
    os.environ['VERIF_TIER'] = tier
    try:
        mod = importlib.import_module('sa.rules.' + args.property)
        ctx = report.Ctx(args.property, tier, args.repo, seed)
        only = None
        if args.replay:
            with open(args.replay) as f:
                only = json.load(f)
            print('replaying rule %s construct %s' % (only.get('rule'), only.get('construct')))
        rc = mod.run(ctx)
        if rc is None:
            rc = 0
        if tier == 'thorough' and not args.no_selftest and rc == 0:
            from sa.selftest import harness
            st = harness.run(args.property, mod, args.repo)
            if st:
                print('ANALYSIS-ERROR selftest: %s' % st.replace('VIOLATION', 'report'))
                return 2
        return rc
    except (report.AnalysisError, FactError) as e:
        print('ANALYSIS-ERROR property=%s %s' % (args.property, e))
        return 2
    except Exception:
        print('ANALYSIS-ERROR property=%s unexpected exception' % args.property)
        traceback.print_exc()
        return 2

if __name__ == '__main__':
    sys.exit(main())
