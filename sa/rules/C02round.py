"""C02.6-roundtrip (*fold*): the skool-file disassembler and the assembler folded back to back over the whole opcode space.

For every one of the 7 x 256 opcode sequences (all Opcodes= forms enabled), with sampled operand bytes, the bytes are placed in a model
snapshot, Disassembler.disassemble is folded on them (number base / case configurations), and the operation text it produces is folded
through Assembler.assemble at the same address.  The result must be the original bytes; where the disassembler marks the instruction as a
VARIANT (an alternative encoding: the file keeps its bytes in a @bytes directive) the assembler's bytes must disassemble to the same text."""
import ast, random
from sa.core import pyfacts
from sa.core.pyfacts import NotLiteral, FactError
from sa.core.classfold import ClassFolder

class Rec:
    _sa_fold_ok = True
    _sa_model = True
    def __init__(self, **kw):
        self.__dict__.update(kw)

class IMaker:
    _sa_fold_ok = True
    _sa_model = True
    def __call__(self, address, operation, data):
        return Rec(address=address, operation=operation, bytes=list(data), variant=0)

class Folders:
    def __init__(self, repo):
        self.repo = repo
        self.cfd = ClassFolder(repo, 'disassembler', self.hook)
        self.cfz = ClassFolder(repo, 'z80', self.hook)
        self.asm = self.cfz.new('Assembler')
        self.dis = {}

    def hook(self, n, lit):
        if isinstance(n, ast.Call) and isinstance(n.func, ast.Name):
            f = n.func.id
            if f == 'get_component' and n.args and isinstance(n.args[0], ast.Constant) and n.args[0].value == 'OperandFormatter':
                return self.cfd.new('OperandFormatter', lit.ev(n.args[1]))
            if f == 'get_operand_evaluator':
                me = self
                class OE:
                    _sa_fold_ok = True
                    _sa_model = True
                    def eval_int(self, text): return me.cfz.call_func('z80', 'eval_int', [text])
                    def eval_string(self, text): return me.cfz.call_func('z80', 'eval_string', [text])
                    def split_operands(self, text): return me.cfz.call_func('z80', 'split_operands', [text])
                return OE()
        if isinstance(n, ast.Call) and isinstance(n.func, ast.Attribute) and n.func.attr == 'imaker':
            return IMaker()(*[lit.ev(a) for a in n.args])
        return None
    hook.wants_lit = True

    def disassembler(self, snap, hexa, lower, wrap=False):
        cfg = Rec(asm_hex=hexa, asm_lower=lower, defb_size=8, defm_size=66, defw_size=1, handle_rst=False, imaker=IMaker(), opcodes='ALL', wrap=wrap)
        return self.cfd.new('Disassembler', snap, cfg)

    def disassemble(self, d, start, end, base):
        return self.cfd.call(d, 'disassemble', start, end, base)

    def assemble(self, text, address):
        return self.cfz.call(self.asm, 'assemble', text, address)

PFX = {'ops': [], 'after_CB': [0xCB], 'after_ED': [0xED], 'after_DD': [0xDD], 'after_FD': [0xFD], 'after_DDCB': [0xDD, 0xCB, None], 'after_FDCB': [0xFD, 0xCB, None]}

def run(ctx, repo):
    thorough = ctx.tier == 'thorough'
    ctx.rule('C02.6-roundtrip', 'Disassembler.disassemble -> Assembler.assemble folded over all 7x256 opcode sequences with sampled operands and number bases: the original bytes come back (VARIANT encodings: the assembled bytes disassemble to the same text)', floor=1700)
    rnd = random.Random(206 + ctx.seed)
    F = Folders(repo)
    where = 'skoolkit/disassembler.py, skoolkit/z80.py'
    configs = [(False, False, 'n')] if not thorough else [(False, False, 'n'), (True, False, 'n'), (True, True, 'n'), (False, False, 'h'), (False, False, 'd'), (False, True, 'b'), (False, False, 'c'), (False, False, 'm'), (False, False, 'mn'), (False, False, 'nm'), (True, False, 'mm'), (False, False, 'bd')]
    n_samples = 3 if thorough else 1
    reported = 0
    seen_constructs = set()
    for fam, pre in PFX.items():
        for b in range(256):
            if fam in ('ops',) and b in (0xCB, 0xED, 0xDD, 0xFD):
                continue
            if fam in ('after_DD', 'after_FD') and b == 0xCB:
                continue
            name = ''.join('%02X' % x if x is not None else '..' for x in pre) + '%02X' % b
            bad = None
            done = 0
            cfgs = configs if thorough or fam != 'ops' else configs + [(False, False, 'm'), (False, False, 'mn'), (False, False, 'nm')]
            for hexa, lower, base in cfgs:
                for k in range(n_samples):
                    address = rnd.choice((32768, 40000, 200, 65000))
                    operands = [rnd.choice((0, 1, 0x7F, 0x80, 0xFF, rnd.randrange(256))) for _ in range(3)]
                    seq = [x if x is not None else operands[0] for x in pre] + [b] + operands[1:]
                    snap = [0] * 65536
                    snap[address:address + len(seq)] = seq
                    try:
                        d = F.disassembler(snap, hexa, lower)
                        ins = F.disassemble(d, address, address + 1, base)
                        if not ins:
                            bad = ('nothing disassembled', seq)
                            break
                        i0 = ins[0]
                        length = len(i0.bytes)
                        data = F.assemble(i0.operation, address)
                    except NotLiteral as e:
                        bad = ('limit', str(e))
                        break
                    except (KeyError, IndexError, ValueError, TypeError, AttributeError) as e:
                        bad = ('%s: %s' % (type(e).__name__, e), seq)
                        break
                    done += 1
                    got = list(data) if data else []
                    want = seq[:length]
                    if got == want:
                        continue
                    if i0.variant and got:
                        snap2 = [0] * 65536
                        snap2[address:address + len(got)] = got
                        try:
                            i2 = F.disassemble(F.disassembler(snap2, hexa, lower), address, address + 1, base)[0]
                        except (NotLiteral, KeyError, IndexError, ValueError, TypeError, AttributeError) as e:
                            bad = ('re-disassembly failed: %s' % e, seq)
                            break
                        if i2.operation == i0.operation:
                            continue
                    bad = ('`%s` (base %s%s%s) assembles to %s' % (i0.operation, base, ', hex' if hexa else '', ', lower case' if lower else '', got or 'nothing'), want,
                           '%s base %s' % (i0.operation.split()[0].upper(), base))
                    break
                if bad:
                    break
            if bad and bad[0] == 'limit':
                ctx.limit(name, 'not foldable: %s' % bad[1])
                return
            if bad:
                # one report per (mnemonic, base) class, naming the first failing sequence
                construct = 'roundtrip ' + (bad[2] if len(bad) > 2 else name)
                if construct in seen_constructs:
                    continue
                seen_constructs.add(construct)
                ctx.violation(construct, where, 'bytes %s at %d: %s' % (' '.join('%02X' % x for x in bad[1]), address, bad[0]))
            else:
                ctx.ok({'sequence': name, 'cases': done} if b % 64 == 0 else None)

def data_rule(ctx, repo):
    """C01.5 (*fold*): the data-statement builders of the disassembler (DEFB / DEFM / DEFW / DEFS ranges, the entry points snaskool calls for
    b, t, w and s blocks and B/T/W/S sub-blocks) folded on model data, and their text folded back through the assembler: the statements tile
    the range from its start, each reproduces exactly the bytes it claims, and together they are the original bytes.  Word blocks are given
    even lengths (the property quantifies over control files whose boundaries fall on statement boundaries)."""
    ctx.rule('C01.5-data-roundtrip', 'defb/defm/defw/defs_range -> assembler (folded): statements tile the range and reproduce its bytes; lengths 1..13, all six bases, default and explicit sublengths, text with quotes and backslashes, zero and non-zero fills', floor=250)
    rnd = random.Random(105 + ctx.seed)
    F = Folders(repo)
    where = 'skoolkit/disassembler.py'
    snap = [rnd.choice((0, 0, 65, 66, 34, 92, 32, 200, 255, 94, 96, 127, rnd.randrange(256))) for _ in range(65536)]
    d = F.disassembler(snap, False, False)
    seen = set()
    for kind in ('defb_range', 'defm_range', 'defw_range', 'defs_range'):
        for n in range(1, 14):
            if kind == 'defw_range' and n % 2:
                continue
            for base in ('n', 'h', 'd', 'b', 'c', 'm'):
                start = 40000 + 50 * n + {'defb_range': 0, 'defm_range': 1000, 'defw_range': 2000, 'defs_range': 3000}[kind]
                if kind == 'defs_range':
                    fill = 0 if base in 'nh' else rnd.choice((7, 255, 65))
                    for a in range(start, start + n):
                        snap[a] = fill
                for subl in (((0, base),), ((n, base),)):
                    name = '%s length %d base %s %s sublength' % (kind, n, base, 'explicit' if subl[0][0] else 'default')
                    construct = '%s base %s' % (kind, base)
                    try:
                        ins = F.cfd.call(d, kind, start, start + n, subl)
                    except NotLiteral as e:
                        ctx.limit(name, 'not foldable: %s' % e)
                        continue
                    except (KeyError, IndexError, ValueError, TypeError, AttributeError) as e:
                        if construct not in seen:
                            seen.add(construct)
                            ctx.violation(construct, where, '%s on bytes %s fails with %s: %s' % (name, snap[start:start + n], type(e).__name__, e))
                        continue
                    addr = start
                    problem = None
                    out = []
                    for i in ins:
                        if i.address != addr:
                            problem = 'statement `%s` is placed at %d, the previous one ends at %d' % (i.operation, i.address, addr)
                            break
                        try:
                            data = F.assemble(i.operation, i.address)
                        except NotLiteral as e:
                            problem = 'limit:%s' % e
                            break
                        except (KeyError, IndexError, ValueError, TypeError, AttributeError) as e:
                            data = None
                        if data is None or list(data) != list(i.bytes):
                            problem = '`%s` assembles to %s, the statement stands for %s' % (i.operation, (list(data)[:12] + (['...'] if len(data) > 12 else [])) if data else 'nothing', list(i.bytes))
                            break
                        out.extend(i.bytes)
                        addr += len(i.bytes)
                    if problem is None and out != snap[start:start + n]:
                        problem = 'the statements %s stand for %s, the range holds %s' % ([i.operation for i in ins], out, snap[start:start + n])
                    if problem and problem.startswith('limit:'):
                        ctx.limit(name, 'assembler not foldable: %s' % problem[6:])
                    elif problem:
                        if construct not in seen:
                            seen.add(construct)
                            ctx.violation(construct, where, '%s on bytes %s: %s' % (name, snap[start:start + n], problem))
                    else:
                        ctx.ok({'case': name} if n == 5 else None)

def ignored_gap_rule(ctx, repo):
    """C01.6 (*fold*): what sna2skool writes for an ignored block in the middle of the range is a bare entry header (`i40002`) with no
    instruction and no @org after it.  skool2bin's line handler (BinWriter._parse_instruction, folded on such a sequence of lines) must put
    the first instruction after the ignored block at its own address: the property promises the original byte at every original address
    outside ignored blocks."""
    from sa.core.classfold import Inst
    import collections
    ctx.rule('C01.6-ignored-gap', 'skool2bin places the instruction that follows an instruction-less (ignored) entry at its own address (BinWriter._parse_instruction folded on the lines sna2skool writes)', floor=1)
    cf = ClassFolder(repo, 'skool2bin')
    class Asm:
        _sa_fold_ok = True
        _sa_model = True
        def get_size(self, op, addr):
            return {'DEFB 1,2': 2, 'DEFB 6,7,8': 3, 'NOP': 1, 'RET': 1}[op]
    reported = False
    for lines, want in (([ 'b40000 DEFB 1,2', 'i40002', 'b40005 DEFB 6,7,8'], [(40000, 40000), (40005, 40005)]),
                        (['c40000 NOP', ' 40001 RET', 'i40002', 'c40010 NOP'], [(40000, 40000), (40001, 40001), (40010, 40010)])):
        bw = Inst('skool2bin', 'BinWriter', cf)
        bw.assembler = Asm(); bw.instructions = []; bw.start = -1; bw.end = 65537
        bw.keep = None; bw.nowarn = None; bw.data = None; bw.bvalues = None; bw.address_map = {}; bw.entry_ctl = None
        bw.subs = collections.defaultdict(list, {(0, 0): ()})
        address = None
        try:
            for line in lines:
                address = cf.call(bw, '_parse_instruction', address, line, set())
                if line[0] != ' ' and line[6:].strip() == '':
                    bw.entry_ctl = None
        except NotLiteral as e:
            ctx.limit('ignored gap', 'BinWriter._parse_instruction not foldable: %s' % e)
            continue
        except (KeyError, IndexError, ValueError, TypeError, AttributeError) as e:
            ctx.violation('ignored gap', 'skoolkit/skool2bin.py', '_parse_instruction fails on %s with %s: %s' % (lines, type(e).__name__, e))
            continue
        got = [(i.address, i.real_address) for i in bw.instructions]
        if got != want and reported:
            continue
        if got != want:
            reported = True
            ctx.violation('ignored gap', 'skoolkit/skool2bin.py (BinWriter._parse_instruction)',
                          'lines %s: instructions are placed at %s (skool address, real address), expected %s - the block after the ignored one is assembled directly behind the block before it, so every byte after the gap lands at the wrong address (sna2skool writes no @org after an ignored block)' % (lines, got, want))
        else:
            ctx.ok({'lines': lines})
