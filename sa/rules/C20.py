"""C20 - RZX (container layout; fetch-counter accounting; shared paging-latch and snapshot rules)."""
import ast
from sa.core import pyfacts, report, cfacts
from sa.core.pyfacts import Lit, NotLiteral, FactError

EXPLANATION = (
    "Decides: (1) the RZX container write_rzx emits is the one parse_rzx reads - each block-length constant equals the number of header bytes "
    "the writer emits before the payload, every (offset, width) the reader accesses coincides with a writer field, the compression flag is "
    "set exactly where the payload goes through zlib.compress, and frame records are fetch-counter word, in-counter word, readings; (2) the "
    "fetch counter is decremented by the number of M1 fetches of the instruction: 2 for CB/ED, 1 otherwise, and for DD/FD the expression in "
    "rzxplay.process_block and in C exec_frame folds to the R increment for every R in 0..255 (7-bit wrap included); (3) the RZX tracer records "
    "the 0x7FFD latch exactly when it pages (C08.3 rule on rzxplay.RZXTracer.write_port) and the snapshot embedded when a recording is "
    "resumed obeys the C09 layout and RLE rules (shared). Not decided: reproducibility and resumability of playback (executions), rzxinfo output.")

def tuple_layout(t):
    """[(width, description)] for a tuple display of bytes: ints -> 1, *as_dword(x) -> 4, *name -> symbolic."""
    out = []
    for e in t.elts:
        if isinstance(e, ast.Starred):
            v = e.value
            if isinstance(v, ast.Call) and isinstance(v.func, ast.Name) and v.func.id == 'as_dword':
                out.append((4, ast.unparse(v.args[0])))
            else:
                out.append((None, ast.unparse(v)))
        else:
            out.append((1, ast.unparse(e)))
    return out

def container_rule(ctx, repo):
    ctx.rule('C20.1-container', 'write_rzx block headers: length constant == header bytes emitted; parse_rzx offsets land on writer fields; compression flag <=> zlib.compress', floor=6)
    mod = repo.mod('rzxplay')
    wr = mod.func('write_rzx')
    rd = mod.func('parse_rzx')
    where = 'skoolkit/rzxplay.py'
    known_len = {'creator_b': 20, 'snapshot_ext': 4}
    for n in ast.walk(wr):
        if isinstance(n, ast.Assign) and isinstance(n.targets[0], ast.Name) and n.targets[0].id == 'creator_b' and isinstance(n.value, ast.Tuple):
            known_len['creator_b'] = len(n.value.elts)
    blen = {}
    compressed = set()
    for n in ast.walk(wr):
        if isinstance(n, ast.Assign) and isinstance(n.targets[0], ast.Name):
            nm = n.targets[0].id
            if nm == 'b_len' and isinstance(n.value, ast.BinOp) and isinstance(n.value.left, ast.Constant):
                blen[n.lineno] = (n.value.left.value, ast.unparse(n.value.right))
            if isinstance(n.value, ast.Call) and ast.unparse(n.value.func) == 'zlib.compress':
                compressed.add(nm)
    blocks = []
    for n in ast.walk(wr):
        if isinstance(n, ast.Call) and isinstance(n.func, ast.Attribute) and n.func.attr == 'extend' and n.args and isinstance(n.args[0], ast.Tuple):
            lay = tuple_layout(n.args[0])
            if lay and lay[0][0] == 1 and lay[0][1].isdigit() and int(lay[0][1]) in (0x10, 0x30, 0x80):
                blocks.append((int(lay[0][1]), lay, n.lineno))
        if isinstance(n, ast.Call) and ast.unparse(n.func) == 'bytearray' and n.args and isinstance(n.args[0], ast.Tuple):
            lay = tuple_layout(n.args[0])
            # file header (10 bytes) then the creator block
            idx = next((i for i, (w, d) in enumerate(lay) if d == '16' and i >= 10), None)
            if idx is not None:
                blocks.append((0x10, lay[idx:], n.lineno))
                if sum(w for w, d in lay[:idx]) != 10:
                    ctx.violation('rzx header', '%s:%d' % (where, n.lineno), 'file header is %d bytes; parse_rzx starts reading blocks at offset 10' % sum(w for w, d in lay[:idx]))
                else:
                    ctx.ok({'file header': 10})
    if len(blocks) < 3:
        raise FactError('skoolkit/rzxplay.py: block headers of write_rzx not recognised')
    layouts = {}
    for bid, lay, line in blocks:
        total = 0
        for w, d in lay:
            if w is None:
                w = known_len.get(d)
                if w is None:
                    raise FactError('skoolkit/rzxplay.py: unknown width of *%s in write_rzx' % d)
            total += w
        layouts[bid] = (lay, total, line)
        if bid == 0x10:
            # fixed-size block: the literal length is the second field
            lit_len = lay[1][1]
            declared = int(lit_len) if lit_len.isdigit() else None
            got = total
            if declared != got:
                ctx.violation('creator block length', '%s:%d' % (where, line), 'creator block declares %s bytes but %d are emitted' % (lit_len, got))
            else:
                ctx.ok({'block': '0x10', 'length': got})
        else:
            # variable block: b_len = K + len(payload) assigned just before
            cands = [(l, v) for l, v in blen.items() if l < line]
            k, payload = max(cands)[1] if cands else (None, None)
            if k != total:
                ctx.violation('block 0x%02X length' % bid, '%s:%d' % (where, line), 'block 0x%02X: b_len = %s + %s but the header written before the payload has %d bytes' % (bid, k, payload, total))
            else:
                ctx.ok({'block': hex(bid), 'header bytes': total, 'payload': payload})
            # compression flag: the 4-byte flags field value (first of 4 literal bytes after the dword(s))
            pname = payload[4:-1] if payload and payload.startswith('len(') else None
            flagbytes = [d for w, d in lay if w == 1 and d.isdigit()]
            flag_val = None
            # flags field: locate by reader offset below
            layouts[bid] = (lay, total, line, pname)
    # reader offsets
    def fields(lay):
        off = 0
        out = []
        for w, d in lay:
            w = w if w is not None else known_len.get(d, 0)
            out.append((off, w, d))
            off += w
        return out
    reads = []
    for n in ast.walk(rd):
        if isinstance(n, ast.If) and isinstance(n.test, ast.Compare) and ast.unparse(n.test.left) == 'block_id' and isinstance(n.test.comparators[0], ast.Constant):
            bid = n.test.comparators[0].value
            for x in ast.walk(ast.Module(body=n.body, type_ignores=[])):
                if isinstance(x, ast.Call) and isinstance(x.func, ast.Name) and x.func.id in ('get_dword', 'get_word') and ast.unparse(x.args[0]) == 'data':
                    a = x.args[1]
                    if isinstance(a, ast.BinOp) and ast.unparse(a.left) == 'i' and isinstance(a.right, ast.Constant):
                        reads.append((bid, a.right.value, 4 if x.func.id == 'get_dword' else 2, x.lineno))
                if isinstance(x, ast.Subscript) and ast.unparse(x.value) == 'data':
                    s_ = x.slice
                    if isinstance(s_, ast.BinOp) and ast.unparse(s_.left) == 'i' and isinstance(s_.right, ast.Constant):
                        reads.append((bid, s_.right.value, 1, x.lineno))
                    elif isinstance(s_, ast.Slice) and isinstance(s_.lower, ast.BinOp) and ast.unparse(s_.lower.left) == 'i' and isinstance(s_.lower.right, ast.Constant):
                        up = s_.upper
                        if isinstance(up, ast.BinOp) and ast.unparse(up.left) == 'i' and isinstance(up.right, ast.Constant):
                            reads.append((bid, s_.lower.right.value, up.right.value - s_.lower.right.value, x.lineno))
                        else:
                            reads.append((bid, s_.lower.right.value, 'payload', x.lineno))
    if len(reads) < 6:
        raise FactError('skoolkit/rzxplay.py: reader offsets of parse_rzx not recognised (%d)' % len(reads))
    for bid, off, width, line in reads:
        if bid not in layouts:
            continue
        lay, total = layouts[bid][0], layouts[bid][1]
        fl = fields(lay)
        starts = {o for o, w, d in fl}
        if width == 'payload':
            ok = off == total
            what = 'payload starts at +%d, header is %d bytes' % (off, total)
        else:
            covered = [(o, w) for o, w, d in fl if off <= o and o + w <= off + width]
            ok = off in starts and sum(w for o, w in covered) == width and (off + width in starts or off + width == total)
            what = 'reads %d byte(s) at +%d' % (width, off)
        if not ok:
            ctx.violation('reader block 0x%02X +%d' % (bid, off), '%s:%d' % (where, line), 'parse_rzx %s of block 0x%02X, which does not coincide with a field of the header write_rzx emits %s' % (what, bid, [(o, w) for o, w, d in fl]))
        else:
            ctx.ok({'block': hex(bid), 'read': what})
    # compression flags
    for bid in (0x30, 0x80):
        lay, total, line, pname = layouts[bid]
        fl = fields(lay)
        # the flags field is the one parse_rzx tests with `& 2`
        flag_off = None
        for n in ast.walk(rd):
            if isinstance(n, ast.If) and isinstance(n.test, ast.Compare) and ast.unparse(n.test.left) == 'block_id' and n.test.comparators[0].value == bid:
                for x in ast.walk(ast.Module(body=n.body, type_ignores=[])):
                    if isinstance(x, ast.Assign) and isinstance(x.targets[0], ast.Name) and x.targets[0].id == 'flags':
                        for y in ast.walk(x.value):
                            if isinstance(y, ast.BinOp) and ast.unparse(y.left) == 'i' and isinstance(y.right, ast.Constant):
                                flag_off = y.right.value
        val = next((d for o, w, d in fl if o == flag_off), None)
        is_comp = pname in compressed
        if val is None or not val.isdigit() or bool(int(val) & 2) != is_comp:
            ctx.violation('compression flag 0x%02X' % bid, '%s:%d' % (where, line), 'block 0x%02X: flags byte at +%s is %s but the payload %s %s compressed with zlib' % (bid, flag_off, val, pname, 'is' if is_comp else 'is not'))
        else:
            ctx.ok({'block': hex(bid), 'flags': val, 'payload compressed': is_comp})

def fetch_rule(ctx, repo):
    ctx.rule('C20.2-fetch-count', 'fetch counter decrement == number of M1 fetches: DD/FD expression folds to the R increment for all R (Python and C); 2 for CB/ED, 1 otherwise', floor=4)
    mod = repo.mod('rzxplay')
    pb = mod.func('process_block')
    # the body of the per-instruction loop (`while fetch_counter > 0`) is folded once per case with a model handler in place of
    # opcodes[opcode](): whatever form the counter update takes, the counter must drop by the number of M1 fetches
    loop = None
    for n in ast.walk(pb):
        if isinstance(n, ast.While) and isinstance(n.test, ast.Compare) and any(isinstance(x, ast.Name) and x.id == 'fetch_counter' for x in ast.walk(n.test)):
            if any(isinstance(x, ast.Subscript) and isinstance(x.value, ast.Name) and x.value.id == 'opcodes' for x in ast.walk(n)):
                loop = n
    if loop is None:
        raise FactError('skoolkit/rzxplay.py: the per-instruction loop of process_block (while fetch_counter > 0 ... opcodes[opcode]()) not recognised')
    from sa.core.pyfacts import FuncFold, FOLDED_NONE
    def step(opcode, nb, d, r0, pc):
        regs = [0] * 30
        regs[15], regs[24], regs[25] = r0, pc, 1000
        mem = [0] * 65536
        mem[pc], mem[(pc + 1) % 65536] = opcode, nb
        def hook(n, lit):
            if isinstance(n, ast.Call) and isinstance(n.func, ast.Subscript) and isinstance(n.func.value, ast.Name) and n.func.value.id == 'opcodes':
                regs[15] = (r0 & 0x80) | ((r0 + d) & 0x7F)
                regs[24] = (pc + d) % 65536
                return FOLDED_NONE
            return None
        hook.wants_lit = True
        ff = FuncFold(repo, 'rzxplay', {}, hook)
        ff.env = {'registers': regs, 'memory': mem, 'fetch_counter': 100, 'exec_map': None, 'tracefile': None, 'opcodes': None, 'context': None}
        for st in loop.body:
            ff.stmt(st)
        return 100 - ff.env['fetch_counter']
    def after(r0, d):
        return (r0 & 0x80) | ((r0 + d) & 0x7F)
    # number of M1 fetches of the Python simulator's handler for DD/FD followed by each possible byte: its R increment, from the
    # extracted effects of the after_DD / after_FD slots (1 where the prefix is a lone no-op, 2 where prefix + opcode execute together)
    from sa.core import simfacts
    from sa.core.effects import Unsupported
    m = simfacts.SimModel(repo, need_c=False)
    rinc = {}
    for sl in m.slots():
        if sl.table in ('after_DD', 'after_FD'):
            if m.is_prefix(sl):
                rinc[(sl.table, sl.index)] = {2}          # DD CB / FD CB: the prefix and CB are both M1 fetches
                continue
            try:
                rinc[(sl.table, sl.index)] = {x for x in simfacts.summarize(m.canon('py', sl))['r']}
            except Unsupported:
                rinc[(sl.table, sl.index)] = None
    if len(rinc) != 512:
        raise FactError('skoolkit/simulator.py: after_DD / after_FD slots not recognised (%d)' % len(rinc))
    bad = None
    undecided = None
    checked = 0
    for pre, tab in ((0xDD, 'after_DD'), (0xFD, 'after_FD')):
        for nb in range(256):
            ds = rinc[(tab, nb)]
            if ds is None or not ds <= {1, 2}:
                continue
            for d in ds:
                for r0 in (0, 1, 0x7E, 0x7F, 0x80, 0xFE, 0xFF, (nb * 7) % 256):
                    for pc in (0x8000, 0xFFFF, 0xFFFE):
                        mem = {(pc + 1) % 65536: nb, pc: pre, (pc + 2) % 65536: 0, (pc + 3) % 65536: 0}
                        try:
                            got = step(pre, nb, d, r0, pc)
                        except (NotLiteral, KeyError) as e:
                            undecided = str(e)
                            break
                        checked += 1
                        if got != d and bad is None:
                            bad = (pre, nb, d, got)
                    if undecided: break
                if undecided: break
            if undecided: break
        if undecided: break
    if undecided:
        ctx.limit('py fetch DD/FD', 'the per-instruction loop is not foldable over (R before, R after, next byte): %s' % undecided)
    elif bad:
        ctx.violation('py fetch DD/FD', 'skoolkit/rzxplay.py:%d' % loop.lineno, 'for the sequence %02X %02X the simulator handler performs %d opcode fetch(es) (its R increment) but the fetch counter drops by %d' % bad)
    else:
        ctx.ok({'impl': 'python', 'cases': checked})
    for op, want in ((0xCB, 2), (0xED, 2), (0x00, 1), (0x76, 1), (0xFF, 1)):
        try:
            got = step(op, 0, want, 0x7F, 0x8000)
        except (NotLiteral, KeyError) as e:
            ctx.limit('py fetch opcode %02X' % op, 'not foldable: %s' % e)
            continue
        if got != want:
            ctx.violation('py fetch opcode %02X' % op, 'skoolkit/rzxplay.py:%d' % loop.lineno, 'opcode 0x%02X decrements the fetch counter by %d, expected %d' % (op, got, want))
        else:
            ctx.ok({'impl': 'python', 'opcode': hex(op), 'decrement': got})
    # C
    facts = cfacts.load(repo.root)
    u = cfacts.CUnit(facts['plain'])
    fn = u.funcs.get('CSimulator_exec_frame')
    if fn is None:
        raise FactError('c/csimulator.c: CSimulator_exec_frame not found')
    cexpr = None
    rinc_assigns = []
    def walk(n, ctxcase=None):
        nonlocal cexpr
        if n.get('kind') == 'CompoundAssignOperator' and n.get('opcode') == '-=':
            lhs = cfacts.strip(n['inner'][0])
            if lhs.get('kind') == 'DeclRefExpr' and lhs.get('ref') == 'fetch_count':
                rhs = cfacts.strip(n['inner'][1])
                if rhs.get('kind') == 'BinaryOperator':
                    cexpr = rhs
        if n.get('kind') == 'BinaryOperator' and n.get('opcode') == '=':
            lhs = cfacts.strip(n['inner'][0])
            if lhs.get('kind') == 'DeclRefExpr' and lhs.get('ref') == 'r_inc':
                rinc_assigns.append(cfacts.lit(n['inner'][1]))
        for c in n.get('inner', []):
            walk(c)
    walk(fn)
    if cexpr is None:
        raise FactError('c/csimulator.c: fetch_count decrement expression not recognised')
    def cev(n, r0, r1):
        n = cfacts.strip(n)
        k = n.get('kind')
        if k == 'IntegerLiteral': return int(n['value'])
        if k == 'DeclRefExpr': return r0 if n['ref'] == 'r0' else 0
        if k == 'ArraySubscriptExpr': return r1          # REG(R)
        if k == 'BinaryOperator':
            a, b = cev(n['inner'][0], r0, r1), cev(n['inner'][1], r0, r1)
            return {'-': a - b, '+': a + b, '^': a ^ b, '&': a & b, '%': a % b if b else 0, '*': a * b}[n['opcode']] & 0xFFFFFFFF if n['opcode'] in ('-', '+') else {'^': a ^ b, '&': a & b, '%': a % b if b else 0, '*': a * b}[n['opcode']]
        raise FactError('c/csimulator.c: fetch_count expression uses %s' % k)
    bad = None
    for r0 in range(256):
        for d in (1, 2):
            got = cev(cexpr, r0, after(r0, d))
            if got != d:
                bad = (r0, d, got)
                break
        if bad: break
    if bad:
        ctx.violation('C fetch DD/FD', 'c/csimulator.c:%d' % cexpr.get('line', 0), 'after a DD/FD instruction that advances R from %d by %d the C fetch counter drops by %d' % bad)
    else:
        ctx.ok({'impl': 'C', 'R values': 256})
    if sorted(set(rinc_assigns)) != [0, 2]:
        ctx.violation('C r_inc', 'c/csimulator.c:%d' % fn['line'], 'r_inc is assigned %s; expected 2 for CB/ED/DDCB/FDCB and 0 (use the R difference) for DD/FD' % sorted(set(map(str, rinc_assigns))))
    else:
        ctx.ok({'impl': 'C', 'r_inc values': [0, 2]})

def roundtrip_rule(ctx, repo):
    """C20.6 (*fold*): write_rzx folded on a model recorder state (simulator registers and memory, tracer hardware state, the frames
    not yet played with their fetch counters and port readings) for z80 and szx embedded snapshots, 48K; the bytes are folded back
    through parse_rzx: the remaining frames, their fetch counters and port readings and the embedded machine state must be the ones
    that were written."""
    import random, zlib
    from sa.core.classfold import ClassFolder, Inst
    from sa.core.pyfacts import NotLiteral
    ctx.rule('C20.6-container-roundtrip', 'write_rzx -> parse_rzx (folded): frames, fetch counters, port readings and the embedded snapshot state survive; z80 and szx, stop points inside the recording', floor=6)
    rnd = random.Random(2006 + ctx.seed)
    where = 'skoolkit/rzxplay.py'
    files = {}
    def hook(n, lit):
        if isinstance(n, ast.Call) and isinstance(n.func, ast.Attribute) and isinstance(n.func.value, ast.Name) and n.func.value.id == 'zlib' and 'zlib' not in lit.env:
            return getattr(zlib, n.func.attr)(*lit._seq(n.args))
        if isinstance(n, ast.Call) and isinstance(n.func, ast.Name) and n.func.id == 'read_bin_file' and n.func.id not in lit.env:
            a = lit._seq(n.args)
            return bytes(cf.files[a[0]]) if isinstance(a[0], str) else bytes(a[0])
        return None
    cf = ClassFolder(repo, 'rzxplay', hook)
    cf.files = {}
    cfs = cf.sibling('snapshot')
    class Obj:
        _sa_fold_ok = True
        _sa_model = True
        def __init__(self, **kw):
            self.__dict__.update(kw)
    su = repo.mod('simutils')
    R = {nm: Lit(repo, 'simutils').ev(su.assigns[nm][-1]) for nm in ('A', 'F', 'B', 'C', 'D', 'E', 'H', 'L', 'IXh', 'IXl', 'IYh', 'IYl', 'SP', 'I', 'R', 'xA', 'xF', 'xB', 'xC', 'xD', 'xE', 'xH', 'xL', 'PC', 'T', 'IFF', 'IM', 'MEMPTR')}
    for ext in ('z80', 'szx'):
        for stop_at in (0, 1, 3):
            regs = [0] * 30
            for nm in ('A', 'F', 'B', 'C', 'D', 'E', 'H', 'L', 'IXh', 'IXl', 'IYh', 'IYl', 'I', 'R', 'xA', 'xF', 'xB', 'xC', 'xD', 'xE', 'xH', 'xL'):
                regs[R[nm]] = rnd.randrange(256)
            regs[R['SP']], regs[R['PC']], regs[R['MEMPTR']] = rnd.randrange(65536), rnd.randrange(65536), rnd.randrange(65536)
            regs[R['T']], regs[R['IFF']], regs[R['IM']] = rnd.randrange(69888), rnd.randrange(2), rnd.randrange(3)
            mem = [0] * 16384 + [rnd.choice((0, 0, 237, 1, rnd.randrange(256))) for _ in range(49152)]
            n_frames = 5
            frames, data = [], []
            for k in range(n_frames):
                readings = [rnd.randrange(256) for _ in range(rnd.choice((0, 1, 3, 7)))]
                start = len(data)
                data += readings
                frames.append(cf.new('Frame', rnd.randrange(1, 20000), start, len(data)))
            tracer = Obj(border=rnd.randrange(8), outfe=rnd.randrange(256), out7ffd=0, outfffd=0, ay=[0] * 16, frames=frames, frame_index=stop_at, data=bytes(data))
            sim = Obj(registers=regs, memory=mem, tracer=tracer)
            snap = cfs.new('Z80' if ext == 'z80' else 'SZX', None, [0] * 49152, '48K')
            context = Obj(simulator=sim, snapshot=snap)
            name = '%s snapshot, stopped before frame %d of %d' % (ext, stop_at + 1, n_frames)
            try:
                cf.files.clear()
                cf.call_func('rzxplay', 'write_rzx', ['out.rzx', context, []])
                blob = bytes(cf.files['out.rzx'])
                contents = cf.call_func('rzxplay', 'parse_rzx', ['out.rzx'])
            except NotLiteral as e:
                ctx.limit(name, 'not foldable: %s' % e)
                continue
            except (KeyError, IndexError, ValueError, TypeError, AttributeError) as e:
                ctx.violation('rzx round trip ' + ext, where, '%s: fails with %s: %s' % (name, type(e).__name__, e))
                continue
            problems = []
            objs = [c.obj for c in contents]
            snaps = [o for o in objs if isinstance(o, Inst) and o._mod == 'snapshot']
            recs = [o for o in objs if isinstance(o, Inst) and o._cls == 'InputRecording']
            if len(snaps) != 1 or len(recs) != 1:
                problems.append('%d snapshot and %d input-recording blocks read back, one of each written' % (len(snaps), len(recs)))
            else:
                s2, rec = snaps[0], recs[0]
                want = {'a': regs[R['A']], 'f': regs[R['F']], 'bc': regs[R['C']] + 256 * regs[R['B']], 'de': regs[R['E']] + 256 * regs[R['D']], 'hl': regs[R['L']] + 256 * regs[R['H']],
                        'ix': regs[R['IXl']] + 256 * regs[R['IXh']], 'iy': regs[R['IYl']] + 256 * regs[R['IYh']], 'sp': regs[R['SP']], 'pc': regs[R['PC']], 'i': regs[R['I']], 'r': regs[R['R']],
                        'a2': regs[R['xA']], 'f2': regs[R['xF']], 'bc2': regs[R['xC']] + 256 * regs[R['xB']], 'de2': regs[R['xE']] + 256 * regs[R['xD']], 'hl2': regs[R['xL']] + 256 * regs[R['xH']],
                        'border': tracer.border, 'iff1': regs[R['IFF']], 'im': regs[R['IM']], 'tstates': regs[R['T']]}
                for k, v in want.items():
                    g = getattr(s2, k, None)
                    if g != v:
                        problems.append('embedded snapshot %s is %r, the recorder held %r' % (k, g, v))
                if list(cfs.call(s2, 'ram')) != mem[16384:]:
                    problems.append('embedded snapshot RAM differs from the recorder memory')
                got_frames = [(f.fetch_counter, list(rec.data[f.start:f.end])) for f in rec.frames]
                want_frames = [(f.fetch_counter, list(data[f.start:f.end])) for f in frames[stop_at:]]
                if got_frames != want_frames:
                    problems.append('frames read back %s, written %s' % (got_frames[:3], want_frames[:3]))
            if problems:
                ctx.violation('rzx round trip ' + ext, where, '%s: %s' % (name, '; '.join(problems[:3])))
            else:
                ctx.ok({'case': name, 'bytes': len(blob)})

def boundary_rule(ctx, repo):
    """C20.7 (*fold*): the end-of-frame interrupt rules of rzxplay.process_block, folded on every combination of playback flags (bits 0 and
    1), last instruction (HALT, LD A,I, LD A,R, EI, another one), length of the next frame and IFF, against the rules as the manual
    states them: with interrupts enabled an interrupt is accepted at every frame boundary, except - flag bit 1 - after EI when the next
    frame is short; a halted CPU is stepped past the HALT first; flag bit 0 makes LD A,I / LD A,R at the boundary reset bit 2 of F; each flag
    acts independently of the other."""
    ctx.rule('C20.7-frame-boundary', 'end-of-frame interrupt handling of process_block folded on flags x last instruction x next frame length x IFF == the documented rules (each playback flag independent of the other)', floor=100)
    m = repo.mod('rzxplay')
    fn = m.funcs.get('process_block')
    if fn is None:
        raise FactError('skoolkit/rzxplay.py: process_block not found')
    node = None
    for n in ast.walk(fn):
        if isinstance(n, ast.If) and 'accept_interrupt' in ast.unparse(n) and '118' in ast.unparse(n) and 'registers[26]' in ast.unparse(n.test).replace('IFF', '26'):
            if node is None or len(ast.unparse(n)) < len(ast.unparse(node)):
                node = n
    if node is None:
        raise FactError('skoolkit/rzxplay.py: end-of-frame interrupt handling in process_block not found')
    # the flag variables: names assigned from `flags & 1` / `flags & 2`
    flag_names = {}
    for n in ast.walk(fn):
        if isinstance(n, ast.Assign) and isinstance(n.targets[0], ast.Name) and isinstance(n.value, ast.BinOp) and isinstance(n.value.op, ast.BitAnd) and isinstance(n.value.right, ast.Constant) \
           and 'flags' in ast.unparse(n.value.left):
            flag_names[n.targets[0].id] = n.value.right.value
    if sorted(flag_names.values()) != [1, 2]:
        raise FactError('skoolkit/rzxplay.py: playback flag variables of process_block not recognised (%s)' % flag_names)
    from sa.core.pyfacts import FuncFold, FOLDED_NONE
    LAST = {'HALT': [0x76], 'LD A,I': [0xED, 0x57], 'LD A,R': [0xED, 0x5F], 'EI': [0xFB], 'NOP': [0x00], 'ED-prefixed other': [0xED, 0x44]}
    for flags in range(4):
        for lname, code in LAST.items():
            for next_len in (1, 2, 3, 500):
                for iff in (0, 1):
                    calls = []
                    def hook(n, lit):
                        if isinstance(n, ast.Call) and isinstance(n.func, ast.Name) and n.func.id == 'accept_interrupt':
                            calls.append(1)
                            return FOLDED_NONE
                        return None
                    hook.wants_lit = True
                    regs = [0] * 30
                    pc = 40000
                    regs[26], regs[1] = iff, 0xFF
                    regs[24] = pc if lname == 'HALT' else pc + len(code)
                    mem = [0] * 65536
                    mem[pc:pc + len(code)] = code
                    env = {'registers': regs, 'memory': mem, 'pc': pc, 'fetch_counter': next_len}
                    for nm, bit in flag_names.items():
                        env[nm] = flags & bit
                    ff = FuncFold(repo, 'rzxplay', {}, hook)
                    ff.env = env
                    try:
                        ff.stmt(node)
                    except NotLiteral as e:
                        ctx.limit('frame boundary', 'not foldable: %s' % e)
                        continue
                    want_accept = int(bool(iff) and not (flags & 2 and lname == 'EI' and next_len <= 2))
                    want_f = 0xFF & (~4 if (iff and flags & 1 and lname in ('LD A,I', 'LD A,R')) else 0xFF)
                    want_pc = (pc + 1) if (iff and lname == 'HALT') else regs[24] if False else (pc if lname == 'HALT' else pc + len(code))
                    got = (len(calls), regs[1], regs[24])
                    if got != (want_accept, want_f, want_pc):
                        ctx.violation('frame boundary flags %d after %s' % (flags, lname), 'skoolkit/rzxplay.py:%d' % node.lineno,
                                      'playback flags %d, last instruction %s, next frame of %d fetch(es), IFF=%d: accept_interrupt called %d time(s), F=%02X, PC=%d; the rules give %d, F=%02X, PC=%d' % ((flags, lname, next_len, iff) + got + (want_accept, want_f, want_pc)))
                    else:
                        ctx.ok({'flags': flags, 'last': lname} if next_len == 1 and iff else None)

def run(ctx):
    repo = pyfacts.Repo(ctx.repo_root)
    try:
        container_rule(ctx, repo)
    except FactError as e:
        # the layout rule reads the header tuples of write_rzx syntactically; when they are written another way the clause is left to
        # the folded write_rzx -> parse_rzx round trip (C20.6) below
        if not ctx.waive('C20.1-container', 'shape not recognised (%s); the container round trip C20.6 decides the clause' % e):
            raise
    boundary_rule(ctx, repo)
    fetch_rule(ctx, repo)
    roundtrip_rule(ctx, repo)
    from sa.rules import hwstate
    hwstate.run(ctx, repo, 'C20.5-hwstate')
    from sa.rules import C08paging, C09
    C08paging.python_sites(ctx, repo, rule='C20.3-latch', floor=7)
    C09.misc_rules(ctx, repo, repo.mod('snapshot'))
    from sa.rules import memo
    memo.run_for(ctx, repo, 'C20')
    return report.finish(ctx, EXPLANATION)
