"""C17.8-expansion (*fold*): the shared macro engine (skoolmacro.expand_macros and the parse_* functions of the numeric and control-flow
macros) folded on a table of macro texts with a model writer, once in ASM and once in HTML mode.

The writer is a model object of the checker (fields, snapshot, case/base, to_chr, space, expand - the attributes the shared parsers
use; what differs between the real AsmWriter and HtmlWriter methods is compared by C17.3).  The expected expansions are written down from
the manual's description of each macro (skool-macros.rst), not computed from the code.  Three things are decided for every text:
the ASM-mode expansion is the documented one; the HTML-mode expansion is the same text (character references for #CHR / #SPACE aside);
and the expansion does not depend on what surrounds the macro."""
import ast, html as _html
from sa.core import pyfacts
from sa.core.pyfacts import NotLiteral, FactError
from sa.core.classfold import ClassFolder

class Holder:
    _sa_fold_ok = True
    _sa_model = True

class Writer:
    _sa_fold_ok = True
    _sa_model = True
    pc = 32768
    def __init__(self, cf, html, base=0, case=0):
        self.cf = cf
        self.html = html
        self.fields = {'asm': 0, 'base': base, 'case': case, 'fix': 0, 'html': int(html)}
        self.fields.update({'cfg': {}, 'mode': dict(self.fields), 'vars': {}})
        self.case, self.base = case, base
        self.snapshot = [0] * 65536
        self.snapshot[40000:40003] = [7, 72, 105]
        self.snapshot[40003] = 0
        self.macros = {}
        self._snapshots = []
        self.space = '&#160;' if html else ' '
        self.parser = Holder()
        self.parser.fields = self.fields
        self.parser.memory_map = []
    def expand(self, text, *cwd):
        r = self.cf.call_func('skoolmacro', 'expand_macros', [self, text] + list(cwd))
        return r if self.html else r.strip()
    def to_chr(self, n):
        return '&#%d;' % n if self.html else chr(n)
    def warn(self, s):
        pass
    def get_reg(self, r):
        return r
    def save_pokes(self, addr, byte, length, step):
        pass
    def push_snapshot(self, name=''):
        self._snapshots.append(list(self.snapshot))
    def pop_snapshot(self):
        self.snapshot[:] = self._snapshots.pop()

def _hook(n, lit):
    if isinstance(n, ast.Call) and isinstance(n.func, ast.Attribute) and isinstance(n.func.value, ast.Name):
        m, a = n.func.value.id, n.func.attr
        if m == 'inspect' and a == 'getmembers':
            return []
        if m == 'html' and a in ('escape', 'unescape') and 'html' not in lit.env:
            return getattr(_html, a)(*lit._seq(n.args))
    return None

# (text, expected ASM-mode expansion, expected HTML-mode expansion or None for "the same", writer options)
TABLE = [
    ('#EVAL(1+2)', '3', None, {}),
    ('#EVAL(2*(3+4),16)', 'E', None, {}),
    ('#EVAL(255,16,4)', '00FF', None, {}),
    ('#EVAL(255,16)', 'ff', None, {'case': 1}),
    ('#EVAL(5,2,8)', '00000101', None, {}),
    ('#EVAL(7/2)', '3', None, {}),
    ('#EVAL(-7/2)', '-4', None, {}),
    ('#EVAL(7/2*2)', '6', None, {}),
    ('#EVAL(7%3)', '1', None, {}),
    ('#EVAL(2**10)', '1024', None, {}),
    ('#EVAL(6&3)', '2', None, {}),
    ('#EVAL(6|3)', '7', None, {}),
    ('#EVAL(6^3)', '5', None, {}),
    ('#EVAL(1<<4)', '16', None, {}),
    ('#EVAL(256>>4)', '16', None, {}),
    ('#EVAL(1==1&&2<3)', '1', None, {}),
    ('#EVAL(1>2||2>1)', '1', None, {}),
    ('#EVAL(1!=1)', '0', None, {}),
    ('#EVAL($10+1)', '17', None, {}),
    ('#EVAL(2+3*4)', '14', None, {}),
    ('#EVAL((2+3)*4)', '20', None, {}),
    ('#EVAL(10-2-3)', '5', None, {}),
    ('#FOR1,3(n,n,-)', '1-2-3', None, {}),
    ('#FOR1,3(n,n,+,=)', '1+2=3', None, {}),
    ('#FOR1,7,3(q,q)', '147', None, {}),
    ('#FOR(3,1,-1)(n,n,.)', '3.2.1', None, {}),
    ('#FOR(1,3)||n|[n]|, ||', '[1], [2], [3]', None, {}),
    ('#FOR(1,2)(n,#EVAL(n*n),;)', '1;4', None, {}),
    ('#FOREACH(a,b,c)(s,[s],/)', '[a]/[b]/[c]', None, {}),
    ('#FOREACH(1,2,3)(n,n,+,=)', '1+2=3', None, {}),
    ('#FOREACH(x)(v,<v>)', '<x>', '&lt;x&gt;', {}),
    ('#FOR1,2(n,n, & )', '1 & 2', '1 &amp; 2', {}),
    ('#FOREACH(1,2)(n,n, & )', '1 & 2', '1 &amp; 2', {}),
    ('#FOR1,3(n,n, < , > )', '1 < 2 > 3', '1 &lt; 2 &gt; 3', {}),
    ('#FOREACH(a&b,c)(v,[v])', '[a&b][c]', '[a&amp;b][c]', {}),
    ('#FOREACH(a,b,c)(n,[n],; , & )', '[a]; [b] & [c]', '[a]; [b] &amp; [c]', {}),
    ('#FOREACH(a,b,c)(n,n, < , > )', 'a < b > c', 'a &lt; b &gt; c', {}),
    ('#FOREACH(a,b)(n,n, & )', 'a & b', 'a &amp; b', {}),
    ('#FOR1,2(<n>,[<n>])', '[1][2]', '[1][2]', {}),
    ('#FOREACH(a,b)(&,(&))', '(a)(b)', '(a)(b)', {}),
    ('#FOR1,3(<i>,<i>, & )', '1 & 2 & 3', '1 &amp; 2 &amp; 3', {}),
    ('#FOR1,2/,n,(n,n),;,/', '(1,1);(2,2)', None, {}),
    ('#FOREACH(1,2)/,n,(n,n),;,/', '(1,1);(2,2)', None, {}),
    ('#IF(1)/,(a,b),c,/', '(a,b)', None, {}),
    ('#MAP(2)/,x,1:(a,b),2:(c,d),/', '(c,d)', None, {}),
    ('#FOR1,2//n/(n,n)/;//', '(1,1);(2,2)', None, {}),
    ('#IF(1<2)(yes,no)', 'yes', None, {}),
    ('#IF(0)(yes,no)', 'no', None, {}),
    ('#IF(0)(yes)', '', None, {}),
    ('#IF({html})(H,A)', 'A', 'H', {}),
    ('#IF({base}==16)(hex,dec)', 'hex', None, {'base': 16}),
    ('#MAP2(?,1:a,2:b)', 'b', None, {}),
    ('#MAP9(?,1:a,2:b)', '?', None, {}),
    ('#MAP(1+1)(?,1:a,2:b)', 'b', None, {}),
    ('#MAP3(0,1,3,5)', '3', None, {}),
    ('#LET(q=5)#EVAL({q}+1)', '6', None, {}),
    ('#LET(s$=ab)#FORMAT({s$})', 'ab', None, {}),
    ('#LET(n=1)#EVAL(#LET(n=7){n}+1)', '8', None, {}),
    ('#LET(n=2)#LET(n={n}*{n})#EVAL({n})', '4', None, {}),
    ('#N10', '10', None, {}),
    ('#N(10,4,3)', '010', None, {}),
    ('#N255', 'FF', None, {'base': 16}),
    ('#N(255,,,1)($)', '$FF', None, {'base': 16}),
    ('#N(10,4)', '000A', None, {'base': 16}),
    ('#N(10,4)', '000a', None, {'base': 16, 'case': 1}),
    ('#N(255,,,,1)', 'FF', None, {}),
    ('#CHR65', 'A', '&#65;', {}),
    ('#CHR(#EVAL(64+2))', 'B', '&#66;', {}),
    ('a#SPACE3b', 'a   b', 'a&#160;&#160;&#160;b', {}),
    ('#FORMAT(a{base:03}b)', 'a000b', None, {}),
    ('#FORMAT1(Ab{case})', 'ab0', None, {}),
    ('#FORMAT2(ab)', 'AB', None, {}),
    ('#PEEK40000', '7', None, {}),
    ('#POKES40000,5#PEEK40000', '5', None, {}),
    ('a#PUSHS #POKES40000,9#POPS#PEEK40000', 'a 7', None, {}),
    ('#POKES40000,1,3#EVAL(#PEEK40000+#PEEK40001+#PEEK40002)', '3', None, {}),
    ('#STR40001', 'Hi', None, {}),
    ('#LET(c=0)#WHILE({c}<3)(#LET(c={c}+1)x)', 'xxx', None, {}),
    ('#PC', '32768', None, {}),
    ('#EVAL(#PC+1)', '32769', None, {}),
    ('#FOR(1,#EVAL(1+1))(n,n)', '12', None, {}),
    ('#IF(#MAP2(0,2:1))(t,f)', 't', None, {}),
]

def run(ctx, repo):
    ctx.rule('C17.8-expansion', 'shared macro engine folded on %d macro texts with a model writer: ASM-mode expansion == the documented text, HTML-mode expansion the same (character references aside), independent of the surrounding text' % len(TABLE), floor=len(TABLE) - 5)
    where = 'skoolkit/skoolmacro.py'
    cf = ClassFolder(repo, 'skoolmacro', _hook)
    def writer(html, opts):
        w = Writer(cf, html, opts.get('base', 0), opts.get('case', 0))
        w.macros = cf.call_func('skoolmacro', 'get_macros', [w])
        return w
    for text, want, want_html, opts in TABLE:
        problems = []
        try:
            got = writer(False, opts).expand(text)
            if got != want:
                problems.append('ASM mode gives %r, the manual defines %r' % (got, want))
            goth = writer(True, opts).expand(_html.escape(text, False) if want_html is not None and ('&' in text or '<' in text) else text)
            wh = want if want_html is None else want_html
            if goth != wh:
                problems.append('HTML mode gives %r, expected %r' % (goth, wh))
            wrapped = writer(False, opts).expand('<' + text + '>')
            if wrapped != '<' + want + '>' and not problems:
                problems.append('inside other text (`<%s>`) it gives %r, expected %r' % (text, wrapped, '<' + want + '>'))
        except NotLiteral as e:
            ctx.limit(text, 'macro engine not foldable on this text: %s' % e)
            continue
        except (KeyError, IndexError, ValueError, TypeError, AttributeError, NameError, ZeroDivisionError) as e:
            problems.append('expansion fails with %s: %s' % (type(e).__name__, str(e)[:120]))
        macro = text[text.index('#'):].split('(')[0].rstrip('0123456789,$').split('#')[1] if '#' in text else text
        if problems:
            ctx.violation('macro %s `%s`' % (macro, text), where, '%s: %s' % (text, '; '.join(problems[:2])))
        else:
            ctx.ok({'text': text, 'expansion': want})
