"""C08 - ROM never written, register/memory ranges, T monotonic, 128K paging discipline."""
import ast
from sa.core import pyfacts, simfacts, effects, report, absdom, cfacts
from sa.core.terms import C, isc, mk, post, show, BYTE_TABLES
from sa.core.effects import Unsupported
from sa.core.absdom import V, BYTE, WORD, BOOL, NONNEG, INF

EXPLANATION = (
    "Invariant-preservation argument by induction on one instruction, decided from source for all four implementations: (1) every memory "
    "store of every instantiated handler, accept_interrupt, the fast DJNZ/LDIR variants and LoadTracer.fast_load is dominated by a test "
    "`addr > 0x3FFF` on the same address value (value-numbered terms, so re-assignment between test and store cannot hide); no other C "
    "function stores to simulated memory; (2) assuming the range invariant at entry, every register store stays in its range, every stored "
    "memory byte is in 0..255, every memory index in 0..65535 and the T-state increment is non-negative (interval x mask abstract "
    "interpretation of the value terms, with refinement by the path guards); (3) every call site of out7ffd() reachable from a port write is "
    "guarded by (port & 0x8002) == 0 and the lock bit, and records the value; (4) the three out7ffd implementations map bit 4 to the ROM and "
    "bits 0-2 to the bank (finite-domain fold over 0..255) and touch only slots 0 and 3 of the mapping.")

REG_NAMES = {0: 'A', 1: 'F', 2: 'B', 3: 'C', 4: 'D', 5: 'E', 6: 'H', 7: 'L', 8: 'IXh', 9: 'IXl', 10: 'IYh', 11: 'IYl', 12: 'SP', 14: 'I', 15: 'R',
             16: "A'", 17: "F'", 18: "B'", 19: "C'", 20: "D'", 21: "E'", 22: "H'", 23: "L'", 24: 'PC', 25: 'T', 26: 'IFF', 27: 'IM', 28: 'HALT', 29: 'MEMPTR'}

def table_summaries(repo=None):
    """Element summaries (depth, interval x mask) of the lookup tables, computed from the constant-folded
    definitions in simtables.py (so the range proof does not assume the tables are byte-valued)."""
    from sa.core import tabulate
    from sa.rules import z80ref
    t = {}
    tabs = tabulate.python_tables(repo.mod('simtables'))
    for name, (dims, fn) in z80ref.TABLES.items():
        if name not in tabs:
            continue
        def leaves(v, d):
            if d == 0:
                yield v
            else:
                for x in v:
                    yield from leaves(x, d - 1)
        elems = list(leaves(tabs[name], len(dims)))
        if isinstance(elems[0], (tuple, list)):
            comps = []
            for i in range(len(elems[0])):
                vals = [e[i] for e in elems]
                m = 0
                for x in vals:
                    m |= int(x)
                comps.append(V(min(vals), max(vals), m if min(vals) >= 0 else None))
            t[name] = (len(dims), tuple(comps))
        else:
            m = 0
            for x in elems:
                m |= int(x)
            t[name] = (len(dims), V(int(min(elems)), int(max(elems)), m if min(elems) >= 0 else None))
    return t

SYMS = {'frame_duration': V(1, INF), 't0': NONNEG, 't1': NONNEG, 'int_active': NONNEG}

def guard_ok(addr, guards):
    """Is the store to `addr` dominated by a test that excludes 0..0x3FFF for the same address value?"""
    addr = post(addr)
    for g in guards:
        g = post(g)
        for x in (g[1:] if g[0] == 'and' else (g,)):
            if x[0] == '>' and x[1] == addr and isc(x[2]) and x[2][1] >= 0x3FFF:
                return True
            if x[0] == '==' and x[1] == addr and isc(x[2]) and x[2][1] > 0x3FFF:
                return True
            if x[0] == '<' and isc(x[1]) and x[1][1] >= 0x3FFF and x[2] == addr:
                return True
    return False

def check_paths(ctx, paths, name, where, impl, ae, c_side=False):
    """ROM guard + range obligations for one instantiated body."""
    for p in paths:
        guards = [post(g) for g in p.guards]
        for addr, val, gs, line in p.mw:
            if guard_ok(addr, gs):
                ctx.ok({'body': name, 'store': 'memory[%s]' % show(post(addr))[:80], 'guard': '> 0x3FFF'}, rule='C08.1-rom')
            else:
                ctx.violation('%s store %s' % (name, show(post(addr))[:60]), '%s (store at line %s)' % (where, line),
                              'memory store to address %s is not dominated by a test `address > 0x3FFF` on the same value: ROM can be modified; guards in force: %s' %
                              (show(post(addr))[:120], [show(post(g))[:80] for g in gs][:4]), rule='C08.1-rom')
        ae.assume(guards)
        ae.problems = []
        for k, v in p.regs.items():
            v = post(v)
            if v == ('reg', k):
                continue
            if k == 25:
                # T never decreases: new T = old T + d with d >= 0
                if v[0] == '+' and ('reg', 25) in v[1:]:
                    rest = [x for x in v[1:] if x != ('reg', 25)]
                    d = ae.ev(mk('+', *rest) if len(rest) > 1 else rest[0])
                else:
                    d = None
                if d is not None and d.lo >= 0:
                    ctx.ok({'body': name, 'T increment': repr(d)}, rule='C08.2-T')
                else:
                    ctx.violation('%s T' % name, where, 'T-state clock may decrease: new T = %s, increment range %s' % (show(v)[:160], d), rule='C08.2-T')
                continue
            rng = absdom.reg_range(k)
            a = ae.ev(v)
            if a.within(rng.lo, rng.hi):
                ctx.ok({'body': name, 'register': REG_NAMES.get(k, k), 'value range': repr(a)}, rule='C08.2-ranges')
            else:
                ctx.violation('%s reg %s' % (name, REG_NAMES.get(k, k)), where,
                              'register %s may leave %d..%s: value %s has range %s' % (REG_NAMES.get(k, k), rng.lo, rng.hi, show(v)[:200], a), rule='C08.2-ranges')
        for addr, val, gs, line in p.mw:
            addr = post(addr); val = post(val)
            if addr[0] != 'bank':
                a = ae.ev(addr)
                if a.within(0, 65535):
                    ctx.ok(rule='C08.2-ranges')
                else:
                    ctx.violation('%s store index' % name, where, 'memory store index %s has range %s, outside 0..65535' % (show(addr)[:120], a), rule='C08.2-ranges')
            if not c_side:
                b = ae.ev(val)
                if b.within(0, 255):
                    ctx.ok(rule='C08.2-ranges')
                else:
                    ctx.violation('%s store value' % name, '%s (line %s)' % (where, line), 'memory cell may leave 0..255: stored value %s has range %s' % (show(val)[:160], b), rule='C08.2-ranges')
        for kind, t, a in ae.problems:
            ctx.violation('%s read index' % name, where, '%s: %s has range %s' % (kind, show(t)[:120], a), rule='C08.2-ranges')

def slot_rules(ctx, m):
    ctx.rule('C08.1-rom', 'every memory store is dominated by `address > 0x3FFF` on the same address value', floor=4 * 60)
    ctx.rule('C08.2-ranges', 'register stores stay in range, stored bytes in 0..255, memory indices in 0..65535 (abstract interpretation)', floor=4 * 3000)
    ctx.rule('C08.2-T', 'T-state increment is non-negative on every path', floor=4 * 1100)
    tables = table_summaries(m.repo)
    seen = set()
    for s in m.slots():
        if m.is_prefix(s):
            continue
        for impl in simfacts.IMPLS:
            k = m.inst_key(impl, s)
            if k in seen:
                continue
            seen.add(k)
            name = '%s:%s%s' % (impl, s.handler, list(k[2:]) if impl in ('py', 'cm') else list(k[3]))
            try:
                paths = m.raw_paths(impl, s)
            except Unsupported as e:
                ctx.limit(name, 'construct not modelled: %s' % e, rule='C08.2-ranges')
                continue
            ae = absdom.AbsEval(tables, SYMS)
            check_paths(ctx, paths, name, m.where(impl, s), impl, ae, c_side=impl in ('cp', 'cc'))

def extra_bodies(ctx, m):
    """accept_interrupt (4 bodies), djnz_fast, and the C functions outside the tables."""
    from sa.rules.C06 import interrupt_paths_py
    tables = table_summaries(m.repo)
    for cls in ('Simulator', 'CMIOSimulator'):
        paths = interrupt_paths_py(m, cls)
        check_paths(ctx, paths, '%s.accept_interrupt' % cls, 'skoolkit/simulator.py:%d' % m.py.factories['Simulator']['accept_interrupt'].lineno, 'py', absdom.AbsEval(tables, SYMS))
    for cfg in ('plain', 'cont'):
        u = m.c.units[cfg]
        ex = effects.CExtractor([0] * 7, None, m.c.consts[cfg], u, 'accept_interrupt')
        paths = ex.run([effects.Path()], u.body('accept_interrupt'))
        check_paths(ctx, paths, 'C:%s accept_interrupt' % cfg, 'c/csimulator.c:%d' % u.funcs['accept_interrupt']['line'], 'c', absdom.AbsEval(tables, SYMS), c_side=True)
    # djnz_fast (Simulator only): a closure that inlines djnz()
    fac = m.py.factories['Simulator'].get('djnz_fast')
    if fac is None:
        raise pyfacts.FactError('Simulator.djnz_fast not found')
    paths, clo = m.py.paths_of('Simulator', fac, {'registers': ('regs',), 'memory': ('mem',)})
    check_paths(ctx, paths, 'py:djnz_fast', '%s:%d' % (m.py.mod.relpath, fac.lineno), 'py', absdom.AbsEval(tables, SYMS))

def c_writers(ctx, m):
    ctx.rule('C08.1-cwriters', 'C functions that store to simulated memory are handlers covered by C08.1 or named set-up functions', floor=20)
    ALLOW = {'set_memory': 'maps the bank/ROM buffers when a memory object is attached (before any instruction runs)',
             'convert_memory': 'copies a Python list into the byte buffer at construction',
             'out7ffd': 'assigns mapping slots 0 and 3 only (checked by C08.4)'}
    for cfg in ('plain', 'cont'):
        u = m.c.units[cfg]
        handlers = {row['func'] for t in simfacts.TABLES for row in m.c.tables[cfg][t]}
        for name, fn in u.funcs.items():
            kinds = set()
            stack = [fn]
            while stack:
                n = stack.pop()
                k = n.get('kind')
                if (k == 'BinaryOperator' and n.get('opcode') == '=') or k == 'CompoundAssignOperator' or (k == 'UnaryOperator' and n.get('opcode') in ('++', '--')):
                    lhs = cfacts.strip(n['inner'][0])
                    if lhs.get('kind') == 'ArraySubscriptExpr':
                        b = cfacts.strip(lhs['inner'][0])
                        if b.get('kind') == 'DeclRefExpr' and b.get('ref') in ('mem', 'memory'):
                            kinds.add('mem[]')
                        elif b.get('kind') == 'MemberExpr' and b.get('name') in ('memory', 'mem128', 'banks', 'roms'):
                            kinds.add('self->%s[]' % b['name'])
                        elif b.get('kind') == 'ArraySubscriptExpr':
                            bb = cfacts.strip(b['inner'][0])
                            if bb.get('kind') == 'MemberExpr' and bb.get('name') in ('mem128', 'banks', 'roms'):
                                kinds.add('self->%s[][]' % bb['name'])
                stack.extend(n.get('inner', []))
            if not kinds:
                continue
            if name in handlers or name == 'accept_interrupt':
                ctx.ok({'function': name, 'build': cfg, 'stores': sorted(kinds), 'covered by': 'C08.1-rom'})
            elif name in ALLOW:
                ctx.ok({'function': name, 'build': cfg, 'stores': sorted(kinds), 'allowed because': ALLOW[name]})
            else:
                ctx.violation('C:%s/%s' % (name, cfg), 'c/csimulator.c:%d' % fn['line'],
                              'function %s stores to simulated memory (%s) but is neither a dispatch-table handler nor a known set-up function' % (name, sorted(kinds)))

def syntactic_guard(ctx, mod, fn, memname, where):
    """Statement-level dominance rule for bodies with loops: every `memory[X] = ...` sits in the body of
    `if X > 0x3FFF:` with no assignment to X between the test and the store."""
    count = 0
    def assigned(names, stmts):
        for st in stmts:
            for n in ast.walk(st):
                if isinstance(n, (ast.Assign, ast.AugAssign)):
                    tgs = n.targets if isinstance(n, ast.Assign) else [n.target]
                    for t in tgs:
                        for x in ast.walk(t):
                            if isinstance(x, ast.Name) and x.id in names and isinstance(x.ctx, ast.Store):
                                return True
        return False
    def visit(stmts, guards):
        nonlocal count
        for i, st in enumerate(stmts):
            if isinstance(st, ast.Assign):
                for tg in st.targets:
                    if isinstance(tg, ast.Subscript) and isinstance(tg.value, ast.Name) and tg.value.id == memname:
                        count += 1
                        idx = ast.unparse(tg.slice)
                        names = {n.id for n in ast.walk(tg.slice) if isinstance(n, ast.Name)}
                        ok = False
                        for gexpr, gstmts, gpos in guards:
                            if gexpr == idx and not assigned(names, gstmts[:gpos]):
                                ok = True
                        if ok:
                            ctx.ok({'body': fn.name, 'store': '%s[%s]' % (memname, idx), 'guard': idx + ' > 0x3FFF'}, rule='C08.1-rom')
                        else:
                            ctx.violation('%s store %s' % (fn.name, idx), '%s:%d' % (where, st.lineno),
                                          'store %s[%s] is not inside `if %s > 0x3FFF:` (or the address is re-assigned between test and store)' % (memname, idx, idx), rule='C08.1-rom')
            if isinstance(st, ast.If):
                g = None
                t = st.test
                if isinstance(t, ast.Compare) and len(t.ops) == 1 and isinstance(t.comparators[0], ast.Constant):
                    c = t.comparators[0].value
                    if (isinstance(t.ops[0], ast.Gt) and c >= 0x3FFF) or (isinstance(t.ops[0], ast.GtE) and c >= 0x4000):
                        g = ast.unparse(t.left)
                if g is not None:
                    # position bookkeeping: statements of the if-body preceding the store
                    for j, sub in enumerate(st.body):
                        visit([sub], guards + [(g, st.body, j)])
                else:
                    visit(st.body, guards)
                visit(st.orelse, guards)
            elif isinstance(st, (ast.While, ast.For)):
                # a guard taken outside a loop does not protect a store inside it if the address changes in the loop
                inner = [(ge, gs, gp) for ge, gs, gp in guards if not assigned({n.id for n in ast.walk(ast.parse(ge)) if isinstance(n, ast.Name)}, st.body)]
                visit(st.body, inner)
                visit(st.orelse, guards)
            elif isinstance(st, (ast.With, ast.Try)):
                visit(st.body, guards)
    visit(fn.body, [])
    return count

def loop_bodies(ctx, repo, m):
    fac = m.py.factories['Simulator'].get('ldir_fast')
    if fac is None:
        raise pyfacts.FactError('Simulator.ldir_fast not found')
    n = syntactic_guard(ctx, m.py.mod, effects.closure_of(fac), 'memory', m.py.mod.relpath)
    lt = repo.mod('loadtracer')
    fl = lt.method('LoadTracer', 'fast_load')
    n += syntactic_guard(ctx, lt, fl, 'memory', lt.relpath)
    if n < 4:
        raise report.AnalysisError('expected at least 4 memory stores in ldir_fast/fast_load, found %d' % n)
    # value ranges inside the loop body of ldir_fast: statement-level abstract interpretation with widening
    from sa.core import stmtabs
    from sa.core.absdom import const
    ctx.rule('C08.2-loop', 'ldir_fast (while loop): register stores in range, stored bytes 0..255, memory indices 0..65535, T increment >= 0 (interval analysis with widening)', floor=20)
    clo = effects.closure_of(fac)
    for inc in (1, -1):
        sa_ = stmtabs.StmtAbs(m.py.regconsts, {'inc': const(inc)})
        try:
            sa_.run(clo.body, {})
        except NotImplementedError as e:
            ctx.limit('ldir_fast inc=%d' % inc, 'statement not modelled: %s' % e)
            continue
        last = {}
        for o in sa_.obligations:
            last[(o.kind, o.line)] = o
        for (kind, line), o in sorted(last.items(), key=lambda x: (x[0][1], x[0][0])):
            if o.ok:
                ctx.ok({'body': 'ldir_fast(inc=%d)' % inc, 'obligation': kind, 'line': line, 'range': repr(o.value)})
            else:
                ctx.violation('ldir_fast(inc=%d) %s: %s' % (inc, kind, o.text[:50]), '%s:%d' % (m.py.mod.relpath, line),
                              'in the fast LDIR/LDDR loop `%s` has range %s, outside what %s allows' % (o.text[:100], o.value, kind))

PY_WRITERS = {
    ('loadtracer', 'LoadTracer.fast_load'): 'ROM-loader shortcut; its stores are checked by the dominance rule C08.1',
    ('pagingtracer', 'Memory.out7ffd'): 'assigns mapping slots 0 and 3 only (C08.4)',
    ('skoolutils', 'Memory.out7ffd'): 'assigns mapping slots 0 and 3 only (C08.4)',
    ('skoolutils', 'Memory.bank'): 'skool-file @bank directive: builds the 128K image before any simulation',
    ('simutils', 'from_snapshot'): 'copies the ROM image into a fresh 48K memory before the simulator exists',
    ('tap2sna', 'sim_load'): 'prepares ROM, system variables and the LOAD command before the simulator is created',
    ('trace', 'run'): 'copies the ROM image into memory before the simulator is created',
    ('skoolmacro', 'parse_audio'): 'copies simulator memory back into the writer snapshot after the run (target is not the simulator memory)',
    ('skoolmacro', 'parse_sim'): 'copies simulator memory back into the writer snapshot after the run (target is not the simulator memory)',
}

def py_writers(ctx, repo):
    ctx.rule('C08.1-pywriters', 'Python functions that store into a memory object outside the simulator classes are the enumerated set-up / copy-out sites', floor=8)
    found = set()
    for mod in repo.all_modules():
        if mod.name in ('simulator', 'cmiosimulator'):
            continue
        def visit(body, qual):
            for st in body:
                if isinstance(st, ast.FunctionDef):
                    hit = None
                    for n in ast.walk(st):
                        tgs = n.targets if isinstance(n, ast.Assign) else ([n.target] if isinstance(n, ast.AugAssign) else [])
                        for t in tgs:
                            if isinstance(t, ast.Subscript):
                                b = ast.unparse(t.value)
                                if b == 'memory' or b.endswith('.memory') or b == 's_memory':
                                    hit = hit or n.lineno
                    if hit:
                        key = (mod.name, qual + st.name)
                        found.add(key)
                        if key in PY_WRITERS:
                            ctx.ok({'function': '%s.%s' % key, 'allowed because': PY_WRITERS[key]})
                        else:
                            ctx.violation('%s.%s' % key, '%s:%d' % (mod.relpath, hit),
                                          '%s.%s stores into a memory object but is neither a simulator handler nor a known set-up / copy-out site: simulated memory (including ROM) can change behind the simulator' % key)
                    visit(st.body, qual + st.name + '.')
                elif isinstance(st, ast.ClassDef):
                    visit(st.body, st.name + '.')
        visit(mod.tree.body, '')

def run(ctx):
    repo = pyfacts.Repo(ctx.repo_root)
    m = simfacts.SimModel(repo)
    py_writers(ctx, repo)
    slot_rules(ctx, m)
    extra_bodies(ctx, m)
    c_writers(ctx, m)
    loop_bodies(ctx, repo, m)
    from sa.rules import C08paging
    C08paging.run(ctx, repo, m)
    ctx.assume('entry invariant: 8-bit register slots in 0..255, SP/PC/MEMPTR in 0..65535, IFF/HALT in 0..1, IM in 0..2, memory cells in 0..255, T >= 0')
    ctx.assume('lookup-table element ranges are computed from the folded simtables.py definitions (C tables are `byte` arrays and equal them by C05.T); port-read tracers return 0..255; contend() returns a non-negative delay (C19)')
    return report.finish(ctx, EXPLANATION)
