"""C14.6-pipeline (*fold*): sna2ctl -> sna2skool -> skool2bin folded on model images, with and without a code map.

generate_ctls (both paths: the static analysis and the code-map path with its CtlParser / Disassembly fix-point loops) is folded on a model
memory image; for the code-map path an execution map of the image's own code is written by the checker in three of the supported formats
(Z80 bit map, SpecEmu byte map, rzxplay / Fuse text) and read through the folded read_map.  Decided for every case: the directives start
at START, stay inside [START, END], end with the terminator at END and only there; every mapped address lies inside a code block; write_ctl's
output, folded through sna2skool, raises no overlap warning; and skool2bin reproduces the bytes (the C01 guarantee for the generated file)."""
import ast, random
from sa.core import pyfacts
from sa.core.pyfacts import NotLiteral, FactError, FOLDED_NONE
from sa.rules.C01pipe import Pipeline, Rec, CODE, LineFile

class SeekFile(LineFile):
    def __init__(self, lines):
        super().__init__(lines)
        self.pos = 0
    def readline(self):
        if self.pos < len(self.lines):
            self.pos += 1
            return self.lines[self.pos - 1]
        return ''
    def seek(self, n):
        self.pos = 0
    def tell(self):
        return sum(len(l) for l in self.lines[:self.pos])

class CtlPipeline(Pipeline):
    def __init__(self, repo):
        super().__init__(repo)
        self.binfiles = {}
        self.textfiles = {}

    def hook(self, n, lit):
        if isinstance(n, ast.Call) and isinstance(n.func, ast.Attribute):
            t = ast.unparse(n.func)
            if t == 'os.path.isdir':
                return False
            if t == 'os.path.getsize':
                name = lit.ev(n.args[0])
                if name in self.binfiles:
                    return len(self.binfiles[name])
                return sum(len(l) for l in self.textfiles[name])
            if t in ('sys.stderr.write', 'sys.stderr.flush', 'sys.stdout.write', 'sys.stdout.flush'):
                return FOLDED_NONE
        if isinstance(n, ast.Call) and isinstance(n.func, ast.Name) and n.func.id not in lit.env:
            if n.func.id == 'read_bin_file':
                name = lit.ev(n.args[0])
                if name in self.binfiles:
                    return bytes(self.binfiles[name])
            if n.func.id == 'open_file':
                a = lit._seq(n.args)
                if a[0] in self.textfiles:
                    return SeekFile(self.textfiles[a[0]])
        return super().hook(n, lit)
    hook.wants_lit = True
    hook.override_names = Pipeline.hook.override_names

def gen_image(rnd):
    """A code-like image with known instruction boundaries; returns (snapshot, start, end, executed instruction addresses)."""
    start = rnd.choice((30000, 40000, 50000, 30003, 40005))
    snap = [0] * 65536
    a = start
    executed = []
    extra = []          # (in gen_image.extra) mapped addresses that are not instruction starts of the straight-line reading, or lie outside the range
    gen_image.cut_executed = False
    for region in range(rnd.randrange(2, 6)):
        kind = rnd.choice(('code', 'code', 'data', 'text', 'zeros'))
        if kind == 'code':
            run = rnd.random() < 0.75
            for k in range(rnd.randrange(2, 8)):
                ins, variant = rnd.choice([c for c in CODE if not c[1]])
                if run:
                    executed.append(a)
                for x in ins:
                    snap[a] = rnd.randrange(256) if x is None else x
                    a += 1
            if run and rnd.random() < 0.3:
                # JP nn whose operand low byte is RET, and a later jump into that operand byte: both are executed
                executed.append(a)
                snap[a:a + 3] = [0xC3, 0xC9, rnd.choice((0x75, 0x9C))]
                extra.append(a + 1)
                a += 3
            elif rnd.random() < 0.7:
                if run:
                    executed.append(a)
                snap[a] = 0xC9
                a += 1
        elif kind == 'data':
            for k in range(rnd.randrange(1, 12)):
                snap[a] = rnd.randrange(256)
                a += 1
        elif kind == 'text':
            for ch in rnd.choice(('HELLO WORLD', 'Press any key to start', 'abc')):
                snap[a] = ord(ch)
                a += 1
        else:
            a += rnd.randrange(1, 10)
    if rnd.random() < 0.5:
        # the range ends in the middle of an instruction (sometimes directly after executed code that does not end with RET/JP/JR)
        if rnd.random() < 0.5:
            for k in range(rnd.randrange(1, 4)):
                ins = rnd.choice(([0x00], [0x3E, 7], [0xAF], [0x06, 1], [0xC9]))
                executed.append(a)
                for x in ins:
                    snap[a] = x
                    a += 1
        ins = rnd.choice(([0xC3, 0x12], [0xCD, 0x00], [0x01], [0xDD, 0x36, 0x01], [0xED], [0xDD, 0xCB, 0x02], [0x18]))
        if executed and executed[-1] < a and rnd.random() < 0.6:
            # the instruction cut off by END was executed too (the trace does not know about END)
            executed.append(a)
            gen_image.cut_executed = True
        for x in ins:
            snap[a] = x
            a += 1
        snap[a] = rnd.choice((0, 0x41, 0xC9))          # the byte at END itself (not part of the range)
    # a real trace also holds addresses outside the range, some in the same group of eight as START or END
    for x in (start - 1, start - 3, a, a + 1, a + 5, start - 200, a + 300):
        if rnd.random() < 0.5 and 0 <= x < 65536 and not (start <= x < a):
            snap[x] = snap[x] or 0xC9
            extra.append(x)
    gen_image.extra = extra
    return snap, start, a, executed

# (start, bytes, executed addresses)
HIDDEN = [
    (50100, [0xCD, 0xBE, 0xC3, 0xCD, 0xBF, 0xC3, 0x18, 0xFE, 0x00, 0x00, 0x06, 0xC3, 0xC9, 0xC3, 0x01, 0x02, 0x03, 0xFF, 0xFF, 0xFF, 0xFF, 0xC9, 0x07, 0x08, 0x09],
     [50100, 50103, 50106, 50110, 50111, 50112, 50121]),                     # LD B,195 / RET with JP 50121 hidden in the operand
    (40000, [0xCD, 0x4A, 0x9C, 0xCD, 0x4B, 0x9C, 0x18, 0xFE, 0x00, 0x00, 0x3E, 0x21, 0xC9, 0x01, 0xC9, 0x21, 0x00, 0x00, 0xFF, 0xFF],
     [40000, 40003, 40006, 40010, 40011, 40012, 40014]),                     # LD A,33 / RET with LD HL,457 hidden, which runs on into a RET
    (60000, [0xCD, 0x6A, 0xEA, 0xCD, 0x6B, 0xEA, 0x18, 0xFE, 0x00, 0x00, 0x0E, 0xDD, 0xC9, 0x21, 0x34, 0x12, 0xC9, 0xDD, 0x21, 0x00, 0x00, 0xFF],
     [60000, 60003, 60006, 60010, 60011, 60012, 60016]),                     # LD C,221 / RET with a DD-prefixed RET;LD HL hidden: DD C9 is not a valid pair, so the trace shows DD then RET
]

def run(ctx, repo):
    n = 120 if ctx.tier == 'thorough' else 24
    ctx.rule('C14.6-pipeline', 'sna2ctl (with and without a code map in three formats) -> sna2skool -> skool2bin folded on %d model images: tiling, mapped addresses inside code blocks, no overlap warnings, bytes reproduced' % n, floor=n - 4)
    rnd = random.Random(1406 + ctx.seed)
    P = CtlPipeline(repo)
    cfs = P.cf.sibling('snactl')
    where = 'skoolkit/snactl.py'
    seen = set()
    for k in range(n + 2 * len(HIDDEN)):
        if k < n:
            snap, start, end, executed = gen_image(rnd)
            mode = ('none', 'z80map', 'specemu', 'text$', 'text0x')[k % 5]
            extra, cut = gen_image.extra, gen_image.cut_executed
        else:
            # traces through a hidden instruction (an executed instruction that starts inside the operand of another executed one and
            # ends beyond the contiguous run), as a simulator records them
            start, data, executed = HIDDEN[(k - n) // 2]
            snap = [0] * 65536
            snap[start:start + len(data)] = data
            end = start + len(data)
            mode = ('text$', 'z80map')[(k - n) % 2]
            extra, cut = [], False
        code_map = None
        mapped = sorted(set(executed) | set(extra))
        cut_executed = cut and mode != 'none'
        inside = [a for a in mapped if start <= a < end]
        if mode != 'none' and executed:
            code_map = 'map.' + mode
            P.binfiles.clear(); P.textfiles.clear()
            if mode == 'z80map':
                data = bytearray(8192)
                for a in mapped:
                    data[a // 8] |= 1 << (a % 8)
                P.binfiles[code_map] = data
            elif mode == 'specemu':
                data = bytearray(65536)
                for a in mapped:
                    data[a] = 1
                P.binfiles[code_map] = data
            elif mode == 'text$':
                P.textfiles[code_map] = ['$%04X\\n' % a for a in mapped]
            else:
                P.textfiles[code_map] = ['0x%04x,1\\n' % a for a in mapped]
        cfg = Rec(handle_rst=0, text_chars=''.join(chr(c) for c in range(32, 127) if chr(c) not in '#^`'), text_min_length_code=rnd.choice((12, 3)), text_min_length_data=rnd.choice((3, 8)), words=())
        name = 'image %d (%s map, %d..%d, %d executed instructions)' % (k, mode, start, end, len(executed) if code_map else 0)
        try:
            ctls = cfs.call_func('snactl', 'generate_ctls', [snap, start, end, code_map, cfg])
        except NotLiteral as e:
            ctx.limit('generate_ctls', 'not foldable (%s): %s' % (name, e))
            continue
        except (KeyError, IndexError, ValueError, TypeError, AttributeError, NameError) as e:
            key = 'generate_ctls %s' % type(e).__name__
            if key not in seen:
                seen.add(key)
                ctx.violation(key, where, '%s: generate_ctls fails with %s: %s on bytes %s' % (name, type(e).__name__, e, snap[start:end]))
            continue
        keys = sorted(ctls)
        problems = []
        if not keys or keys[0] != start:
            problems.append('first directive at %s, not START %d' % (keys[:1], start))
        if ctls.get(end) != 'i' or any(ctls[a] == 'i' for a in keys if a != end):
            problems.append('terminator: directive at END is %r, `i` also at %s' % (ctls.get(end), [a for a in keys if ctls[a] == 'i' and a != end][:2]))
        if any(a < start or a > end for a in keys):
            problems.append('directive outside [START, END]: %s' % [a for a in keys if a < start or a > end][:3])
        if code_map:
            for a in inside:
                blk = max(x for x in keys if x <= a)
                if ctls[blk] != 'c':
                    problems.append('executed address %d lies in a `%s` block (at %d)' % (a, ctls[blk], blk))
                    break
        if not problems and not cut_executed:
            # the generated file through sna2skool and skool2bin (not when the trace ran into the instruction END cuts off: it must
            # lie in a code block, and sna2skool cannot but decode it beyond END)
            try:
                P.lines = []
                opts = Rec(handle_rst=0, comments=0, ctl_hex=0)
                cfs.call_func('snactl', 'write_ctl', [ctls, snap, opts])
                ctl_lines = [l for l in P.lines]
                skool = P.sna2skool(snap, ctl_lines, start, end)
                warns = [w for w in P.warnings if 'overlaps' in w or 'Two instructions' in w]
                base, image = P.skool2bin(skool)
                if warns:
                    problems.append('sna2skool warns on the generated control file: %s' % warns[:2])
                elif base != start or image != bytes(snap[start:end]):
                    i = next((i for i, (x, y) in enumerate(zip(image, snap[start:end])) if x != y), min(len(image), end - start))
                    problems.append('skool2bin image (base %d, %d bytes) differs from the original from offset %d' % (base, len(image), i))
            except NotLiteral as e:
                ctx.limit('downstream', 'not foldable (%s): %s' % (name, e))
                continue
            except (KeyError, IndexError, ValueError, TypeError, AttributeError, NameError) as e:
                problems.append('sna2skool / skool2bin fail on the generated control file with %s: %s' % (type(e).__name__, e))
        if problems:
            key = problems[0].split(':')[0][:40]
            if key not in seen:
                seen.add(key)
                ctx.violation('sna2ctl pipeline ' + key, where, '%s: %s; bytes %s; directives %s' % (name, '; '.join(problems[:2]), snap[start:end], [(a, ctls[a]) for a in keys]))
        else:
            ctx.ok({'image': name, 'directives': len(keys)} if k % 6 == 0 else None)

def rst_rule(ctx, repo):
    """C14.7 (*fold*): sna2ctl -r.  RST 8 with its argument byte in the middle of code, as the last two bytes of memory and as the very last
    byte of memory, without and with a code map: every directive write_ctl emits lies inside [START, min(END, 65536)), sna2skool on the
    generated file gives no overlap warning and skool2bin reproduces the bytes."""
    ctx.rule('C14.7-rst', 'sna2ctl -r -> sna2skool -> skool2bin folded on images with RST 8 and its argument inside code and at the top of memory (with and without a code map): directives inside the range, no warnings, bytes reproduced', floor=6)
    P = CtlPipeline(repo)
    cfs = P.cf.sibling('snactl')
    where = 'skoolkit/snactl.py, skoolkit/opcodes.py, skoolkit/rst.py'
    cases = [('RST 8 + argument inside code', 40000, [0x00, 0xCF, 0x07, 0xAF, 0xC9], [0, 1, 3, 4]),
             ('RST 8 at 65534, argument at 65535', 65530, [0x00, 0x00, 0x00, 0xC9, 0xCF, 0x41], [0, 1, 2, 3]),
             ('RST 8 at 65535 (no room for its argument)', 65532, [0x3E, 0x01, 0x00, 0xCF], [0, 2, 3]),
             # a trace that ends in the RST (the error handler never returns): the argument is not in the map
             ('RST 8 last in the trace', 30000, [0xCF, 0x01, 0xC9, 0xC3, 0xC9, 0x01, 0x02, 0x03, 0x04, 0x05], [0]),
             ('RST 8 last in the trace, after code', 30000, [0x3E, 0x02, 0xCF, 0x21, 0x00, 0xC9, 0x18, 0x00, 0xC9], [0, 2])]
    for name, start, data, executed in cases:
        snap = [0] * 65536
        snap[start:start + len(data)] = data
        end = start + len(data)
        for use_map in (False, True):
            code_map = None
            P.binfiles.clear(); P.textfiles.clear()
            if use_map:
                code_map = 'map.text'
                P.textfiles[code_map] = ['$%04X\n' % (start + o) for o in executed]
            cfg = Rec(handle_rst=1, text_chars='', text_min_length_code=12, text_min_length_data=3, words=())
            full = '%s%s' % (name, ', code map' if use_map else '')
            try:
                ctls = cfs.call_func('snactl', 'generate_ctls', [snap, start, end, code_map, cfg])
                P.lines = []
                cfs.call_func('snactl', 'write_ctl', [ctls, snap, Rec(handle_rst=1, comments=0, ctl_hex=0)])
                ctl_lines = list(P.lines)
                bad = []
                for l in ctl_lines:
                    if l[0] in 'bcgistuwBCSTWM':
                        a = int(l.split()[1].split(',')[0])
                        if a < start or a > min(end, 65536) or (a == 65536 and l[0] != 'i'):
                            bad.append(l)
                if bad:
                    ctx.violation('sna2ctl -r ' + name, where, '%s: directive outside the range %d-%d: %s (control file %s)' % (full, start, end, bad, ctl_lines))
                    break
                skool = P.sna2skool(snap, ctl_lines, start, end, ctl_range=(0, 65536))      # the arguments are B sub-blocks now: sna2skool needs no -r
                warns = [w for w in P.warnings if 'overlaps' in w or 'Two instructions' in w]
                base, image = P.skool2bin(skool)
            except NotLiteral as e:
                ctx.limit('rst', 'not foldable (%s): %s' % (full, e))
                continue
            except (KeyError, IndexError, ValueError, TypeError, AttributeError) as e:
                ctx.violation('sna2ctl -r ' + name, where, '%s: fails with %s: %s' % (full, type(e).__name__, e))
                break
            if warns or base != start or image != bytes(data):
                ctx.violation('sna2ctl -r ' + name, where, '%s: control file %s; sna2skool warnings %s; skool2bin %d bytes at %d: %s, original %s' % (full, ctl_lines, warns[:2], len(image), base, list(image), data))
                break
            ctx.ok({'case': full})


def comments_rule(ctx, repo):
    """C14.8 (*fold*): sna2ctl -C.  generate_ctls + write_ctl with comments folded on code images that hold prefix bytes without an opcode
    after them (DD DD .., FD DD .., DD ED .., a lone CB / ED / DD / FD as the last byte of memory, DD CB d cut off by the top of memory) and on
    one image per first opcode byte: the control file is written (no exception), its instruction-comment lines have strictly increasing
    addresses inside the block, one per instruction the decoder sees."""
    ctx.rule('C14.8-comments', 'sna2ctl -C folded on images with prefix bytes that have no opcode after them (inside code and at the top of memory) and on one image per first opcode byte: a control file comes out, comment lines tile the code block', floor=40)
    P = CtlPipeline(repo)
    cfs = P.cf.sibling('snactl')
    where = 'skoolkit/comment.py, skoolkit/snactl.py'
    cases = [('DD DD NOP RET', 30000, [0xDD, 0xDD, 0x00, 0xC9]), ('FD DD LD IX,0 RET', 30000, [0xFD, 0xDD, 0x21, 0x00, 0x00, 0xC9]),
             ('DD ED NEG RET', 30000, [0xDD, 0xED, 0x44, 0xC9]), ('FD FD FD RET', 30000, [0xFD, 0xFD, 0xFD, 0xC9]),
             ('NOP ED at the top of memory', 65534, [0x00, 0xED]), ('NOP CB at the top of memory', 65534, [0x00, 0xCB]),
             ('NOP DD at the top of memory', 65534, [0x00, 0xDD]), ('NOP FD at the top of memory', 65534, [0x00, 0xFD]),
             ('DD CB d cut off by the top of memory', 65533, [0xDD, 0xCB, 0x05]), ('LD A,n cut off by the top of memory', 65534, [0x00, 0x3E]),
             ('JP nn cut off by the top of memory', 65533, [0x00, 0xC3, 0x00])]
    step = 1 if ctx.tier == 'thorough' else 8
    for op in range(ctx.seed % step, 256, step):
        for pre in ((), (0xDD,), (0xED,), (0xCB,), (0xFD, 0xCB)):
            if pre == (0xFD, 0xCB):
                data = [0xFD, 0xCB, 0x07, op, 0xC9]
            else:
                data = list(pre) + [op, 0x12, 0x34, 0xC9]
            cases.append(('%s + RET' % ' '.join('%02X' % b for b in data[:-1]), 40000, data))
    seen = set()
    for name, start, data in cases:
        snap = [0] * 65536
        snap[start:start + len(data)] = data
        end = start + len(data)
        cfg = Rec(handle_rst=0, text_chars='', text_min_length_code=12, text_min_length_data=3, words=())
        try:
            ctls = cfs.call_func('snactl', 'generate_ctls', [snap, start, end, None, cfg])
            P.lines = []
            cfs.call_func('snactl', 'write_ctl', [ctls, snap, Rec(handle_rst=0, comments=1, ctl_hex=0)])
            lines = list(P.lines)
        except NotLiteral as e:
            ctx.limit(name, 'not foldable: %s' % str(e)[:120])
            continue
        except (KeyError, IndexError, ValueError, TypeError, AttributeError, NameError) as e:
            key = type(e).__name__
            if key not in seen:
                seen.add(key)
                ctx.violation('sna2ctl -C ' + key, where, 'sna2ctl -C on bytes %s at %d (%s) fails with %s: %s - no control file is written' % (data, start, name, type(e).__name__, str(e)[:100]))
            continue
        addrs = [int(l.split()[0]) for l in lines if l.startswith('  ')]
        if addrs != sorted(set(addrs)) or any(a < start or a >= end for a in addrs):
            ctx.violation('sna2ctl -C comment lines', where, 'sna2ctl -C on bytes %s at %d (%s): comment lines at %s are not strictly increasing inside %d..%d' % (data, start, name, addrs, start, end))
        else:
            ctx.ok({'image': name, 'lines': len(lines)})
