"""C09 round-trip rules decided by folding skoolkit's own writer and reader code (compile-time evaluation by the checker's
evaluator, sa/core/classfold.py) on model machine states, and decoding the written bytes with the independent reference
decoders of sa/rules/snapref.py.

C09.9-roundtrip   write_snapshot(...) -> bytes -> (a) reference decoder == state asked for, (b) Snapshot.get(bytes) attributes and
                  ram() == state asked for; Z80 and SZX, 48K / 128K / +2.
C09.10-rle        Z80._make_z80_ram_block / _decompress over every string of {ED,00,01} up to length 6 (quick) / 9 (thorough),
                  both block forms, against the reference RLE decoder and against the repository's own decoder.
C09.11-codecs     every value of the small state domains (border, im, iff, R, AY registers, T-state frame positions) through the
                  folded writer -> reader, all machines and both formats.
C09.12-edits      poke / move / patch specs (ranges, steps, ^ and +, page prefixes) folded on 48K and 128K memories against the
                  reference semantics."""
import ast, random, zlib, itertools
from sa.core import pyfacts
from sa.core.pyfacts import NotLiteral, FactError, Lit
from sa.core.classfold import ClassFolder, Inst, ClassRef
from sa.rules import snapref

WHERE = 'skoolkit/snapshot.py'
REG16 = ('bc', 'de', 'hl', 'ix', 'iy', 'sp', 'pc', '^bc', '^de', '^hl')
REG8 = ('a', 'f', 'i', 'r', '^a', '^f')
ATTR = {'a': 'a', 'f': 'f', 'bc': 'bc', 'de': 'de', 'hl': 'hl', 'sp': 'sp', 'i': 'i', 'r': 'r', 'ix': 'ix', 'iy': 'iy', 'pc': 'pc',
        '^a': 'a2', '^f': 'f2', '^bc': 'bc2', '^de': 'de2', '^hl': 'hl2', 'memptr': 'memptr'}

class SnapFolder:
    def __init__(self, repo):
        self.repo = repo
        self.memo = {}
        self.binfiles = {}
        self.cf = ClassFolder(repo, 'snapshot', self.hook)
        self.cf.files = {}
        self.pure = {}

    def _is_pure(self, cls, name):
        key = (cls, name)
        if key not in self.pure:
            c, m = self.cf.find_method(cls, name)
            self.pure[key] = m is not None and not any(isinstance(x, ast.Name) and x.id == 'self' for x in ast.walk(m))
        return self.pure[key]

    def hook(self, n, lit):
        if isinstance(n, ast.Call):
            fn = n.func
            if isinstance(fn, ast.Attribute) and isinstance(fn.value, ast.Name) and fn.value.id == 'zlib' and 'zlib' not in lit.env and fn.attr in ('compress', 'decompress'):
                args = [lit.ev(a) for a in n.args]
                return getattr(zlib, fn.attr)(*args)          # standard-library primitive on literal arguments
            if isinstance(fn, ast.Name) and fn.id == 'read_bin_file' and fn.id not in lit.env:
                args = [lit.ev(a) for a in n.args]
                name = args[0]
                if name in self.cf.files:
                    data = bytes(self.cf.files[name])
                elif name in self.binfiles:
                    data = bytes(self.binfiles[name])
                else:
                    raise NotLiteral('read_bin_file(%r)' % (name,))
                return data[:args[1]] if len(args) > 1 else data
            # memoise methods that provably do not touch `self` (the two RLE routines): same arguments, same result
            if isinstance(fn, ast.Attribute) and isinstance(fn.value, ast.Name) and fn.value.id == 'self' and 'self' in lit.env \
               and isinstance(lit.env['self'], Inst) and not n.keywords:
                inst = lit.env['self']
                if inst._mod == 'snapshot' and self._is_pure(inst._cls, fn.attr):
                    args = [lit.ev(a) for a in n.args]
                    try:
                        key = (fn.attr, tuple(bytes(a) if isinstance(a, (list, bytes, bytearray, tuple)) else a for a in args))
                    except (ValueError, TypeError):
                        return None
                    if key not in self.memo:
                        c, m = self.cf.find_method(inst._cls, fn.attr)
                        self.memo[key] = self.cf.call_method(inst, c, m, args, {})
                    r = self.memo[key]
                    return list(r) if isinstance(r, list) else r
        return None
    hook.wants_lit = True

    def write(self, ext, ram, registers, state, machine):
        fname = 'out.' + ext
        self.cf.files.clear()
        self.cf.call_func('snapshot', 'write_snapshot', [fname, ram, list(registers), list(state), machine])
        if fname not in self.cf.files:
            raise FactError('skoolkit/snapshot.py: write_snapshot did not write %s' % fname)
        return bytes(self.cf.files[fname])

    def read(self, ext, data):
        c, m = self.cf.find_method('Snapshot', 'get')
        if m is None:
            raise FactError('skoolkit/snapshot.py: Snapshot.get not found')
        return self.cf._run(m, [a.arg for a in m.args.args], [ClassRef('snapshot', 'Snapshot'), data, ext], {}, 'Snapshot', None)

# ---------------------------------------------------------------------------------------------------------------- model inputs
def bank_patterns(rnd, kind):
    """16384 bytes built from the input families named in the property."""
    out = []
    def lit(n):
        return [rnd.choice((1, 2, 3, 0x80, 0xFE, 0xEC, 0xEE)) for _ in range(n)]
    if kind == 'ed-runs':
        n = 1
        while len(out) < 16384:
            out += [0xED] * n + lit(rnd.choice((1, 1, 2, 5)))
            n = n + 1 if n < 600 else 1
    elif kind == 'byte-runs':
        lens = [1, 2, 3, 4, 5, 6, 254, 255, 256, 257, 509, 510, 511, 512, 765, 766]
        v = rnd.randrange(256)
        while len(out) < 16384:
            out += [v] * rnd.choice(lens)
            if rnd.random() < 0.3:
                out += [0xED] * rnd.choice((1, 2))
            v = (v + rnd.choice((1, 3, 0xED - v))) % 256
    elif kind == 'ed-adjacent':
        while len(out) < 16384:
            v = rnd.choice((0, 1, 0xED, 0xFF))
            out += rnd.choice(([0xED], [0xED, 0xED], [])) + [v] * rnd.choice((1, 2, 4, 5, 6, 255, 256)) + rnd.choice(([0xED], [0xED, 0xED], [0xED, 0], []))
    elif kind == 'random':
        out = [rnd.randrange(256) for _ in range(16384)]
    elif kind == 'sparse':
        out = [0] * 16384
        for _ in range(40):
            out[rnd.randrange(16384)] = rnd.choice((0xED, 1, 0xFF))
        out[16383] = 0xED
        out[0] = 0xED
    elif kind == 'tail-ed':
        out = [7] * 16380 + [0xED] * 4
    else:
        raise ValueError(kind)
    return out[:16384]

KINDS = ('ed-runs', 'byte-runs', 'ed-adjacent', 'random', 'sparse', 'tail-ed')

def sample_state(rnd, machine, corner=None):
    frame = snapref.FRAME[machine]
    vals = {}
    used = set()
    def distinct(bits):
        while True:
            v = rnd.randrange(1, 1 << bits)
            parts = {v & 0xFF, v >> 8} if bits == 16 else {v}
            if not (parts & used) and len(parts) == (2 if bits == 16 else 1):
                used.update(parts)
                return v
    for k in REG16 + ('memptr',):
        vals[k] = distinct(16)
    for k in REG8:
        vals[k] = distinct(8)
    vals['border'] = rnd.randrange(8)
    vals['fe'] = rnd.randrange(256)
    vals['iff'] = rnd.randrange(2)
    vals['im'] = rnd.randrange(3)
    vals['tstates'] = rnd.randrange(frame)
    vals['7ffd'] = rnd.randrange(256)
    vals['fffd'] = rnd.randrange(16)
    vals['ay'] = tuple(rnd.randrange(256) for _ in range(16))
    if corner == 'max':
        for k in REG16 + ('memptr',): vals[k] = 0xFFFF
        for k in REG8: vals[k] = 0xFF
        vals.update(border=7, fe=255, iff=1, im=2, tstates=frame - 1, fffd=15, ay=(255,) * 16)
        vals['7ffd'] = 0x3F
    elif corner == 'zero':
        for k in REG16 + ('memptr',): vals[k] = 0
        for k in REG8: vals[k] = 0
        vals.update(border=0, fe=0, iff=0, im=0, tstates=0, fffd=0, ay=(0,) * 16)
        vals['7ffd'] = 0
    elif corner == 'r7':
        vals['r'] = 0x80 | (vals['r'] & 0x7F)
        vals['tstates'] = frame * 3 + frame // 4          # beyond one frame: only the position in the frame must survive
    return vals

def specs_of(vals, machine):
    """Register and state specs in the form simutils.get_state hands them to write_snapshot."""
    regs = ['%s=%d' % (k.upper(), vals[k]) for k in ('a', 'f', 'bc', 'de', 'hl', 'ix', 'iy', 'sp', 'i', 'r', '^a', '^f', '^bc', '^de', '^hl', 'pc', 'memptr')]
    state = ['border=%d' % vals['border'], 'fe=%d' % vals['fe'], 'iff=%d' % vals['iff'], 'im=%d' % vals['im'], 'tstates=%d' % vals['tstates']]
    if machine != '48K':
        state += ['ay[%d]=%d' % (n, v) for n, v in enumerate(vals['ay'])]
        state += ['7ffd=%d' % vals['7ffd'], 'fffd=%d' % vals['fffd']]
    return regs, state

def expected(vals, machine, ext):
    e = {ATTR[k]: vals[k] for k in REG16 + REG8}
    e['border'] = vals['border']
    e['iff1'] = e['iff2'] = vals['iff']
    e['im'] = vals['im']
    e['tstates'] = vals['tstates'] % snapref.FRAME[machine]
    e['machine'] = machine
    if machine != '48K':
        e['out7ffd'], e['outfffd'], e['ay'] = vals['7ffd'], vals['fffd'], tuple(vals['ay'])
    if ext == 'szx':
        e['memptr'] = vals['memptr']
        e['outfe'] = vals['fe']
    return e

REFNAME = {'a2': 'a2', 'f2': 'f2'}

def compare_state(exp, got, frame):
    """-> list of (field, expected, got)"""
    bad = []
    for k, v in exp.items():
        g = got.get(k, '<absent>')
        if k == 'tstates' and isinstance(g, int):
            g = g % frame
        if g != v:
            bad.append((k, v, g))
    return bad

def ram_of(machine, banks48, banks128):
    if machine == '48K':
        return banks48[0] + banks48[1] + banks48[2]
    return [list(b) for b in banks128]

def roundtrip_rule(ctx, repo):
    ctx.rule('C09.9-roundtrip', 'folded write_snapshot -> bytes: reference decoder (from the format specifications) and skoolkit\'s reader both return the state and RAM that were written (Z80 and SZX; 48K, 128K, +2)', floor=60)
    sf = SnapFolder(repo)
    rnd = random.Random(20260925 + ctx.seed)
    thorough = ctx.tier == 'thorough'
    n_ram = 3 if thorough else 1
    n_states = 8 if thorough else 3
    for ext in ('z80', 'szx'):
        for machine in ('48K', '128K', '+2'):
            frame = snapref.FRAME[machine]
            for rk in range(n_ram):
                if machine == '48K':
                    kinds = [KINDS[(3 * rk + j) % len(KINDS)] for j in range(3)]
                    banks = [bank_patterns(rnd, k) for k in kinds]
                    ram = banks[0] + banks[1] + banks[2]
                    want_banks = {5: banks[0], 2: banks[1], 0: banks[2]}
                else:
                    kinds = [KINDS[(rk + j) % len(KINDS)] for j in range(8)]
                    if machine == '+2' and not thorough:
                        banks = last128          # same RAM as the 128K run: the RLE work is shared through the memo
                    else:
                        banks = [bank_patterns(rnd, k) for k in kinds]
                    last128 = banks
                    ram = [list(b) for b in banks]
                    want_banks = {i: b for i, b in enumerate(banks)}
                for sk in range(n_states):
                    corner = {0: None, 1: 'max', 2: 'r7', 3: 'zero'}.get(sk)
                    vals = sample_state(rnd, machine, corner)
                    regs, state = specs_of(vals, machine)
                    name = '%s %s' % (ext, machine)
                    try:
                        data = sf.write(ext, ram, regs, state, machine)
                    except NotLiteral as e:
                        ctx.limit('%s write' % name, 'write_snapshot not foldable: %s' % e)
                        continue
                    except (KeyError, IndexError, ValueError, TypeError) as e:
                        ctx.violation('%s write' % name, WHERE, 'write_snapshot(%s, %s) fails with %s: %s on registers %s, state %s' % (ext, machine, type(e).__name__, e, regs, state))
                        continue
                    exp = expected(vals, machine, ext)
                    # (a) the reference decoder
                    try:
                        ref = snapref.decode_z80(data) if ext == 'z80' else snapref.decode_szx(data)
                    except (snapref.SpecError, IndexError, zlib.error) as e:
                        ctx.violation('%s file format' % name, WHERE, 'the %s file written for a %s machine does not decode under the format specification: %s' % (ext, machine, e))
                        ref = None
                    if ref is not None:
                        bad = compare_state(exp, ref, frame)
                        for k, v, g in bad[:6]:
                            ctx.violation('%s written %s' % (name, k), WHERE, '%s %s: %s was written as %r but a decoder following the format specification reads %r (registers %s, state %s)' % (ext, machine, k, v, g, regs, state),
                                          detail={'registers': regs, 'state': state})
                        if not bad:
                            ctx.ok({'format': ext, 'machine': machine, 'side': 'writer vs specification', 'fields': len(exp)})
                        wrong = [b for b in want_banks if ref['banks'].get(b) != want_banks[b]]
                        if wrong or set(ref['banks']) != set(want_banks):
                            b = wrong[0] if wrong else sorted(set(ref['banks']) ^ set(want_banks))[0]
                            ctx.violation('%s written RAM' % name, WHERE, '%s %s: RAM bank %d (pattern %s) decodes differently under the format specification (banks present %s)%s' %
                                          (ext, machine, b, kinds[b % len(kinds)], sorted(ref['banks']), _first_diff(want_banks.get(b), ref['banks'].get(b))))
                        else:
                            ctx.ok({'format': ext, 'machine': machine, 'side': 'RAM vs specification', 'patterns': kinds})
                    # (b) skoolkit's reader
                    try:
                        snap = sf.read(ext, data)
                    except NotLiteral as e:
                        ctx.limit('%s read' % name, 'Snapshot.get not foldable: %s' % e)
                        continue
                    except (KeyError, IndexError, ValueError, TypeError) as e:
                        ctx.violation('%s read' % name, WHERE, 'reading back the %s file written for %s fails with %s: %s' % (ext, machine, type(e).__name__, e))
                        continue
                    got = {k: v for k, v in vars(snap).items() if not k.startswith('_')}
                    if isinstance(got.get('ay'), list):
                        got['ay'] = tuple(got['ay'])
                    bad = compare_state(exp, got, frame)
                    for k, v, g in bad[:6]:
                        ctx.violation('%s read %s' % (name, k), WHERE, '%s %s: %s was written as %r and is read back as %r (registers %s, state %s)' % (ext, machine, k, v, g, regs, state),
                                      detail={'registers': regs, 'state': state})
                    if not bad:
                        ctx.ok({'format': ext, 'machine': machine, 'side': 'write -> read', 'fields': len(exp)})
                    try:
                        if machine == '48K':
                            r = sf.cf.call(snap, 'ram')
                            okram = list(r) == ram
                            diff = _first_diff(ram, list(r))
                        else:
                            r = sf.cf.call(snap, 'ram', -1)
                            flat = [x for b in banks for x in b]
                            okram = list(r) == flat
                            diff = _first_diff(flat, list(r))
                            if okram:
                                r2 = sf.cf.call(snap, 'ram')
                                want = banks[5] + banks[2] + banks[vals['7ffd'] % 8]
                                okram = list(r2) == want
                                diff = ' (64K view with bank %d paged in)' % (vals['7ffd'] % 8) + _first_diff(want, list(r2))
                    except NotLiteral as e:
                        ctx.limit('%s ram' % name, 'Snapshot.ram not foldable: %s' % e)
                        continue
                    if not okram:
                        ctx.violation('%s read RAM' % name, WHERE, '%s %s: RAM read back differs from the RAM written (patterns %s)%s' % (ext, machine, kinds, diff))
                    else:
                        ctx.ok({'format': ext, 'machine': machine, 'side': 'RAM write -> read'})
    return sf

def _first_diff(a, b):
    if a is None or b is None:
        return ' (bank missing)'
    if len(a) != len(b):
        return ' (length %d vs %d)' % (len(a), len(b))
    for i, (x, y) in enumerate(zip(a, b)):
        if x != y:
            lo = max(0, i - 4)
            return ' (first difference at offset %d: written %s, read %s)' % (i, list(a[lo:i + 4]), list(b[lo:i + 4]))
    return ''

def rle_rule(ctx, repo, sf):
    maxlen = 9 if ctx.tier == 'thorough' else 6
    ctx.rule('C09.10-rle', 'Z80 run-length coder/decoder folded over every string of {ED,00,01} up to length %d, both block forms: decoder(coder(x)) == x under the reference decoder and under Z80._decompress' % maxlen, floor=2000)
    cf = sf.cf
    z = Inst('snapshot', 'Z80', cf)          # the two routines do not touch self (checked), so a bare instance is enough
    for name in ('_make_z80_ram_block', '_decompress'):
        c, m = cf.find_method('Z80', name)
        if m is None:
            raise FactError('skoolkit/snapshot.py: Z80.%s not found' % name)
        if any(isinstance(x, ast.Attribute) and isinstance(x.value, ast.Name) and x.value.id == 'self' and not isinstance(getattr(x, 'ctx', None), ast.Load) for x in ast.walk(m)):
            raise FactError('skoolkit/snapshot.py: Z80.%s stores to self; the RLE rule folds it on a bare instance' % name)
    need_self = any(isinstance(x, ast.Name) and x.id == 'self' for n_ in ('_make_z80_ram_block', '_decompress') for x in ast.walk(cf.find_method('Z80', n_)[1]))
    if need_self:
        z = cf.new('Z80', None, [0] * 49152, '48K')
    n_ok = 0
    reported = 0
    for ln in range(0, maxlen + 1):
        for s in itertools.product((0xED, 0x00, 0x01), repeat=ln):
            x = list(s)
            for form in ('v1', 'v3'):
                try:
                    blk = cf.call(z, '_make_z80_ram_block', x) if form == 'v1' else cf.call(z, '_make_z80_ram_block', x, 5)
                    blk = bytes(blk)
                except NotLiteral as e:
                    ctx.limit('Z80 RLE', 'coder not foldable: %s' % e)
                    return
                if form == 'v1':
                    payload = blk[:-4]
                    marker_ok = blk[-4:] == b'\x00\xed\xed\x00'
                else:
                    payload = blk[3:]
                    marker_ok = len(blk) >= 3 and blk[0] + 256 * blk[1] == len(payload) and blk[2] == 5
                try:
                    ref = snapref.z80_rle_decode(payload, False) if marker_ok else 'block framing wrong'
                except snapref.SpecError as e:
                    ref = 'invalid: %s' % e
                try:
                    own = list(cf.call(z, '_decompress', list(payload)))
                except NotLiteral as e:
                    ctx.limit('Z80 RLE', 'decoder not foldable: %s' % e)
                    return
                except (KeyError, IndexError, ValueError, TypeError) as e:
                    own = '%s: %s' % (type(e).__name__, e)
                if not marker_ok or ref != x or own != x:
                    reported += 1
                    if reported <= 5:
                        hx = ' '.join('%02X' % b for b in x)
                        ctx.violation('Z80 RLE %s' % form, WHERE, 'RAM bytes [%s] are coded (%s block) as [%s]; the format\'s decoder gives %s, Z80._decompress gives %s' %
                                      (hx, form, ' '.join('%02X' % b for b in blk), _hx(ref), _hx(own)))
                else:
                    n_ok += 1
                    if n_ok % 200 == 1:
                        ctx.ok({'string': ' '.join('%02X' % b for b in x), 'form': form})
                    else:
                        ctx.ok()
    if reported > 5:
        ctx.note('C09.10-rle: %d further strings fail' % (reported - 5))

def _hx(v):
    if isinstance(v, (list, bytes, bytearray)):
        return '[' + ' '.join('%02X' % b for b in v) + ']'
    return str(v)

_ZERO_RAM = {}
def _zero_ram(machine):
    if machine not in _ZERO_RAM:
        _ZERO_RAM[machine] = [0] * 49152 if machine == '48K' else [[0] * 16384 for _ in range(8)]
    return _ZERO_RAM[machine]

HALVES = {'c': ('bc', 0), 'b': ('bc', 1), 'e': ('de', 0), 'd': ('de', 1), 'l': ('hl', 0), 'h': ('hl', 1),
          '^c': ('^bc', 0), '^b': ('^bc', 1), '^e': ('^de', 0), '^d': ('^de', 1), '^l': ('^hl', 0), '^h': ('^hl', 1)}

def domain_check(ctx, sf, ext, machine, key, dom):
    """Write `key=v` for every v in dom through the folded write_snapshot, read it back through the folded reader and the
    reference decoder; one obligation per (format, machine, key)."""
    frame = snapref.FRAME[machine]
    ram = _zero_ram(machine)
    bad = None
    n = 0
    for v in dom:
        # register and state names are matched whatever their case (both writers lower-case the name): every other value is written
        # with the name in upper case
        spec = '%s=%d' % (key.upper() if n % 2 else key, v)
        if key in HALVES:
            pair, hi = HALVES[key]
            regs, state = (['%s=%d' % (pair, 0x5AA5), spec], [])
        elif key in ATTR:
            regs, state = ([spec], [])
        else:
            regs, state = ([], [spec])
        try:
            data = sf.write(ext, ram, regs, state, machine)
            snap = sf.read(ext, data)
            ref = snapref.decode_z80(data) if ext == 'z80' else snapref.decode_szx(data)
        except NotLiteral as e:
            bad = ('limit', str(e))
            break
        except (snapref.SpecError, KeyError, IndexError, ValueError, TypeError, AttributeError) as e:
            bad = (v, '%s: %s' % (type(e).__name__, e), None)
            break
        n += 1
        if key.startswith('ay['):
            idx = int(key[3:-1])
            got, rgot, want = snap.ay[idx], ref['ay'][idx], v
        elif key == 'tstates':
            got, rgot, want = snap.tstates % frame, ref['tstates'] % frame, v % frame
        elif key == 'iff':
            got, rgot, want = (snap.iff1, snap.iff2), (ref['iff1'], ref['iff2']), (v, v)
        elif key in HALVES:
            pair, hi = HALVES[key]
            want = (v << 8 | 0xA5) if hi else (0x5A00 | v)
            got, rgot = getattr(snap, ATTR[pair]), ref[ATTR[pair]]
        else:
            attr = {'7ffd': 'out7ffd', 'fffd': 'outfffd', 'fe': 'outfe'}.get(key, ATTR.get(key, key))
            got, rgot, want = getattr(snap, attr), ref[attr], v
        if got != want or rgot != want:
            bad = (v, got, rgot)
            break
    name = '%s %s %s' % (ext, machine, key.split('[')[0])
    if bad and bad[0] == 'limit':
        ctx.limit(name, 'not foldable: %s' % bad[1])
    elif bad:
        ctx.violation(name, WHERE, '%s %s: %s=%s is read back as %s (reference decoder of the written file: %s)' % (ext, machine, key, bad[0], bad[1], bad[2]))
    else:
        ctx.ok({'format': ext, 'machine': machine, 'key': key, 'values': n})

def issue2_check(ctx, sf, ext):
    """issue2= has no attribute on the reader side, so the written bytes are read directly: Z80 header byte 29 bit 2, SZX KEYB block flags
    bit 0 (both from the format specifications); the name is matched whatever its case."""
    ram = _zero_ram('48K')
    for spec in ('issue2=1', 'ISSUE2=1', 'Issue2=0'):
        want = int(spec[-1])
        try:
            data = bytes(sf.write(ext, ram, [], [spec], '48K'))
        except NotLiteral as e:
            ctx.limit('%s issue2' % ext, 'not foldable: %s' % e)
            return
        except (KeyError, IndexError, ValueError, TypeError, AttributeError) as e:
            ctx.violation('%s 48K issue2' % ext, WHERE, '%s 48K: %s fails with %s: %s' % (ext, spec, type(e).__name__, e))
            return
        if ext == 'z80':
            got = (data[29] >> 2) & 1
        else:
            i = data.find(b'KEYB')
            got = data[i + 8] & 1 if i >= 0 else 0
        if got != want:
            ctx.violation('%s 48K issue2' % ext, WHERE, '%s 48K: %s is stored as %d (%s)' % (ext, spec, got, 'header byte 29 bit 2' if ext == 'z80' else 'KEYB block flags bit 0' + ('' if data.find(b'KEYB') >= 0 else ': no KEYB block written')))
            return
    ctx.ok({'format': ext, 'machine': '48K', 'key': 'issue2', 'values': 3})

def codecs_rule(ctx, repo, sf):
    ctx.rule('C09.11-codecs', 'every value of the small state domains (border, im, iff, R, 8-bit registers and register halves, AY registers, 0x7FFD, 0xFFFD, 0xFE) through the folded writer -> reader and the reference decoder; both formats, all machines', floor=150)
    rnd = random.Random(7 + ctx.seed)
    thorough = ctx.tier == 'thorough'
    for ext in ('z80', 'szx'):
        for machine in ('48K', '128K', '+2'):
            st = (lambda full, n: range(0, full)) if thorough else (lambda full, n: range(0, full, n))
            r_full = thorough or (ext, machine) in (('z80', '48K'), ('szx', '128K'), ('z80', '+2'))
            domains = [('border', range(8)), ('im', range(3)), ('iff', range(2)), ('r', range(256) if r_full else (0, 1, 0x7F, 0x80, 0xFF)), ('a', st(256, 51)), ('f', st(256, 51)),
                       ('i', st(256, 51)), ('^a', st(256, 85)), ('^f', st(256, 85))]
            domains += [(k, (0, 0xFF, rnd.randrange(1, 255))) for k in HALVES]
            if machine != '48K':
                domains += [('7ffd', st(256, 5)), ('fffd', st(256, 17))] + [('ay[%d]' % n, (0, 0xFF, rnd.randrange(256))) for n in range(16)]
            if ext == 'szx':
                domains += [('fe', st(256, 17))]
            for key, dom in domains:
                domain_check(ctx, sf, ext, machine, key, dom)
            if machine == '48K':
                issue2_check(ctx, sf, ext)

FORCED = {'move': ('3:50000,100,0:40000', '0:49152,50,7:16384', '5:65000,200,0:65300', '0:$C000,16,0:$C100'),
          'poke': ('0:49152-49160,^85', '7:$FFFF,+1', '0:16384,255')}

def edits_rule(ctx, repo, sf):
    ctx.rule('C09.12-edits', 'poke / move / patch specs folded on 48K and 128K memories == reference semantics (ranges, steps, ^ and +, page prefixes); only the named cells change', floor=9)
    rnd = random.Random(11 + ctx.seed)
    cf = sf.cf
    n_each = 60 if ctx.tier == 'thorough' else 14
    def mk128(page):
        banks = [[rnd.randrange(256) for _ in range(16384)] for _ in range(8)]
        mem = Inst('snapshot', 'Memory', cf)
        c, m = cf.find_method('Memory', '__init__')
        cf.call_method(mem, c, m, [], {'banks': [list(b) for b in banks], 'page': page})
        ref = snapref.RefMem([0] * 65536, {i: b for i, b in enumerate(banks)}, page)
        return mem, ref
    def mk48():
        data = [0] * 16384 + [rnd.randrange(256) for _ in range(49152)]
        return list(data), snapref.RefMem(data)
    def rint(v):
        return rnd.choice(('%d' % v, '$%X' % v, '0x%x' % v))
    def gen(kind, paged):
        if kind == 'poke':
            a = rnd.choice((rnd.randrange(16384, 65536), 16384, 65535, 49151, 49152, 32767, 32768))
            form = rnd.randrange(3)
            if form == 0:
                addr = rint(a)
            elif form == 1:
                addr = '%s-%s' % (rint(a), rint(min(65535, a + rnd.randrange(0, 40))))
            else:
                addr = '%s-%s-%s' % (rint(a), rint(min(65535, a + rnd.randrange(0, 90))), rint(rnd.randrange(1, 7)))
            op = rnd.choice(('', '^', '+'))
            spec = '%s,%s%s' % (addr, op, rint(rnd.randrange(256)))
        elif kind == 'move':
            ln = rnd.randrange(1, 300)
            src = rnd.randrange(16384, 65536 - ln)
            dst = rnd.choice((rnd.randrange(16384, 65536 - ln), src + rnd.randrange(1, 20) if src + ln + 20 < 65536 else src, max(16384, src - rnd.randrange(1, 20))))
            spec = '%s,%s,%s' % (rint(src), rint(ln), rint(dst))
            if paged and rnd.random() < 0.3:
                # a paged move whose source or destination range runs past the end of its bank
                src = rnd.choice((0xFFF0, 0xBFFA, src))
                dst = rnd.choice((0x7FF8, 0xFFFC, dst))
                spec = '%s,%s,%s' % (rint(src), rint(rnd.randrange(10, 40)), rint(dst))
            if paged and rnd.random() < 0.5:
                spec = '%s,%s,%d:%s' % (spec.split(',')[0], spec.split(',')[1], rnd.randrange(8), spec.split(',')[2])
        else:
            a = rnd.randrange(16384, 65536 - 600)
            spec = '%s,patch.bin' % rint(a)
        if paged:
            spec = '%d:%s' % (rnd.randrange(8), spec)
        return spec
    patch_data = bytes(rnd.randrange(256) for _ in range(513))
    sf.binfiles['patch.bin'] = patch_data
    for kind in ('poke', 'move', 'patch'):
        for model in ('48K list', '128K Memory', '128K Memory paged spec'):
            bad = None
            done = 0
            for k in range(n_each):
                paged = model.endswith('paged spec')
                spec = gen(kind, paged)
                if paged and k < len(FORCED.get(kind, ())):
                    spec = FORCED[kind][k]          # the boundary banks, named explicitly (bank 0 is not "no bank")
                if model == '48K list':
                    mem, ref = mk48()
                else:
                    mem, ref = mk128(rnd.randrange(8))
                try:
                    cf.call_func('snapshot', kind, [mem, spec])
                except NotLiteral as e:
                    bad = ('limit', str(e))
                    break
                except (KeyError, IndexError, ValueError, TypeError) as e:
                    bad = (spec, '%s: %s' % (type(e).__name__, e))
                    break
                if kind == 'poke': snapref.ref_poke(ref, spec)
                elif kind == 'move': snapref.ref_move(ref, spec)
                else: snapref.ref_patch(ref, spec, patch_data)
                done += 1
                if model == '48K list':
                    if mem[16384:] != ref.mem[16384:]:
                        i = next(i for i in range(16384, 65536) if mem[i] != ref.mem[i])
                        bad = (spec, 'address %d holds %d, expected %d' % (i, mem[i], ref.mem[i]))
                        break
                else:
                    for b in range(8):
                        if len(mem.banks[b]) != 16384:
                            bad = (spec, 'bank %d is %d bytes long after the edit (a RAM bank is 16384 bytes)' % (b, len(mem.banks[b])))
                            break
                        if list(mem.banks[b]) != ref.banks[b]:
                            i = next(i for i in range(16384) if mem.banks[b][i] != ref.banks[b][i])
                            bad = (spec, 'bank %d offset %d holds %d, expected %d (bank %d is paged in at 0xC000)' % (b, i, mem.banks[b][i], ref.banks[b][i], ref.page))
                            break
                    if bad:
                        break
            name = '%s on %s' % (kind, model)
            if bad and bad[0] == 'limit':
                ctx.limit(name, 'not foldable: %s' % bad[1])
            elif bad:
                ctx.violation(name, WHERE, '--%s %s on a %s: %s' % (kind, bad[0], model, bad[1]))
            else:
                ctx.ok({'edit': kind, 'memory': model, 'specs': done})
