"""C18 - annotations survive conversion, line width.  Structural clauses (annotation channels into the three writers and the HTML
templates, wrapper flags, provenance of every wrap width) from the syntax trees; word preservation only as a labelled fold (C18pipe)."""
import ast, re
from sa.core import pyfacts, report
from sa.rules import channels, C18pipe
from sa.rules.C16 import parse_template

# annotation attributes of the skool file parser's objects (anchors: the run fails closed if one disappears)
ANNOTATIONS = {
    'SkoolEntry': ('description', 'details', 'registers', 'end_comment', 'headers', 'footers', 'instructions'),
    'Instruction': ('mid_block_comment', 'comment', 'operation'),
}

def _methods(cls):
    return {f.name: f for f in cls.body if isinstance(f, ast.FunctionDef)}

# --------------------------------------------------------------------------------------------------------------- C18.1 channels
def channel_rule(ctx, repo):
    ctx.rule('C18.1-channels', 'every annotation attribute of a parsed entry / instruction is read by AsmWriter and by HtmlWriter; every dictionary key HtmlWriter fills from one is emitted by both entry templates', floor=34)
    if not channels.selfcheck():
        raise report.AnalysisError('channel lint: the built-in positive example is not reported')
    pm = repo.mod('skoolparser')
    names = []
    for cname, attrs in ANNOTATIONS.items():
        if cname not in pm.classes:
            raise report.AnalysisError('skoolparser.%s not found' % cname)
        have = channels.class_attrs(pm.classes[cname])
        for a in attrs:
            if a not in have:
                raise report.AnalysisError('skoolparser.%s no longer stores `%s` (anchor of the channel rule)' % (cname, a))
            names.append((cname, a, have[a]))
    for modname, clsname in (('skoolasm', 'AsmWriter'), ('skoolhtml', 'HtmlWriter')):
        m = repo.mod(modname)
        if clsname not in m.classes:
            raise report.AnalysisError('%s.%s not found' % (modname, clsname))
        scope = channels.Scope([m.classes[clsname]])
        for cname, a, line in names:
            if clsname == 'HtmlWriter' and a in ('headers', 'footers'):
                continue         # non-entry blocks are not part of an HTML disassembly
            if scope.consumed(a):
                ctx.ok({'channel': '%s.%s -> %s' % (cname, a, clsname)})
            else:
                ctx.violation('channel %s.%s -> %s' % (cname, a, clsname), m.relpath, '%s never reads %s.%s: that annotation cannot reach its output' % (clsname, cname, a))
    # HTML: keys filled from annotation attributes -> templates
    hm = repo.mod('skoolhtml')
    meths = _methods(hm.classes['HtmlWriter'])
    attrs = {a for _, a, _ in names} | {'contents', 'name', 'addr_str', 'title'}
    keys = {}
    for fname in ('_get_asm_entry', '_get_entry_dict', 'format_registers'):
        if fname not in meths:
            raise report.AnalysisError('HtmlWriter.%s not found' % fname)
        f = meths[fname]
        local = {}
        for n in ast.walk(f):
            if isinstance(n, ast.Assign):
                for t in n.targets:
                    for x, v in (zip(t.elts, n.value.elts) if isinstance(t, ast.Tuple) and isinstance(n.value, ast.Tuple) and len(t.elts) == len(n.value.elts) else [(t, n.value)]):
                        if isinstance(x, ast.Name):
                            local.setdefault(x.id, []).append(v)
            elif isinstance(n, ast.Call) and isinstance(n.func, ast.Attribute) and n.func.attr in ('append', 'extend', 'insert') and isinstance(n.func.value, ast.Name) and n.args:
                local.setdefault(n.func.value.id, []).append(n.args[-1])          # an accumulator filled element by element
            elif isinstance(n, ast.AugAssign) and isinstance(n.target, ast.Name):
                local.setdefault(n.target.id, []).append(n.value)
            elif isinstance(n, ast.For) and isinstance(n.target, ast.Name) and not (isinstance(n.iter, ast.Attribute) and n.iter.attr == 'instructions'):
                local.setdefault(n.target.id, []).append(n.iter)          # the loop variable carries the paragraphs it iterates (not: the instruction objects)
        def reads(e, depth=0):
            # annotation text reaching the expression; counts, flags (`int(any(...))`) and row spans carry no text
            out = set()
            if isinstance(e, ast.Call) and isinstance(e.func, ast.Name) and e.func.id in ('int', 'len', 'bool', 'any', 'all'):
                return out
            if isinstance(e, ast.Attribute) and e.attr == 'rowspan':
                return out
            if isinstance(e, ast.Attribute) and e.attr in attrs and isinstance(e.ctx, ast.Load):
                out.add(e.attr)
            elif isinstance(e, ast.Name) and e.id in local and depth < 3:
                for v in local[e.id]:
                    out |= reads(v, depth + 1)
            for c in ast.iter_child_nodes(e):
                out |= reads(c, depth)
            return out
        for n in ast.walk(f):
            pairs = []
            if isinstance(n, ast.Dict):
                pairs = [(k.value, v, k.lineno) for k, v in zip(n.keys, n.values) if isinstance(k, ast.Constant) and isinstance(k.value, str)]
            elif isinstance(n, ast.Assign):
                pairs = [(t.slice.value, n.value, t.lineno) for t in n.targets if isinstance(t, ast.Subscript) and isinstance(t.slice, ast.Constant) and isinstance(t.slice.value, str)]
            for k, v, line in pairs:
                r = reads(v)
                if r:
                    keys.setdefault(k, (sorted(r), fname, line))
    wanted = keys
    if len(wanted) < 8:
        raise report.AnalysisError('HtmlWriter: only %d dictionary keys filled from annotation attributes found (%s)' % (len(wanted), sorted(wanted)))
    dm = repo.mod('defaults')
    templates = {}
    for n in ast.walk(dm.tree):
        if isinstance(n, ast.Assign) and isinstance(n.targets[0], ast.Subscript) and isinstance(n.targets[0].slice, ast.Constant) and isinstance(n.value, ast.Constant) \
           and str(n.targets[0].slice.value) in ('Template:asm', 'Template:asm_single_page'):
            templates[n.targets[0].slice.value] = (n.value.value, n.lineno)
    if len(templates) != 2:
        raise report.AnalysisError('defaults.py: entry templates found: %s' % sorted(templates))
    for tname, (text, line0) in sorted(templates.items()):
        emitted = emitted_keys(parse_template(text))
        for k, (src, fname, line) in sorted(wanted.items()):
            if k in ('instructions', 'input_registers', 'output_registers'):
                ok = k in emitted['loops']
            else:
                ok = k in emitted['fields']
            if ok:
                ctx.ok({'template': tname, 'key': k})
            else:
                ctx.violation('%s key %s' % (tname, k), 'skoolkit/defaults.py:%d' % line0, 'HtmlWriter.%s fills %r from %s (skoolhtml.py:%d) but %s never emits it' % (fname, k, src, line, tname))

FIELD = re.compile(r'\{(\$?\w+)\[(\w+)\][^}]*\}')
BARE = re.compile(r'\{(\$\w+)\}')

def emitted_keys(tree):
    """keys written into the page: `{x[key]}` in text, `foreach($v, x[key])` whose body emits `{$v}` or `{$v[...]}`"""
    fields, loops = set(), set()
    def walk(nodes):
        for n in nodes:
            if n[0] == 'text':
                for m in FIELD.finditer(n[1]):
                    if not re.search(r'(id|href|class|rowspan|colspan)="[^"]*$', n[1][:m.start()]):
                        fields.add(m.group(2))
            elif n[0] == 'foreach':
                var, coll, body = n[1], n[2], n[3]
                m = re.match(r'\$?\w+\[(\w+)\]', coll)
                text = '\n'.join(_all_text(body))
                if m and (var in [b for b in BARE.findall(text)] or re.search(r'\{' + re.escape(var) + r'\[', text)):
                    loops.add(m.group(1))
                    if var in BARE.findall(text):
                        fields.add(m.group(1))
                walk(body)
            elif n[0] == 'if':
                for c, b in n[1]:
                    walk(b)
    walk(tree)
    return {'fields': fields, 'loops': loops}

def _all_text(nodes):
    for n in nodes:
        if n[0] == 'text':
            yield n[1]
        elif n[0] == 'if':
            for c, b in n[1]:
                yield from _all_text(b)
        elif n[0] == 'foreach':
            yield from _all_text(n[3])

# ------------------------------------------------------------------------------------------------------------ C18.2 wrapping
class Provenance:
    """Does a width expression derive from the configured line width?  Names are followed through their assignments in the function,
    parameters through the call sites inside the class, self attributes through their assignments in the class, self-method calls
    through the returned expressions."""
    def __init__(self, cls, root='line_width'):
        self.cls, self.root = cls, root
        self.meths = _methods(cls)
        self.attr_defs = {}
        for f in self.meths.values():
            for n in ast.walk(f):
                if isinstance(n, ast.Assign):
                    for t in n.targets:
                        if isinstance(t, ast.Attribute) and isinstance(t.value, ast.Name) and t.value.id == 'self':
                            self.attr_defs.setdefault(t.attr, []).append((f, n.value))

    def derives(self, e, f, depth=0, seen=None):
        seen = seen if seen is not None else set()
        if depth > 8:
            return False
        for x in ast.walk(e):
            if isinstance(x, ast.Attribute) and x.attr == self.root:
                return True
            if isinstance(x, ast.Name) and x.id == self.root:
                return True
        for x in ast.walk(e):
            if isinstance(x, ast.Attribute) and isinstance(x.value, ast.Name) and x.value.id == 'self' and isinstance(x.ctx, ast.Load):
                key = ('attr', x.attr)
                if key in seen:
                    continue
                seen.add(key)
                for g, v in self.attr_defs.get(x.attr, ()):
                    if self.derives(v, g, depth + 1, seen):
                        return True
            elif isinstance(x, ast.Call) and isinstance(x.func, ast.Attribute) and isinstance(x.func.value, ast.Name) and x.func.value.id == 'self' and x.func.attr in self.meths:
                g = self.meths[x.func.attr]
                key = ('ret', g.name)
                if key in seen:
                    continue
                seen.add(key)
                for r in ast.walk(g):
                    if isinstance(r, ast.Return) and r.value is not None and self.derives(r.value, g, depth + 1, seen):
                        return True
            elif isinstance(x, ast.Name) and isinstance(x.ctx, ast.Load):
                params = [a.arg for a in f.args.args]
                key = ('name', f.name, x.id)
                if key in seen:
                    continue
                seen.add(key)
                for n in ast.walk(f):
                    if isinstance(n, ast.Assign) and any(isinstance(t, ast.Name) and t.id == x.id for t in n.targets):
                        if self.derives(n.value, f, depth + 1, seen):
                            return True
                if x.id in params:
                    i = params.index(x.id)
                    for g in self.meths.values():
                        for c in ast.walk(g):
                            if isinstance(c, ast.Call) and isinstance(c.func, ast.Attribute) and isinstance(c.func.value, ast.Name) and c.func.value.id == 'self' and c.func.attr == f.name:
                                arg = c.args[i - 1] if i - 1 < len(c.args) else next((k.value for k in c.keywords if k.arg == x.id), None)
                                if arg is not None and self.derives(arg, g, depth + 1, seen):
                                    return True
        return False

def wrap_rule(ctx, repo):
    ctx.rule('C18.2-wrapping', 'the shared TextWrapper never breaks words or at hyphens and is given the width before it wraps; any other textwrap use in the writers carries the same flags; every wrap / format width in AsmWriter, TableWriter and SkoolWriter derives from the configured line width', floor=14)
    im = repo.mod('__init__')
    node = (im.assigns.get('WRAPPER') or [None])[-1]
    if not (isinstance(node, ast.Call) and ast.unparse(node.func) == 'textwrap.TextWrapper'):
        raise report.AnalysisError('skoolkit/__init__.py: WRAPPER = textwrap.TextWrapper(...) not found')
    kw = {k.arg: k.value for k in node.keywords}
    for flag in ('break_long_words', 'break_on_hyphens'):
        v = kw.get(flag)
        if isinstance(v, ast.Constant) and v.value is False:
            ctx.ok({'flag': flag})
        else:
            ctx.violation('wrapper flag %s' % flag, 'skoolkit/__init__.py:%d' % node.lineno, 'the shared TextWrapper is created with %s=%s: wrapping can then change more than white space (the default is True)' % (flag, ast.unparse(v) if v is not None else 'default'))
    f = im.funcs.get('wrap')
    if f is None:
        raise report.AnalysisError('skoolkit.wrap not found')
    params = [a.arg for a in f.args.args]
    alias = {'WRAPPER'} | {t.id for n in ast.walk(f) if isinstance(n, ast.Assign) and isinstance(n.value, ast.Name) and n.value.id == 'WRAPPER' for t in n.targets if isinstance(t, ast.Name)}
    store = next((n for n in ast.walk(f) if isinstance(n, ast.Assign) and isinstance(n.targets[0], ast.Attribute) and n.targets[0].attr == 'width' and ast.unparse(n.targets[0].value) in alias), None)
    call = next((n for n in ast.walk(f) if isinstance(n, ast.Call) and isinstance(n.func, ast.Attribute) and n.func.attr == 'wrap' and ast.unparse(n.func.value) in alias), None)
    if store is not None and call is not None and store.lineno < call.lineno and isinstance(store.value, ast.Name) and store.value.id in params and params.index(store.value.id) == 1:
        ctx.ok({'wrap': 'width stored before wrapping'})
    else:
        ctx.violation('wrap width', 'skoolkit/__init__.py:%d' % f.lineno, 'wrap(text, width) does not store its width argument in WRAPPER.width before calling WRAPPER.wrap')
    # any other use of textwrap in the writers must carry the same flags
    for modname in ('skoolasm', 'snaskool', 'skoolhtml', 'skoolutils', 'skoolparser'):
        m = repo.mod(modname)
        bad = None
        for n in ast.walk(m.tree):
            if isinstance(n, ast.Call) and isinstance(n.func, ast.Attribute) and isinstance(n.func.value, ast.Name) and n.func.value.id == 'textwrap' and n.func.attr in ('TextWrapper', 'wrap', 'fill'):
                kws = {k.arg: k.value for k in n.keywords}
                if not all(isinstance(kws.get(fl), ast.Constant) and kws[fl].value is False for fl in ('break_long_words', 'break_on_hyphens')):
                    bad = n
        if bad is not None:
            ctx.violation('textwrap in %s' % modname, '%s:%d' % (m.relpath, bad.lineno), '%s wraps text with `%s`, which may break words or at hyphens (skoolkit.wrap carries break_long_words=False, break_on_hyphens=False)' % (modname, ast.unparse(bad)[:80]))
        else:
            ctx.ok()
    # width provenance
    sites = 0
    for modname, clsname, funcs in (('skoolasm', 'AsmWriter', ('wrap', 'format')), ('skoolasm', 'TableWriter', ('wrap',)), ('snaskool', 'SkoolWriter', ('wrap', '_format_instruction_comments'))):
        m = repo.mod(modname)
        if clsname not in m.classes:
            raise report.AnalysisError('%s.%s not found' % (modname, clsname))
        root = 'max_width' if clsname == 'TableWriter' else 'line_width'
        pv = Provenance(m.classes[clsname], root)
        for f in pv.meths.values():
            for n in ast.walk(f):
                if not isinstance(n, ast.Call):
                    continue
                if isinstance(n.func, ast.Name) and n.func.id == 'wrap' and 'wrap' in funcs and len(n.args) == 2:
                    w = n.args[1]
                elif isinstance(n.func, ast.Attribute) and isinstance(n.func.value, ast.Name) and n.func.value.id == 'self' and n.func.attr in funcs and n.func.attr != 'wrap' and len(n.args) >= 2:
                    w = n.args[1]
                else:
                    continue
                sites += 1
                construct = 'width of %s in %s.%s' % (ast.unparse(n.func), clsname, f.name)
                if pv.derives(w, f):
                    ctx.ok({'site': '%s:%d' % (m.relpath, n.lineno), 'width': ast.unparse(w)})
                else:
                    ctx.violation(construct, '%s:%d' % (m.relpath, n.lineno), 'the width `%s` passed to %s does not derive from the configured %s' % (ast.unparse(w), ast.unparse(n.func), root))
    if sites < 8:
        raise report.AnalysisError('only %d wrap / format call sites found in the writers' % sites)
    # TableWriter gets its max_width from AsmWriter's desc_width
    am = repo.mod('skoolasm')
    pv = Provenance(am.classes['AsmWriter'])
    ok = False
    for f in pv.meths.values():
        for n in ast.walk(f):
            if isinstance(n, ast.Call) and isinstance(n.func, ast.Name) and n.func.id == 'TableWriter' and len(n.args) >= 2:
                ok = pv.derives(n.args[1], f)
                if not ok:
                    ctx.violation('width of TableWriter', 'skoolkit/skoolasm.py:%d' % n.lineno, 'the maximum table width `%s` does not derive from the configured line width' % ast.unparse(n.args[1]))
    if ok:
        ctx.ok({'site': 'TableWriter(...)'})

def run(ctx):
    repo = pyfacts.Repo(ctx.repo_root)
    channel_rule(ctx, repo)
    wrap_rule(ctx, repo)
    C18pipe.run(ctx, repo)
    C18pipe.blocks_rule(ctx, repo)
    return report.finish(ctx, 'Decides structural necessary conditions: every annotation attribute of the parsed skool file is read by AsmWriter and HtmlWriter and the keys HtmlWriter fills from them are emitted by both entry templates; '
                         'the one TextWrapper never breaks words, is the only wrapper in the writers and every width handed to it derives from the configured line width. '
                         'Word-for-word preservation and line lengths are attempted only by C18.3, a *fold* (concrete evaluation of sna2skool and skool2asm by the checker\'s interpreter on generated annotated inputs, sampled). '
                         'C18.4 (also a *fold*) does the same for #TABLE / #LIST blocks in descriptions: sna2skool keeps their words (plain, <nowrap>, <wrapalign>), skool2asm renders a rectangular table whose columns hold the words of the cells and which fits the width when a column is wrappable. Not decided: the HTML page text, row spans and transparent cells, tab / CRLF / indentation settings, all inputs and widths.')
