"""C15 - PNG output (encoder structure)."""
import ast, copy, re, zlib, collections
from sa.core import pyfacts, report
from sa.core.pyfacts import Lit, NotLiteral, FactError, ObjFolder

EXPLANATION = (
    "Decides structural clauses of the PNG writer: (1) each hand-unrolled per-tile encoder (_scan_udg_*) treats its eight pixel rows by the "
    "same expression with only the row index substituted (after copy propagation), so a wrong nibble, mask or row in one unrolled line is "
    "reported; (2) the dispatch table registers an encoder that never reads the crop fields only for uncropped images, an encoder that never "
    "consults the mask only for unmasked images (bit depths 1, 2, 4), and the generic encoder everywhere else; (3) the CRC table built by "
    "_create_crc_table is the CRC-32 table (all 256 entries) and _get_crc folds to zlib.crc32 on test vectors; the constant acTL, IEND and fdAT "
    "prefixes carry the right length words and CRCs; _write_chunk/_write_img_data_chunk write length = data - 4 (type excluded), then the data, "
    "then the CRC of exactly the data written; write_image honours every explicit frame alpha 0..255 (folded); (4) each mask type's 4-entry colour table (2-bit encoder) equals its per-pixel apply() rule (generic encoder) for all graphic/mask bit pairs; (5) the flash sub-frame slices tile rows by vertical and columns by horizontal quantities. Not decided: pixel values, palette "
    "choice, crop arithmetic, flash rectangles, zlib streams - numerical results over unbounded inputs.")

class Sub(ast.NodeTransformer):
    def __init__(self, env):
        self.env = env
    def visit_Name(self, n):
        if isinstance(n.ctx, ast.Load) and n.id in self.env:
            return copy.deepcopy(self.env[n.id])
        return n

def row_effects(f):
    env = {}
    out = []
    def run(body, conds):
        for st in body:
            if isinstance(st, ast.Assign) and len(st.targets) == 1 and isinstance(st.targets[0], ast.Name):
                env[st.targets[0].id] = Sub(env).visit(copy.deepcopy(st.value))
            elif isinstance(st, ast.Assign) and isinstance(st.targets[0], ast.Tuple):
                for tg in st.targets[0].elts:
                    if isinstance(tg, ast.Name):
                        env.pop(tg.id, None)
            elif isinstance(st, ast.Expr) and isinstance(st.value, ast.Call):
                c = Sub(env).visit(copy.deepcopy(st.value))
                out.append((tuple(conds), ast.unparse(c), st.lineno))
            elif isinstance(st, ast.If):
                t = ast.unparse(Sub(env).visit(copy.deepcopy(st.test)))
                run(st.body, conds + [t])
                run(st.orelse, conds + ['not ' + t])
    run(f.body, [])
    return out

def unroll_rule(ctx, repo, mod):
    ctx.rule('C15.1-unroll', 'unrolled tile encoders: the eight row groups are one expression with the row index substituted', floor=5)
    meths = mod.methods('PngWriter')
    names = sorted(n for n in meths if n.startswith('_scan_udg'))
    if len(names) < 5:
        raise FactError('skoolkit/pngwriter.py: expected 5 _scan_udg_* encoders, found %d' % len(names))
    for name in names:
        eff = row_effects(meths[name])
        groups = collections.defaultdict(list)
        for conds, e, line in eff:
            mm = re.match(r'scanlines\[(\d)\]\.extend\((.*)\)$', e)
            if not mm:
                continue
            groups[int(mm.group(1))].append((conds, mm.group(2), line))
        if sorted(groups) != list(range(8)):
            ctx.violation(name, 'skoolkit/pngwriter.py:%d' % meths[name].lineno, '%s writes rows %s, expected rows 0..7' % (name, sorted(groups)))
            continue
        # per row: the sequence of (shape, integer constants) over its statements
        def shape(src):
            tree = ast.parse(src, mode='eval')
            consts = []
            class T(ast.NodeTransformer):
                def visit_Constant(self, n):
                    if isinstance(n.value, int) and not isinstance(n.value, bool):
                        consts.append(n.value)
                        return ast.copy_location(ast.Name(id='_K', ctx=ast.Load()), n)
                    return n
            t2 = T().visit(tree)
            return ast.dump(t2), consts
        rows = {}
        for k in range(8):
            items = []
            for conds, body, line in groups[k]:
                sh, cs = shape('(%s, %s)' % (body, ', '.join('(%s)' % c.replace('not ', 'not ') for c in conds) or '0'))
                items.append((sh, cs, line))
            rows[k] = items
        bad = None
        if any(len(rows[k]) != len(rows[0]) for k in range(8)):
            k = next(k for k in range(8) if len(rows[k]) != len(rows[0]))
            bad = (k, groups[k][0][2], '%d statements' % len(rows[k]), '%d statements' % len(rows[0]))
        else:
            for i in range(len(rows[0])):
                shapes = {rows[k][i][0] for k in range(8)}
                if len(shapes) != 1:
                    k = next(k for k in range(1, 8) if rows[k][i][0] != rows[0][i][0])
                    bad = (k, rows[k][i][2], groups[k][i][1], groups[0][i][1])
                    break
                n = len(rows[0][i][1])
                rowpos = {j for j in range(n) if any(rows[k][i][1][j] != rows[0][i][1][j] for k in range(8))}
                for k in range(8):
                    for j in range(n):
                        c = rows[k][i][1][j]
                        if (j in rowpos and c != k) or (j not in rowpos and c != rows[0][i][1][j]):
                            bad = (k, rows[k][i][2], groups[k][i][1], groups[0][i][1] + '  (row 0)')
                            break
                    if bad: break
                if bad: break
        if bad:
            ctx.violation('%s row %d' % (name, bad[0]), 'skoolkit/pngwriter.py:%d' % bad[1], 'row %d of %s is `%s`; the other rows follow `%s` with the row index substituted' % (bad[0], name, bad[2], bad[3]))
        else:
            ctx.ok({'encoder': name, 'rows': 8, 'statements per row': len(rows[0])})

def dispatch_rule(ctx, repo, mod):
    ctx.rule('C15.2-dispatch', 'png_method_dict: crop-blind encoders only for full-size images, mask-blind encoders only for unmasked images (bit depths 1,2,4)', floor=16)
    meths = mod.methods('PngWriter')
    fn = meths['_create_png_method_dict']
    caps = {}
    for name, f in meths.items():
        if name.startswith('_build_image_data_bd'):
            attrs = {n.attr for n in ast.walk(f) if isinstance(n, ast.Attribute) and isinstance(n.value, ast.Name) and n.value.id == 'frame'}
            reads_crop = bool(attrs & {'x', 'y'})
            uses_mask = any(isinstance(n, ast.Name) and n.id == 'mask' and isinstance(n.ctx, ast.Load) for n in ast.walk(f))
            caps[name] = (reads_crop, uses_mask)
    # the table as _create_png_method_dict builds it, by folding the method on an instance (however the construction is written)
    from sa.core.classfold import ClassFolder, Inst
    cfp = ClassFolder(repo, 'pngwriter')
    inst = Inst('pngwriter', 'PngWriter', cfp)
    try:
        cfp.call(inst, '_create_png_method_dict')
    except NotLiteral as e:
        raise FactError('skoolkit/pngwriter.py: _create_png_method_dict is not foldable (%s)' % e)
    pmd = getattr(inst, 'png_method_dict', None)
    table = {}
    try:
        for bd in (0, 1, 2, 4):
            for fs in (0, 1):
                for mk_ in (0, 1):
                    m_ = pmd[bd][fs][mk_]
                    f_ = getattr(m_, 'fn', None)
                    table[(bd, fs, mk_)] = f_.name if f_ is not None else str(m_)
    except (KeyError, TypeError, IndexError) as e:
        raise FactError('skoolkit/pngwriter.py: png_method_dict has no entry for every (bit depth, full size, masked): %s' % e)
    for (bd, fs, mk_), name in sorted(table.items()):
        if name not in caps:
            ctx.violation('dispatch %s' % ((bd, fs, mk_),), 'skoolkit/pngwriter.py:%d' % fn.lineno, 'unknown encoder %s' % name)
            continue
        reads_crop, uses_mask = caps[name]
        problems = []
        if not reads_crop and fs == 0:
            problems.append('%s never reads frame.x/frame.y but is registered for cropped images' % name)
        if bd in (1, 2, 4) and mk_ == 1 and not uses_mask:
            problems.append('%s never consults the mask but is registered for masked images' % name)
        if problems:
            ctx.violation('dispatch bd=%d full=%d masked=%d' % (bd, fs, mk_), 'skoolkit/pngwriter.py:%d' % fn.lineno, '; '.join(problems))
        else:
            ctx.ok({'key': [bd, fs, mk_], 'encoder': name})

def crc_rule(ctx, repo, mod):
    ctx.rule('C15.3-chunks', 'CRC table == CRC-32; _get_crc == zlib.crc32 on vectors; constant chunks have right lengths and CRCs; chunk writers emit length, data, CRC(data)', floor=8)
    of = ObjFolder(repo, 'pngwriter', 'PngWriter')
    try:
        of.call('_create_crc_table', [])
    except NotLiteral as e:
        raise FactError('skoolkit/pngwriter.py: _create_crc_table not foldable: %s' % e)
    table = of.attrs.get('crc_table')
    want = []
    for i in range(256):
        c = i
        for k in range(8):
            c = (0xEDB88320 ^ (c >> 1)) if c & 1 else c >> 1
        want.append(c)
    if table != want:
        i = next((i for i in range(min(len(table or []), 256)) if table[i] != want[i]), 0)
        ctx.violation('crc_table', 'skoolkit/pngwriter.py', 'crc_table[%d] = %s, CRC-32 table has %d' % (i, (table or [None])[i] if table else None, want[i]))
    else:
        ctx.ok({'crc_table': 256})
    for vec in (b'IEND', b'acTL\x00\x00\x00\x02\x00\x00\x00\x00', bytes(range(256)), b'\x00', b'fdAT\x00\x00\x00\x02abc'):
        got = of.call('_get_crc', [list(vec)])
        w = zlib.crc32(vec)
        if tuple(got) != (w >> 24, (w >> 16) & 255, (w >> 8) & 255, w & 255):
            ctx.violation('_get_crc %r' % vec[:8], 'skoolkit/pngwriter.py', '_get_crc gives %s, CRC-32 is %08X' % (list(got), w))
        else:
            ctx.ok({'vector': vec[:12].hex(), 'crc': '%08X' % w})
    consts = {}
    for name in ('ACTL_CHUNK', 'IEND_CHUNK', 'FDAT2', 'FDAT', 'IDAT', 'PNG_SIGNATURE'):
        if name not in mod.assigns:
            raise FactError('skoolkit/pngwriter.py: %s not found' % name)
        consts[name] = bytes(Lit(repo, 'pngwriter').ev(mod.assigns[name][-1]))
    for name in ('ACTL_CHUNK', 'IEND_CHUNK'):
        c = consts[name]
        n = int.from_bytes(c[:4], 'big')
        body = c[4:-4]
        problems = []
        if n != len(body) - 4:
            problems.append('length word %d, data is %d bytes' % (n, len(body) - 4))
        if int.from_bytes(c[-4:], 'big') != zlib.crc32(body):
            problems.append('CRC %08X, computed %08X' % (int.from_bytes(c[-4:], 'big'), zlib.crc32(body)))
        if problems:
            ctx.violation(name, 'skoolkit/pngwriter.py', '%s: %s' % (name, '; '.join(problems)))
        else:
            ctx.ok({'chunk': name, 'type': body[:4].decode()})
    if consts['PNG_SIGNATURE'] != b'\x89PNG\r\n\x1a\n' or consts['IDAT'] != b'IDAT' or consts['FDAT'] != b'fdAT' or consts['FDAT2'][:4] != b'fdAT':
        ctx.violation('chunk names', 'skoolkit/pngwriter.py', 'PNG signature or chunk type constants are wrong')
    else:
        ctx.ok({'signature': 'ok'})
    # writers: fold on a fake file
    class FF:
        _sa_fold_ok = True
        def __init__(self): self.data = bytearray()
        def write(self, b): self.data.extend(b)
    for wname, payload in (('_write_chunk', list(b'tEXtabcde')), ('_write_img_data_chunk', b'IDAT\x01\x02\x03\x04\x05')):
        f = FF()
        of.call(wname, [f, payload])
        raw = bytes(payload)
        want = (len(raw) - 4).to_bytes(4, 'big') + raw + zlib.crc32(raw).to_bytes(4, 'big')
        if bytes(f.data) != want:
            ctx.violation(wname, 'skoolkit/pngwriter.py', '%s emits %s, a chunk with this data is %s' % (wname, bytes(f.data).hex(), want.hex()))
        else:
            ctx.ok({'writer': wname, 'bytes': len(want)})
    # alpha guard: an explicit per-frame alpha 0..255 is honoured, a negative one falls back to the writer's default (folded)
    from sa.core.pyfacts import ModuleFold
    wi = mod.method('PngWriter', 'write_image')
    tests = [n for n in ast.walk(wi) if isinstance(n, ast.If) and 'alpha' in ast.unparse(n.test) and any(isinstance(x, ast.Assign) and ast.unparse(x.targets[0]) == 'alpha' for x in n.body)]
    if not tests:
        raise FactError('skoolkit/pngwriter.py: alpha selection in write_image not found')
    class R:
        _sa_fold_ok = True
        def __init__(self, **kw): self.__dict__.update(kw)
    bad = None
    for a_ in [-1, -5] + list(range(256)):
        def opq(n):
            if isinstance(n, ast.Attribute) and isinstance(n.value, ast.Name) and n.value.id == 'self' and n.attr == 'alpha':
                return 777
            return None
        mf = ModuleFold(repo, 'pngwriter', {'frame1': R(alpha=a_)}, opq)
        mf.exec([tests[0]])
        got = mf.env.get('alpha')
        want = 777 if a_ < 0 else a_
        if got != want:
            bad = (a_, got, want)
            break
    if bad:
        ctx.violation('alpha selection', 'skoolkit/pngwriter.py:%d' % tests[0].lineno, 'a frame alpha of %d selects alpha %s, expected %s (explicit alpha values must be honoured, negative means unset)' % bad)
    else:
        ctx.ok({'alpha selection': ast.unparse(tests[0].test), 'values': 258})

def mask_rule(ctx, repo):
    ctx.rule('C15.4-mask-tables', 'each mask type: the 4-entry colour table used by the 2-bit encoder == its per-pixel apply() rule used by the generic encoder, for all (graphic bit, mask bit)', floor=2)
    mod = repo.mod('image')
    class U:
        _sa_fold_ok = True
        def __init__(self, data, mask): self.data, self.mask = data, mask
    n = 0
    for cname, cls in mod.classes.items():
        meths = mod.methods(cname)
        if 'apply' not in meths or 'colours' not in meths:
            continue
        n += 1
        of = ObjFolder(repo, 'image', cname)
        table = of.call('colours', [{'P': 'P', 'I': 'I', 'T': 'T'}, 'P', 'I', 'T'])
        bad = None
        for g in (0, 1):
            for m_ in (0, 1):
                px = of.call('apply', [U([0x80 * g] + [0] * 7, [0x80 * m_] + [0] * 7), 0, 'P', 'I', 'T'])
                if px[0] != table[2 * g + m_] or any(p_ != of.call('apply', [U([0] * 8, [0] * 8), 0, 'P', 'I', 'T'])[1] for p_ in px[1:]):
                    bad = (g, m_, px[0], table[2 * g + m_])
        if bad:
            ctx.violation('mask ' + cname, 'skoolkit/image.py:%d' % meths['colours'].lineno, '%s: graphic bit %d with mask bit %d is %s per pixel (apply) but %s in the colour table used by the 2-bit encoder' %
                          ((cname,) + tuple({'P': 'paper', 'I': 'ink', 'T': 'transparent'}.get(x, x) if isinstance(x, str) else x for x in bad)))
        else:
            ctx.ok({'mask': cname, 'table': list(table)})
    if n < 2:
        raise FactError('skoolkit/image.py: expected at least 2 mask classes with apply() and colours(), found %d' % n)

def dimension_rule(ctx, repo):
    ctx.rule('C15.5-dimensions', 'Frame.swap_colours: rows of the tile array are sliced with vertical quantities (y, height) and columns with horizontal ones (x, width)', floor=2)
    mod = repo.mod('graphics')
    fn = mod.method('Frame', 'swap_colours')
    dim = {'x': 'H', 'width': 'H', 'y': 'V', 'height': 'V'}
    def dims(node):
        return {dim[n.id] for n in ast.walk(node) if isinstance(n, ast.Name) and n.id in dim}
    for st in ast.walk(fn):
        if isinstance(st, ast.Assign) and isinstance(st.targets[0], ast.Tuple) and isinstance(st.value, ast.Tuple) and len(st.targets[0].elts) == len(st.value.elts):
            for t, v in zip(st.targets[0].elts, st.value.elts):
                d = dims(v)
                if isinstance(t, ast.Name) and len(d) == 1 and t.id not in ('x', 'y', 'width', 'height'):
                    dim[t.id] = next(iter(d))
    count = 0
    for n in ast.walk(fn):
        if isinstance(n, ast.Subscript) and isinstance(n.slice, ast.Slice):
            base = ast.unparse(n.value)
            want = 'V' if base.endswith('udgs') else ('H' if base == 'row' else None)
            if want is None:
                continue
            d = dims(n.slice)
            count += 1
            if d and d != {want}:
                ctx.violation('slice %s' % ast.unparse(n), 'skoolkit/graphics.py:%d' % n.lineno, '%s is sliced with %s quantities %s: the flash sub-frame gets the wrong number of %s' %
                              (base, 'horizontal' if 'H' in d else 'vertical', ast.unparse(n.slice), 'rows' if want == 'V' else 'columns'))
            else:
                ctx.ok({'slice': ast.unparse(n), 'dimension': want})
    if count < 2:
        raise FactError('skoolkit/graphics.py: tile slices of Frame.swap_colours not found')

def run(ctx):
    repo = pyfacts.Repo(ctx.repo_root)
    mod = repo.mod('pngwriter')
    unroll_rule(ctx, repo, mod)
    dispatch_rule(ctx, repo, mod)
    crc_rule(ctx, repo, mod)
    mask_rule(ctx, repo)
    dimension_rule(ctx, repo)
    from sa.rules import C15img
    C15img.pixels_rule(ctx, repo)
    C15img.transform_rule(ctx, repo)
    from sa.rules import memo
    memo.run_for(ctx, repo, 'C15')
    return report.finish(ctx, EXPLANATION)
