"""Annotation-channel lint (def-use over attributes).

An annotation read from one file format travels to the other through a chain of attributes: a producer stores it (`entry.end_comment =
...`, `self._footers[start].append(...)`, `block.footer = ...`), a consumer loads it on the way to output.  The rule: every attribute a
producer stores must be *consumed* in the consumer scope - loaded at least once other than as the whole right-hand side of an assignment
to another attribute (`self.footer = block.footer` only forwards the channel to `footer` of the next object, which must then be consumed
itself).  Attribute names are not typed: a load of `.X` on any object in the consumer scope counts, so the rule can miss a dropped
channel whose name is shared with a live one; it cannot condemn a live channel.

produced(...) reads the producer side off the code; consumed(...) decides each name; the caller reports."""
import ast

def class_attrs(cls):
    """attribute names assigned on self in any method of the class -> first line"""
    out = {}
    for n in ast.walk(cls):
        if isinstance(n, (ast.Assign, ast.AugAssign, ast.AnnAssign)):
            tgs = n.targets if isinstance(n, ast.Assign) else [n.target]
            for t in tgs:
                for x in (t.elts if isinstance(t, (ast.Tuple, ast.List)) else [t]):
                    if isinstance(x, ast.Attribute) and isinstance(x.value, ast.Name) and x.value.id == 'self':
                        out.setdefault(x.attr, x.lineno)
    return out

def stored_attrs(func, receivers=None):
    """attribute names stored on local objects (not self) inside a function: `block.title = ...` -> {name: line}"""
    out = {}
    for n in ast.walk(func):
        if isinstance(n, (ast.Assign, ast.AugAssign)):
            tgs = n.targets if isinstance(n, ast.Assign) else [n.target]
            for t in tgs:
                for x in (t.elts if isinstance(t, (ast.Tuple, ast.List)) else [t]):
                    if isinstance(x, ast.Attribute) and isinstance(x.value, ast.Name) and x.value.id != 'self':
                        if receivers is None or x.value.id in receivers:
                            out.setdefault(x.attr, x.lineno)
    return out

class Scope:
    """The consumer side: a set of AST roots (classes, functions, modules)."""
    def __init__(self, roots):
        self.loads = {}        # attr -> list of ('use', line) | ('forward', target attr, line)
        for root in roots:
            forwards = {}
            for n in ast.walk(root):
                if isinstance(n, ast.Assign) and isinstance(n.value, ast.Attribute) and isinstance(n.value.ctx, ast.Load):
                    for t in n.targets:
                        if isinstance(t, ast.Attribute):
                            forwards[id(n.value)] = t.attr
            for n in ast.walk(root):
                if isinstance(n, ast.Attribute) and isinstance(n.ctx, ast.Load):
                    if id(n) in forwards:
                        self.loads.setdefault(n.attr, []).append(('forward', forwards[id(n)], n.lineno))
                    else:
                        self.loads.setdefault(n.attr, []).append(('use', n.lineno))

    def consumed(self, attr, _seen=None):
        """-> ('use', line) of a consuming load reachable through forwarding, or None"""
        seen = _seen or set()
        if attr in seen:
            return None
        seen.add(attr)
        fw = []
        for l in self.loads.get(attr, ()):
            if l[0] == 'use':
                return l
            fw.append(l)
        for _, target, line in fw:
            if target == attr:
                continue
            r = self.consumed(target, seen)
            if r:
                return r
        return None

_POSITIVE = '''
class Block:
    pass
def get_blocks(p):
    block = Block()
    block.title = p.t
    block.footer = p.f
    block.end_comment = p.e
    return block
class Entry:
    def __init__(self, block):
        self.title = block.title
        self.footer = block.footer
        self.end_comment = block.end_comment
class Writer:
    def write(self, entry):
        print(entry.title)
        if entry.footer:
            print('x')
'''

def selfcheck():
    """the built-in example must report exactly the dropped channel `end_comment`"""
    tree = ast.parse(_POSITIVE)
    prod = stored_attrs(tree.body[1], {'block'})
    sc = Scope([tree.body[2], tree.body[3]])
    dropped = sorted(a for a in prod if not sc.consumed(a))
    return dropped == ['end_comment']
