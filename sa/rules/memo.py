"""Memo-key completeness: a value kept in a cache and handed back on a later call must be a function of the cache key.

Two forms are recognised, repository-wide (so a cache that did not exist on the pinned tree is analysed too):

 1. manual caches        if K not in C: C[K] = V            (also   v = C.get(K); if v is None: ...; C[K] = v)
                         ... C[K] is read back afterwards, and C outlives the evaluation (an attribute, a global / closure variable,
                         or a local created outside a loop that contains the test).  Not a cache: the same test with an else-branch
                         that updates C[K] (accumulation), or no read-back (first-one-wins de-duplication).
    Rule: every input path (parameter, enclosing loop variable, attribute / element of one) that V is computed from - through the
    local assignments of the function - is covered by an input path of K: equal, a prefix of it (the key holds the whole object),
    or an attribute-only extension of it (keying an object by an identifying attribute such as entry.address).  A key that holds
    only an element (x[0]) of a sequence the value reads whole does not cover it.

 2. functools.lru_cache / functools.cache on a method: the key is (self, arguments); the body must not read an attribute that some
    method other than __init__ assigns (state that changes after construction is not part of the key).

Confirmed exceptions on the pinned tree are listed in EXCEPTIONS with the reason; they are matched by (module, function, uncovered root)."""
import ast

EXCEPTIONS = {
    ('skoolhtml', '_get_asm_entry_dict', 'cwd'): 'every caller passes the single code_path of this writer (write_entries is called once per writer with one directory)',
    ('skoolhtml', '_get_asm_entry_dict', 'map_file'): 'every caller passes the single memory-map path of this writer',
    ('skoolmacro', 'parse_map', 'text'): 'the cached mapping is parsed from exactly the characters text[args_index:end] that form the key',
    ('skoolmacro', 'parse_map', 'index'): 'only locates the characters that form the key',
    ('skoolmacro', 'parse_map', 'fields'): 'used to evaluate the looked-up value, not the cached mapping',
}

def _guard(test):
    if isinstance(test, ast.Compare) and len(test.ops) == 1 and isinstance(test.ops[0], ast.NotIn):
        return test.comparators[0], test.left, 'body'
    if isinstance(test, ast.Compare) and len(test.ops) == 1 and isinstance(test.ops[0], ast.In):
        return test.comparators[0], test.left, 'orelse'
    return None

class FnFacts:
    def __init__(self, fn):
        self.fn = fn
        a = fn.args
        self.params = [x.arg for x in a.posonlyargs + a.args + a.kwonlyargs] + ([a.vararg.arg] if a.vararg else []) + ([a.kwarg.arg] if a.kwarg else [])
        self.parent = {}
        self.skip = set()        # ids of definition nodes to ignore (the cache lookup itself)
        self.region = set()      # ids of nodes inside the guarded (miss) branch of the site being analysed
        for n in ast.walk(fn):
            for c in ast.iter_child_nodes(n):
                self.parent[c] = n
        self.defs = {}       # local name -> list of (value expr or ('iter', expr), node)
        for n in ast.walk(fn):
            if isinstance(n, ast.Assign):
                for t in n.targets:
                    self._bind(t, n.value, n)
            elif isinstance(n, ast.AugAssign):
                self._bind(n.target, n.value, n)
                self._bind(n.target, n.target, n)
            elif isinstance(n, (ast.For, ast.comprehension)):
                self._bind(n.target, ('iter', n.iter), n)
            elif isinstance(n, ast.With):
                for it in n.items:
                    if it.optional_vars is not None:
                        self._bind(it.optional_vars, it.context_expr, n)
            elif isinstance(n, ast.NamedExpr):
                self._bind(n.target, n.value, n)
            elif isinstance(n, ast.Expr) and isinstance(n.value, ast.Call) and isinstance(n.value.func, ast.Attribute) \
                    and n.value.func.attr in ('append', 'extend', 'add', 'update', 'insert', 'setdefault', 'appendleft', 'write'):
                # a mutating call makes the receiver depend on the arguments
                root = n.value.func.value
                while isinstance(root, (ast.Subscript, ast.Attribute)):
                    root = root.value
                if isinstance(root, ast.Name) and root.id != 'self':
                    for a in n.value.args:
                        self.defs.setdefault(root.id, []).append((a, n))

    def _bind(self, t, value, node):
        if isinstance(t, ast.Name):
            self.defs.setdefault(t.id, []).append((value, node))
        elif isinstance(t, (ast.Tuple, ast.List)):
            for e in t.elts:
                self._bind(e, value, node)
        elif isinstance(t, ast.Starred):
            self._bind(t.value, value, node)
        elif isinstance(t, (ast.Subscript, ast.Attribute)):
            # a store into a local container makes the container depend on the value
            root = t
            while isinstance(root, (ast.Subscript, ast.Attribute)):
                root = root.value
            if isinstance(root, ast.Name) and root.id != 'self':
                self.defs.setdefault(root.id, []).append((value, node))

    def ancestors(self, n):
        while n in self.parent:
            n = self.parent[n]
            yield n

    def enclosing_loops(self, n):
        return [a for a in self.ancestors(n) if isinstance(a, (ast.For, ast.While))]

    def paths(self, e, roots, seen=None, depth=0):
        """Input paths expression e depends on.  A path is a tuple (root, step, ...) with steps '.attr' or '[]'."""
        return {p for p, alias in self._paths(e, roots, seen, depth)}

    def _paths(self, e, roots, seen=None, depth=0):
        """-> set of (path, alias): alias paths denote the object the expression *is* (attribute / element steps extend them);
        the others are inputs it merely depends on (an index, a call argument)."""
        seen = set() if seen is None else seen
        out = set()
        if e is None or depth > 40:
            return out
        if isinstance(e, tuple) and e and e[0] == 'iter':
            return {(p + ('[]',), True) if al else (p, False) for p, al in self._paths(e[1], roots, seen, depth + 1)}
        if isinstance(e, (ast.Attribute, ast.Subscript)):
            steps = []
            b = e
            extra = set()
            while isinstance(b, (ast.Attribute, ast.Subscript)):
                if isinstance(b, ast.Attribute):
                    steps.append('.' + b.attr)
                else:
                    steps.append('[]')
                    extra |= {(p, False) for p, al in self._paths(b.slice, roots, seen, depth + 1)}
                b = b.value
            steps.reverse()
            base = self._paths(b, roots, seen, depth + 1)
            return {(p + tuple(steps), True) if al else (p, False) for p, al in base} | extra
        if isinstance(e, ast.Name):
            if e.id in roots:
                return {((e.id,), True)}
            if e.id in self.defs:
                if e.id in seen:
                    return out
                seen = seen | {e.id}
                defs = [(v, node) for v, node in self.defs[e.id] if id(node) not in self.skip]
                # a name (re)defined inside the guarded region is taken from there: those definitions run before its uses in
                # the region on every evaluation, so definitions elsewhere in the function do not reach them
                inside = [(v, node) for v, node in defs if id(node) in self.region]
                for v, node in (inside or defs):
                    out |= self._paths(v, roots, seen, depth + 1)
                return out
            return out          # global / builtin
        if isinstance(e, ast.Call):
            f = e.func
            if isinstance(f, ast.Attribute):
                out |= self._paths(f.value, roots, seen, depth + 1)
            elif not isinstance(f, ast.Name) or f.id in self.defs or f.id in roots:
                out |= self._paths(f, roots, seen, depth + 1)
            for a in e.args:
                out |= self._paths(a.value if isinstance(a, ast.Starred) else a, roots, seen, depth + 1)
            for k in e.keywords:
                out |= self._paths(k.value, roots, seen, depth + 1)
            return {(p, False) for p, al in out}
        if isinstance(e, (ast.ListComp, ast.SetComp, ast.GeneratorExp, ast.DictComp)):
            for g in e.generators:
                out |= self._paths(g.iter, roots, seen, depth + 1)
                for c in g.ifs:
                    out |= self._paths(c, roots, seen, depth + 1)
            for x in ([e.key, e.value] if isinstance(e, ast.DictComp) else [e.elt]):
                out |= self._paths(x, roots, seen, depth + 1)
            return {(p, False) for p, al in out}
        if isinstance(e, ast.Lambda):
            return {(p, False) for p, al in self._paths(e.body, roots, seen, depth + 1)}
        if isinstance(e, (ast.Tuple, ast.List)):
            for c in e.elts:
                out |= self._paths(c, roots, seen, depth + 1)
            return out
        for c in ast.iter_child_nodes(e):
            if isinstance(c, ast.expr):
                out |= self._paths(c, roots, seen, depth + 1)
        return {(p, False) for p, al in out}

def covered(v, keys):
    for k in keys:
        if k == v or (len(k) < len(v) and v[:len(k)] == k):
            return True
        if len(k) > len(v) and k[:len(v)] == v and all(s.startswith('.') for s in k[len(v):]):
            return True
    return False

def show(p):
    return p[0] + ''.join(s if s != '[]' else '[..]' for s in p[1:])

def memo_sites(fn):
    """-> list of dict(container, key expr, value expr, node, form)"""
    ff = FnFacts(fn)
    sites = []
    own = []
    def collect(n):
        for c in ast.iter_child_nodes(n):
            if isinstance(c, (ast.FunctionDef, ast.AsyncFunctionDef, ast.ClassDef)):
                continue
            own.append(c)
            collect(c)
    collect(fn)
    for n in own:
        if isinstance(n, ast.If):
            g = _guard(n.test)
            if g:
                c, k, br = g
                miss = getattr(n, br)
                hit = n.orelse if br == 'body' else n.body
                ctext, ktext = ast.unparse(c), ast.unparse(k)
                stores = [m for st in miss for m in ast.walk(st) if isinstance(m, ast.Assign) and len(m.targets) == 1 and isinstance(m.targets[0], ast.Subscript)
                          and ast.unparse(m.targets[0].value) == ctext and ast.unparse(m.targets[0].slice) == ktext]
                if not stores:
                    continue
                # accumulation: the hit branch updates C[K]
                if any(ctext in ast.unparse(x) and isinstance(x, (ast.Assign, ast.AugAssign, ast.Expr)) for st in hit for x in ast.walk(st)
                       if isinstance(x, (ast.Assign, ast.AugAssign)) or (isinstance(x, ast.Expr) and isinstance(x.value, ast.Call))):
                    continue
                # read-back: C[K] read somewhere in the function outside the miss branch's stores
                reads = [x for x in own if isinstance(x, ast.Subscript) and isinstance(x.ctx, ast.Load) and ast.unparse(x.value) == ctext and ast.unparse(x.slice) == ktext]
                if not reads:
                    continue
                for s in stores:
                    sites.append({'container': c, 'key': k, 'value': s.value, 'node': n, 'store': s, 'form': 'in-test'})
        if isinstance(n, ast.Assign) and isinstance(n.value, ast.Call) and isinstance(n.value.func, ast.Attribute) and n.value.func.attr == 'get' \
           and len(n.value.args) == 1 and len(n.targets) == 1 and isinstance(n.targets[0], ast.Name):
            c, k, v = n.value.func.value, n.value.args[0], n.targets[0].id
            ctext, ktext = ast.unparse(c), ast.unparse(k)
            for m in own:
                if isinstance(m, ast.If) and ast.unparse(m.test) in ('%s is None' % v, 'not %s' % v) and m.lineno >= n.lineno:
                    stores = [q for st in m.body for q in ast.walk(st) if isinstance(q, ast.Assign) and len(q.targets) == 1 and isinstance(q.targets[0], ast.Subscript)
                              and ast.unparse(q.targets[0].value) == ctext and ast.unparse(q.targets[0].slice) == ktext]
                    for s in stores:
                        sites.append({'container': c, 'key': k, 'value': s.value, 'node': m, 'store': s, 'form': 'get-test', 'var': v, 'lookup': n})
    # a memo container is written only under its miss test: any other store into it makes it an ordinary mapping being built
    def other_stores(s):
        ctext = ast.unparse(s['container'])
        guarded = {id(x['store']) for x in sites if ast.unparse(x['container']) == ctext}
        for n in own:
            if isinstance(n, (ast.Assign, ast.AugAssign)):
                for t in (n.targets if isinstance(n, ast.Assign) else [n.target]):
                    if isinstance(t, ast.Subscript) and ast.unparse(t.value) == ctext and id(n) not in guarded:
                        return True
        return False
    sites = [s for s in sites if not other_stores(s)]
    # persistence of the container
    out = []
    for s in sites:
        c = s['container']
        root = c
        while isinstance(root, (ast.Attribute, ast.Subscript)):
            root = root.value
        persistent = False
        if isinstance(root, ast.Name):
            if root.id == 'self' or (root.id not in ff.defs and root.id not in ff.params):
                persistent = True
            elif root.id in ff.params:
                persistent = True          # handed in by the caller: outlives the call
            else:
                loops = ff.enclosing_loops(s['node'])
                for v, dn in ff.defs.get(root.id, []):
                    if isinstance(c, ast.Name) and any(dn not in set(ast.walk(l)) for l in loops):
                        persistent = True
        if persistent:
            s['ff'] = ff
            out.append(s)
    return out

def mutable_attrs(repo):
    """Attribute names assigned by some method other than __init__ (by name, repository-wide)."""
    out = {}
    for mod in repo.all_modules():
        for cname, c in mod.classes.items():
            for f in c.body:
                if isinstance(f, ast.FunctionDef) and f.name != '__init__':
                    for n in ast.walk(f):
                        tgs = n.targets if isinstance(n, ast.Assign) else [n.target] if isinstance(n, ast.AugAssign) else []
                        for t in tgs:
                            for x in (t.elts if isinstance(t, ast.Tuple) else [t]):
                                if isinstance(x, ast.Attribute):
                                    out.setdefault(x.attr, '%s.%s.%s' % (mod.name, cname, f.name))
    return out

def run(ctx, repo, rule_id, modules=None, floor=1):
    ctx.rule(rule_id, 'cached values are functions of their cache key: every input the stored value is computed from is covered by the key (manual caches), and lru_cache methods read no state that changes after construction', floor=floor)
    mut = None
    n_sites = 0
    for mod in repo.all_modules():
        if modules is not None and mod.name not in modules:
            continue
        fns = []
        def visit(body, qual):
            for st in body:
                if isinstance(st, ast.FunctionDef):
                    fns.append((qual + st.name, st))
                    visit(st.body, qual + st.name + '.')
                elif isinstance(st, ast.ClassDef):
                    visit(st.body, st.name + '.')
        visit(mod.tree.body, '')
        for qual, fn in fns:
            # form 2: lru_cache / cache
            decos = [ast.unparse(d) for d in fn.decorator_list]
            if any(d.split('(')[0].split('.')[-1] in ('lru_cache', 'cache') for d in decos):
                n_sites += 1
                if mut is None:
                    mut = mutable_attrs(repo)
                bad = None
                for n in ast.walk(fn):
                    if isinstance(n, ast.Attribute) and isinstance(n.ctx, ast.Load):
                        b = n
                        chain = []
                        while isinstance(b, ast.Attribute):
                            chain.append(b.attr)
                            b = b.value
                        if isinstance(b, ast.Name) and b.id == 'self':
                            for a in chain:
                                if a in mut and bad is None:
                                    bad = (ast.unparse(n), a, mut[a], n.lineno)
                if bad:
                    ctx.violation('%s.%s cached state' % (mod.name, qual), '%s:%d' % (mod.relpath, bad[3]),
                                  '%s.%s is memoised on its arguments (%s) but reads %s, and attribute `%s` is reassigned after construction (by %s): a result cached for one state is returned for another' %
                                  (mod.name, qual, ', '.join(decos), bad[0], bad[1], bad[2]))
                else:
                    ctx.ok({'function': '%s.%s' % (mod.name, qual), 'form': 'lru_cache', 'mutable state read': 0})
            # form 1: manual caches
            for s in memo_sites(fn):
                n_sites += 1
                ff = s['ff']
                loops = ff.enclosing_loops(s['node'])
                roots = set(ff.params) - {'self'}
                for l in loops:
                    if isinstance(l, ast.For):
                        # a loop that contains the site while the container is created outside it: its variables are per-evaluation inputs
                        for t in ast.walk(l.target):
                            if isinstance(t, ast.Name):
                                roots.add(t.id)
                kp = ff.paths(s['key'], roots)
                ff.skip = {id(s['lookup'])} if 'lookup' in s else set()
                miss = s['node'].body if (s['form'] == 'get-test' or isinstance(s['node'].test.ops[0], ast.NotIn)) else s['node'].orelse
                ff.region = {id(x) for st in miss for x in ast.walk(st)}
                vp = ff.paths(s['value'], roots)
                ff.skip = set()
                ff.region = set()
                # the value variable of the get-form / locals built inside the miss branch are followed through ff.defs
                unc = sorted(p for p in vp if not covered(p, kp))
                fname = qual.split('.')[-1]
                unc = [p for p in unc if (mod.name, fname, p[0]) not in EXCEPTIONS]
                where = '%s:%d' % (mod.relpath, s['store'].lineno)
                if unc:
                    ctx.violation('%s.%s cache key' % (mod.name, qual), where,
                                  '%s.%s keeps `%s` in %s under the key `%s`, but the value is computed from %s, which the key (%s) does not determine: a later call with the same key and a different %s gets the stale value' %
                                  (mod.name, qual, ast.unparse(s['value'])[:60], ast.unparse(s['container']), ast.unparse(s['key']), ', '.join(show(p) for p in unc[:4]),
                                   ', '.join(sorted(show(p) for p in kp)) or 'no inputs', show(unc[0])))
                else:
                    ctx.ok({'function': '%s.%s' % (mod.name, qual), 'cache': ast.unparse(s['container']), 'key inputs': sorted(show(p) for p in kp), 'value inputs': sorted(show(p) for p in vp)})
    return n_sites

_POSITIVE = '''
class W:
    def __init__(self):
        self.cache = {}
    def fmt(self, value, width, base):
        key = (value, base)
        if key not in self.cache:
            self.cache[key] = self.render(value, width, base)
        return self.cache[key]
def edges(blocks):
    table = {}
    for block in blocks:
        key = (block.zero[0], block.one[0])
        t = table.get(key)
        if t is None:
            t = []
            for v in range(4):
                t.extend(block.one if v & 1 else block.zero)
            table[key] = t
        yield t
def good(self, cwd, entry):
    key = (cwd, entry.address)
    if key not in self.d:
        self.d[key] = self.build(cwd, entry)
    return self.d[key]
'''

def selfcheck():
    """The analysis must flag the two built-in bad caches and accept the good one (a rule whose expected count is zero needs a positive example)."""
    tree = ast.parse(_POSITIVE)
    verdicts = {}
    for fn in ast.walk(tree):
        if isinstance(fn, ast.FunctionDef) and fn.name in ('fmt', 'edges', 'good'):
            for s in memo_sites(fn):
                ff = s['ff']
                roots = set(ff.params) - {'self'}
                for l in ff.enclosing_loops(s['node']):
                    if isinstance(l, ast.For):
                        roots |= {t.id for t in ast.walk(l.target) if isinstance(t, ast.Name)}
                kp = ff.paths(s['key'], roots)
                ff.skip = {id(s['lookup'])} if 'lookup' in s else set()
                miss = s['node'].body
                ff.region = {id(x) for st in miss for x in ast.walk(st)}
                vp = ff.paths(s['value'], roots)
                ff.skip, ff.region = set(), set()
                verdicts[fn.name] = sorted(show(p) for p in vp if not covered(p, kp))
    if verdicts.get('fmt') != ['width'] or verdicts.get('edges') != ['block.one', 'block.zero'] or verdicts.get('good') != []:
        from sa.core.pyfacts import FactError
        raise FactError('memo-key analysis self-check failed: %s' % verdicts)

SCOPES = {
    'C01': ('disassembler', 'snaskool', 'ctlparser', 'skoolctl', 'skool2bin', 'z80', 'textutils', 'opcodes', 'sna2skool', 'skoolparser'),
    'C02': ('disassembler', 'z80', 'textutils', 'opcodes'),
    'C04': ('skool2bin', 'skoolparser', 'skoolasm', 'skool2asm', 'skoolmacro', 'skoolutils', 'z80'),
    'C06': ('simulator', 'cmiosimulator', 'pagingtracer', 'simutils', 'simtables'),
    'C11': ('tape', 'tap2sna', 'tapinfo'),
    'C12': ('bin2tap', 'tape'),
    'C13': ('loadtracer', 'tap2sna', 'tape'),
    'C14': ('snactl', 'sna2ctl', 'opcodes', 'ctlparser'),
    'C15': ('image', 'graphics', 'pngwriter', 'sna2img', 'skoolmacro'),
    'C16': ('skoolhtml', 'skool2html', 'skoolparser', 'skoolmacro', 'refparser', 'skoolutils'),
    'C17': ('skoolmacro', 'skoolasm', 'skoolhtml', 'skoolparser', 'skoolutils'),
    'C19': ('simulator', 'cmiosimulator', 'pagingtracer', 'simutils'),
    'C20': ('rzxplay', 'rzxinfo', 'snapshot'),
}

def run_for(ctx, repo, prop):
    selfcheck()
    return run(ctx, repo, '%s.M-memo' % prop, SCOPES[prop], floor=0)
