"""C06 - the four simulator implementations execute identically (structural agreement)."""
import ast
from sa.core import pyfacts, simfacts, effects, compare, report
from sa.core.simfacts import TABLES
from sa.core.terms import C, show
from sa.core.effects import Unsupported

EXPLANATION = (
    "Decides necessary conditions of bit-identical execution from the source alone: (1) the Python and C dispatch tables name the same "
    "handler, lookup table and arguments in all 7x256 slots of both C build configurations; (2) for every distinct slot instantiation the "
    "Python closure and the C handler have the same set of paths with the same register, memory, T-state, PC, R, MEMPTR, tracer-call and "
    "contention-pattern value terms (local value numbering + normal forms; remaining differences are decided exhaustively by the finite-domain "
    "folder, and a reported difference always carries a witness valuation); (3) CMIOSimulator inherits the dispatch table and overrides every "
    "handler with the same signature; (4) accept_interrupt agrees in the four bodies. Does NOT decide: step-by-step equality of whole programs, "
    "the 1.2M-entry lookup tables' contents (see C05 table-definition rule), or the run loops' scheduling.")

def table_rule(ctx, m):
    ctx.rule('C06.1-tables', 'Python dispatch slot == C OpcodeFunction row (handler, lookup, args) in both builds', floor=2 * 1786)
    for cfg, impl in (('plain', 'cp'), ('cont', 'cc')):
        for s in m.slots():
            row = m.c.tables[cfg][s.table][s.index]
            where = 'c/csimulator.c:%d' % row['line']
            if m.is_prefix(s):
                # prefix slots: C uses NULL function rows handled by the run loop / or a prefix handler
                continue
            fac, names, bound = m.py.bind('Simulator', s)
            ints = []
            table = None
            for n in names:
                v = bound[n]
                if v[0] == 'int': ints.append(v[1])
                elif v[0] == 'table' and v[1] in ('R1', 'R2'): ints.append(1 if v[1] == 'R1' else 2)
                elif v[0] == 'table': table = v[1]
            problems = []
            if row['func'] != s.handler:
                problems.append('handler %s vs C %s' % (s.handler, row['func']))
            cargs = row['args']
            if list(cargs[:len(ints)]) != ints or any(cargs[len(ints):]):
                problems.append('arguments %s vs C %s' % (ints, cargs))
            if table != row['lookup']:
                # C may pass NULL and reference the global table directly in the handler body
                if row['lookup'] is None and table is not None and row['func'] in m.c.units[cfg].funcs and _refs_global(m.c.units[cfg].funcs[row['func']], table):
                    pass
                else:
                    problems.append('lookup table %s vs C %s' % (table, row['lookup']))
            if problems:
                ctx.violation('%s/%s' % (s.key(), cfg), where, 'Python slot %s:%d and C row disagree: %s' % (m.py.mod.relpath, s.line, '; '.join(problems)))
            else:
                ctx.ok({'slot': s.key(), 'build': cfg, 'handler': s.handler, 'args': ints, 'lookup': table})

def _refs_global(fn, name):
    stack = [fn]
    while stack:
        n = stack.pop()
        if n.get('kind') == 'DeclRefExpr' and n.get('ref') == name:
            return True
        stack.extend(n.get('inner', []))
    return False

def override_rule(ctx, m):
    ctx.rule('C06.3-overrides', 'CMIOSimulator inherits create_opcodes and overrides every table handler with the same signature', floor=72)
    simf = m.py.factories['Simulator']; cmf = m.py.factories['CMIOSimulator']
    if 'create_opcodes' in cmf:
        ctx.violation('CMIOSimulator.create_opcodes', '%s:%d' % (m.py.cmod.relpath, cmf['create_opcodes'].lineno),
                      'CMIOSimulator defines its own dispatch tables; they are no longer shared with Simulator')
    used = sorted({s.handler for s in m.slots() if not m.is_prefix(s)})
    for h in used:
        if h not in cmf:
            ctx.violation('CMIOSimulator.' + h, m.py.cmod.relpath, 'handler %s is not overridden by CMIOSimulator (no contention modelled)' % h)
            continue
        pa = [a.arg for a in simf[h].args.args]; pb = [a.arg for a in cmf[h].args.args]
        da = [ast.unparse(d) for d in simf[h].args.defaults]; db = [ast.unparse(d) for d in cmf[h].args.defaults]
        if pa != pb or da != db:
            ctx.violation('CMIOSimulator.' + h, '%s:%d' % (m.py.cmod.relpath, cmf[h].lineno), 'signature %s%s differs from Simulator.%s %s%s' % (pb, db, h, pa, da))
        else:
            ctx.ok({'handler': h, 'params': pa[1:]})
    for cfg in ('plain', 'cont'):
        for h in used:
            if h not in m.c.units[cfg].funcs:
                ctx.violation('c:%s/%s' % (h, cfg), 'c/csimulator.c', 'handler %s has no C counterpart in the %s build' % (h, cfg))

def compare_slots(ctx, m, pairs, rule, drop_regs=(), transform=None):
    seen = {}
    for s in m.slots():
        if m.is_prefix(s):
            continue
        for a, b in pairs:
            try:
                ka, kb = m.inst_key(a, s), m.inst_key(b, s)
            except pyfacts.FactError as e:
                ctx.violation(s.key(), m.py.mod.relpath + ':%d' % s.line, str(e), rule=rule)
                continue
            k = (ka, kb)
            if k in seen:
                continue
            seen[k] = s.key()
            try:
                pa = m.canon(a, s, drop_regs=drop_regs)
                pb = m.canon(b, s, drop_regs=drop_regs)
            except Unsupported as e:
                ctx.limit('%s %s/%s' % (s.key(), a, b), 'construct not modelled: %s' % e, rule=rule)
                continue
            if transform:
                pa, pb = transform(pa, a), transform(pb, b)
            r = compare.compare(pa, pb)
            name = '%s(%s)' % (s.handler, ', '.join(str(x) for x in ka[2:])) if a in ('py', 'cm') else s.handler
            if r['status'] in ('equal', 'equal-fold'):
                ctx.ok({'slot': s.key(), 'handler': s.handler, 'pair': '%s<->%s' % (a, b), 'paths': len(pa), 'decided': r['status']}, rule=rule)
            elif r['status'] == 'differ':
                ctx.violation('%s %s<->%s' % (s.handler, a, b), m.where(a, s) + ' vs ' + m.where(b, s),
                              'handler %s instantiated for %s behaves differently in %s and %s' % (s.handler, s.key(), simfacts.IMPL_NAMES[a], simfacts.IMPL_NAMES[b]),
                              detail={'first_slot': s.key(), 'diff': r['detail'][:3]}, rule=rule)
            else:
                ctx.limit('%s %s %s<->%s' % (s.key(), s.handler, a, b), 'not decided: ' + str(r['detail'][:1])[:400], rule=rule)

def interrupt_paths_py(m, cls):
    from sa.core.effects import PyExtractor, Path
    simf = m.py.factories['Simulator']['accept_interrupt']
    def extract(fn, inline=None):
        ex = PyExtractor({}, m.py.regconsts)
        names = [a.arg for a in fn.args.args]
        ex.regname, ex.memname = names[1], names[2]
        ex.params[names[3]] = ('sym', 'prev_pc')
        ex.params[ex.regname] = ('sym', '$registers')
        ex.inline = inline or {}
        return ex.run([Path()], fn.body)
    if cls == 'Simulator':
        return extract(simf)
    cmf = m.py.factories['CMIOSimulator'].get('accept_interrupt')
    if cmf is None:
        return extract(simf)
    return extract(cmf, {'super().accept_interrupt': simf})

def interrupt_rule(ctx, m):
    ctx.rule('C06.4-interrupt', 'accept_interrupt: Simulator <-> C plain, CMIOSimulator <-> C contended (paths and value terms)', floor=2)
    for cls, cfg in (('Simulator', 'plain'), ('CMIOSimulator', 'cont')):
        try:
            pa = effects.canon(interrupt_paths_py(m, cls))
            u = m.c.units[cfg]
            if 'accept_interrupt' not in u.funcs:
                raise pyfacts.FactError('c/csimulator.c: accept_interrupt not found')
            ex = effects.CExtractor([0] * 7, None, m.c.consts[cfg], u, 'accept_interrupt')
            p = effects.Path()
            p.env['reg'] = ('sym', '$reg'); 
            pb = effects.canon(ex.run([p], u.body('accept_interrupt')))
        except Unsupported as e:
            ctx.limit('accept_interrupt/' + cfg, 'construct not modelled: %s' % e)
            continue
        # Python returns True/False, C returns 1/0
        r = compare.compare(pa, pb)
        if r['status'].startswith('equal'):
            ctx.ok({'function': 'accept_interrupt', 'pair': cls + '<->C ' + cfg, 'paths': len(pa)})
        elif r['status'] == 'differ':
            ctx.violation('accept_interrupt %s<->C %s' % (cls, cfg), 'skoolkit/simulator.py accept_interrupt vs c/csimulator.c accept_interrupt',
                          'interrupt acceptance differs between Python and C', detail=r['detail'][:3])
        else:
            ctx.limit('accept_interrupt/' + cfg, 'not decided: ' + str(r['detail'][:1])[:400])

def selection_rule(ctx, repo):
    ctx.rule('C06.5-selection', 'every tool pairs the C class with its Python fallback of the same kind (plain with plain, contended with contended), selected by the cmio test', floor=8)
    PAIRS = {('CSimulator', 'Simulator'): 'plain', ('CCMIOSimulator', 'CMIOSimulator'): 'cont'}
    KIND = {'Simulator': 'plain', 'CSimulator': 'plain', 'CMIOSimulator': 'cont', 'CCMIOSimulator': 'cont'}
    n_sites = 0
    for mod in repo.all_modules():
        if 'simulator_cls' not in mod.src:
            continue
        def visit(stmts, cmio):
            nonlocal n_sites
            for st in stmts:
                if isinstance(st, ast.If):
                    t = ast.unparse(st.test)
                    if 'cmio' in t.lower() and 'python' not in t.lower():
                        neg = isinstance(st.test, ast.UnaryOp) and isinstance(st.test.op, ast.Not)
                        visit(st.body, 'plain' if neg else 'cont')
                        visit(st.orelse, 'cont' if neg else 'plain')
                    else:
                        visit(st.body, cmio)
                        visit(st.orelse, cmio)
                    continue
                for fld in ('body', 'orelse', 'finalbody'):
                    sub = getattr(st, fld, None)
                    if isinstance(sub, list) and sub and isinstance(sub[0], ast.stmt):
                        visit(sub, cmio)
                if isinstance(st, ast.Assign) and any(isinstance(t, ast.Name) and t.id == 'simulator_cls' for t in st.targets):
                    n_sites += 1
                    v = st.value
                    where = '%s:%d' % (mod.relpath, st.lineno)
                    if isinstance(v, ast.BoolOp) and isinstance(v.op, ast.Or) and len(v.values) == 2 and all(isinstance(x, ast.Name) for x in v.values):
                        pair = (v.values[0].id, v.values[1].id)
                        kind = PAIRS.get(pair)
                        if kind is None:
                            ctx.violation('selection %s' % where, where, 'simulator class is chosen as `%s`: a C class is paired with a Python class of a different kind' % ast.unparse(v))
                        elif cmio is not None and kind != cmio:
                            ctx.violation('selection %s' % where, where, '`%s` is selected on the %s branch of the cmio test' % (ast.unparse(v), 'contended' if cmio == 'cont' else 'plain'))
                        else:
                            ctx.ok({'site': where, 'choice': ast.unparse(v)})
                    elif isinstance(v, ast.Name) and v.id in KIND:
                        if cmio is not None and KIND[v.id] != cmio:
                            ctx.violation('selection %s' % where, where, '%s is selected on the %s branch of the cmio test' % (v.id, 'contended' if cmio == 'cont' else 'plain'))
                        else:
                            ctx.ok({'site': where, 'choice': v.id})
                    else:
                        ctx.ok({'site': where, 'choice': ast.unparse(v)[:40], 'note': 'not a class literal'})
        for f in ast.walk(mod.tree):
            if isinstance(f, ast.FunctionDef):
                visit(f.body, None)
    if n_sites < 8:
        raise pyfacts.FactError('expected at least 8 simulator class selection sites, found %d' % n_sites)

def run(ctx):
    repo = pyfacts.Repo(ctx.repo_root)
    selection_rule(ctx, repo)
    m = simfacts.SimModel(repo)
    table_rule(ctx, m)
    override_rule(ctx, m)
    ctx.rule('C06.2-paths', 'per slot instantiation: Python closure == C handler (path sets with value terms), plain and contended', floor=2 * 1100)
    compare_slots(ctx, m, (('py', 'cp'), ('cm', 'cc')), 'C06.2-paths')
    interrupt_rule(ctx, m)
    from sa.rules import C08paging
    C08paging.paging_functions(ctx, repo, m)      # the three out7ffd() bodies (Python x2, C) are siblings too: shared with C08.4
    from sa.rules import intloop
    intloop.run(ctx, repo, 'C06.6-int-window')
    intloop.c_conditions(ctx, repo, 'C06.7-int-condition')
    ctx.assume('registers satisfy the C08 range invariant at instruction entry; a port-read tracer returns a byte; Python tracer calls do not raise')
    from sa.rules import memo
    memo.run_for(ctx, repo, 'C06')
    from sa.rules import fastcopy
    fastcopy.run(ctx, repo, 'C06.9-fast-copy')
    return report.finish(ctx, EXPLANATION)
