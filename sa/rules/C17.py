"""C17 - macros expand identically in both modes (mode-independence discipline)."""
import ast
from sa.core import pyfacts, report
from sa.core.pyfacts import Lit, NotLiteral, FactError, ModFolder

EXPLANATION = (
    "Decides the discipline that makes the numeric / control-flow macros mode-independent: (1) neither AsmWriter nor HtmlWriter defines an "
    "expand_<macro> method for them, so both use the shared parser registered in skoolmacro.get_macros; (2) inside those shared parsers and "
    "everything they call, the ASM/HTML mode is read only to guard HTML escaping/unescaping; (3) every writer method these parsers call is "
    "either the same code in both writers (after removing docstrings) or one of a short list of escaping-only differences; (4) the arithmetic "
    "evaluator admits no character that could form a name or call, and folds to integer semantics on a battery of expressions over all its "
    "operators (floor division, precedence, negative operands). Not decided: that each macro's expansion matches its documentation.")

MACROS = ['eval', 'n', 'if', 'map', 'for', 'foreach', 'while', 'let', 'format', 'def', 'peek', 'pokes', 'pushs', 'pops', 'chr', 'str', 'space', 'pc']
ESCAPE_ONLY = {
    'to_chr': 'HTML writes a numeric character reference, ASM the character itself',
    'space': 'HTML writes &#160;, ASM a space',
    'get_snapshot_name': 'accessor; ASM inlines the same expression',
    'warn': 'warnings only',
}

def strip_doc(fn):
    body = [s for s in fn.body if not (isinstance(s, ast.Expr) and isinstance(s.value, ast.Constant) and isinstance(s.value.value, str))]
    return '\n'.join(ast.unparse(s) for s in body)

def run(ctx):
    repo = pyfacts.Repo(ctx.repo_root)
    sm = repo.mod('skoolmacro')
    asm = repo.mod('skoolasm')
    htm = repo.mod('skoolhtml')
    am = asm.methods('AsmWriter')
    hm = htm.methods('HtmlWriter')
    ctx.rule('C17.1-shared-parser', 'no writer overrides the shared parser of a mode-independent macro (no expand_<macro> method)', floor=36)
    gm = sm.func('get_macros')
    registered = {}
    for n in ast.walk(gm):
        if isinstance(n, ast.Dict):
            for k, v in zip(n.keys, n.values):
                if isinstance(k, ast.Constant) and isinstance(k.value, str) and k.value.startswith('#'):
                    registered[k.value[1:].lower()] = v
    for mname in MACROS:
        if mname not in registered:
            ctx.violation('#' + mname.upper(), 'skoolkit/skoolmacro.py:%d' % gm.lineno, 'macro #%s is not registered with a shared parser in get_macros' % mname.upper())
            continue
        for wname, meths, mod in (('AsmWriter', am, asm), ('HtmlWriter', hm, htm)):
            if 'expand_' + mname in meths:
                ctx.violation('%s.expand_%s' % (wname, mname), '%s:%d' % (mod.relpath, meths['expand_' + mname].lineno),
                              '%s defines expand_%s, which replaces the shared parser of #%s in that mode only' % (wname, mname, mname.upper()))
            else:
                ctx.ok({'macro': '#' + mname.upper(), 'writer': wname})
    # closure of shared parsers
    funcs = sm.funcs
    roots = []
    for mname in MACROS:
        v = registered.get(mname)
        if v is not None:
            for n in ast.walk(v):
                if isinstance(n, ast.Name) and n.id in funcs:
                    roots.append(n.id)
    seen = set()
    work = list(roots)
    while work:
        f = work.pop()
        if f in seen or f not in funcs:
            continue
        seen.add(f)
        for n in ast.walk(funcs[f]):
            if isinstance(n, ast.Call) and isinstance(n.func, ast.Name) and n.func.id in funcs:
                work.append(n.func.id)
    if len(seen) < 20:
        raise FactError('skoolkit/skoolmacro.py: call closure of the mode-independent parsers has only %d functions' % len(seen))
    ctx.rule('C17.2-mode-reads', 'in the shared parsers the mode is read only to guard HTML (un)escaping', floor=2)
    nreads = 0
    for f in sorted(seen):
        fn = funcs[f]
        for n in ast.walk(fn):
            if isinstance(n, ast.If):
                t = ast.unparse(n.test)
                if "['html']" in t or "['asm']" in t or "['mode']" in t or 'isinstance(writer' in t:
                    nreads += 1
                    ok = True
                    for st in n.body + n.orelse:
                        src = ast.unparse(st)
                        calls = [ast.unparse(x.func) for x in ast.walk(st) if isinstance(x, ast.Call)]
                        if not any(c in ('html.escape', 'html.unescape', 'escape', 'unescape') for c in calls):
                            ok = False
                    if ok:
                        ctx.ok({'function': f, 'test': t, 'guards': 'html escaping only'})
                    else:
                        ctx.violation('%s mode test' % f, 'skoolkit/skoolmacro.py:%d' % n.lineno, '%s branches on the output mode (%s) for something other than HTML escaping: the macro expands differently in ASM and HTML' % (f, t))
            elif isinstance(n, ast.IfExp):
                t = ast.unparse(n.test)
                if "['html']" in t or "['asm']" in t:
                    nreads += 1
                    ctx.violation('%s mode expr' % f, 'skoolkit/skoolmacro.py:%d' % n.lineno, '%s selects a value by output mode (%s)' % (f, t))
    if nreads < 2:
        raise FactError('skoolkit/skoolmacro.py: expected the two known mode reads (parse_for, parse_foreach), found %d' % nreads)
    ctx.rule('C17.3-writer-siblings', 'writer methods used by the shared parsers are the same code in AsmWriter and HtmlWriter, or escaping-only differences', floor=5)
    used = set()
    for f in seen:
        fn = funcs[f]
        for n in ast.walk(fn):
            if isinstance(n, ast.Attribute) and isinstance(n.value, ast.Name) and n.value.id == 'writer':
                used.add(n.attr)
    for a in sorted(used):
        ina, inh = a in am, a in hm
        if not ina and not inh:
            continue        # plain data attribute
        if ina != inh:
            if a in ESCAPE_ONLY:
                ctx.ok({'method': a, 'allowed': ESCAPE_ONLY[a]})
            else:
                ctx.violation('writer.' + a, 'skoolkit/skoolasm.py / skoolkit/skoolhtml.py', 'shared macro parsers call writer.%s, which only %s defines' % (a, 'AsmWriter' if ina else 'HtmlWriter'))
            continue
        sa_, sh = strip_doc(am[a]), strip_doc(hm[a])
        sa_n = sa_.replace('self._snapshots[-1][1]', 'self.get_snapshot_name()')
        sh_n = sh.replace('self._snapshots[-1][1]', 'self.get_snapshot_name()')
        if a == 'expand':
            # entry point of each writer, also used by the shared parsers for nested macro arguments: the only admissible difference is
            # that HTML passes the page directory through
            norm = lambda t: t.replace(', cwd=None', '').replace(', cwd', '')
            if norm(sa_n) == norm(sh_n):
                ctx.ok({'method': a, 'identical up to': 'the page directory argument'})
            else:
                ctx.violation('writer.expand', 'skoolkit/skoolasm.py:%d vs skoolkit/skoolhtml.py:%d' % (am[a].lineno, hm[a].lineno),
                              'the shared macro parsers expand nested arguments through writer.expand, and AsmWriter.expand (%s) differs from HtmlWriter.expand (%s) by more than the page directory: a nested result keeps its surrounding white space in HTML but loses it in ASM' % (sa_.strip()[:80], sh.strip()[:80]))
            continue
        if sa_n == sh_n:
            ctx.ok({'method': a, 'identical': True})
        elif a in ESCAPE_ONLY:
            ctx.ok({'method': a, 'allowed difference': ESCAPE_ONLY[a]})
        else:
            ctx.violation('writer.' + a, 'skoolkit/skoolasm.py:%d vs skoolkit/skoolhtml.py:%d' % (am[a].lineno, hm[a].lineno),
                          'AsmWriter.%s and HtmlWriter.%s differ (%r vs %r): state-changing macros behave differently in the two modes' % (a, a, sa_[:100], sh[:100]))
    ctx.rule('C17.4-evaluator', 'evaluate(): whitelist admits no identifier/call characters; folds to integer semantics over all operators', floor=20)
    init = repo.mod('__init__')
    chars = Lit(repo, '__init__').ev(init.assigns['AE_CHARS'][-1])
    letters = {c for c in chars if c.isalpha()}
    bad = letters - set('ABCDEFabcdef')
    danger = set(chars) & set('_.[]{},:;\'"\\@#')
    if bad or danger:
        ctx.violation('AE_CHARS', 'skoolkit/__init__.py', 'arithmetic expressions may contain %s: a name, attribute or call could be formed and evaluated' % sorted(bad | danger))
    else:
        ctx.ok({'AE_CHARS letters': ''.join(sorted(letters))})
    mf = ModFolder(repo, '__init__')
    import html as _html
    def gh(n, lit):
        if isinstance(n, ast.Call) and ast.unparse(n.func) == 'html.unescape':
            return _html.unescape(lit.ev(n.args[0]))
        return None
    mf.global_hook = gh
    CASES = [('7/2*2', 6), ('-7/2', -4), ('7%3', 1), ('2**10', 1024), ('1+2*3', 7), ('(1+2)*3', 9), ('$FF+1', 256), ('10-3-2', 5), ('6&3', 2), ('6|3', 7), ('6^3', 5),
             ('1<<4', 16), ('256>>4', 16), ('3==3', 1), ('3!=3', 0), ('2<3', 1), ('2>3', 0), ('2<=2', 1), ('3>=4', 0), ('1&&0', 0), ('1||0', 1), ('100/7/2', 7), ('2**62/3', (2 ** 62) // 3)]
    for expr, want in CASES:
        try:
            got = mf.call('evaluate', [expr])
        except ValueError:
            got = 'ValueError'
        except NotLiteral as e:
            ctx.limit('evaluate %s' % expr, 'not foldable: %s' % e)
            continue
        if got != want:
            ctx.violation('evaluate(%s)' % expr, 'skoolkit/__init__.py (evaluate)', '#EVAL(%s) gives %s; integer arithmetic gives %s' % (expr, got, want))
        else:
            ctx.ok({'expression': expr, 'value': want})
    ctx.rule('C17.5-flag-tests', 'a macro flag parameter that is bit-tested (x & 1, x & 2, ...) is never compared for equality with a single-bit constant >= 2 (combined flags would be ignored)', floor=1)
    nflag = 0
    for fname, fn in sorted(funcs.items()):
        bit, eq = {}, {}
        for n in ast.walk(fn):
            if isinstance(n, ast.BinOp) and isinstance(n.op, ast.BitAnd) and isinstance(n.left, ast.Name) and isinstance(n.right, ast.Constant) and isinstance(n.right.value, int):
                bit.setdefault(n.left.id, []).append(n.right.value)
            if isinstance(n, ast.Compare) and isinstance(n.left, ast.Name) and len(n.ops) == 1 and isinstance(n.ops[0], (ast.Eq, ast.NotEq)) \
               and isinstance(n.comparators[0], ast.Constant) and isinstance(n.comparators[0].value, int) and not isinstance(n.comparators[0].value, bool):
                eq.setdefault(n.left.id, []).append((n.comparators[0].value, n.lineno))
        for v, masks in bit.items():
            if not all(m > 0 and m & (m - 1) == 0 for m in masks):
                continue
            nflag += 1
            bad = [(c, l) for c, l in eq.get(v, []) if c >= 2 and c & (c - 1) == 0]
            if bad:
                ctx.violation('%s %s' % (fname, v), 'skoolkit/skoolmacro.py:%d' % bad[0][1], 'in %s the flag word `%s` is bit-tested with masks %s but compared with == %d: a value with several flags set takes the wrong branch' % (fname, v, sorted(set(masks)), bad[0][0]))
            else:
                ctx.ok({'function': fname, 'flag word': v, 'masks': sorted(set(masks))})
    if nflag < 1:
        raise FactError('skoolkit/skoolmacro.py: no bit-tested flag parameter found')
    order_and_alias_rules(ctx, repo)
    header_order_rule(ctx, repo)
    from sa.rules import C17fold
    C17fold.run(ctx, repo)
    from sa.rules import memo
    memo.run_for(ctx, repo, 'C17')
    return report.finish(ctx, EXPLANATION)

def order_and_alias_rules(ctx, repo):
    """C17.6: wherever a parameter string goes through both nested-macro expansion (writer.expand) and replacement-field substitution
    (_format_params / str.format with the fields), the expansion comes first - a #LET inside the string must be visible to a {field} in the
    same string, and braces produced or consumed by nested macros must not be taken for fields.  Decided by def-use order: the value handed
    to the formatter derives from the result of expand(), never the other way round.
    C17.7: the `mode` entry of the replacement fields is a copy of the built-in fields, not the live dictionary that #LET updates."""
    ctx.rule('C17.6-expand-before-format', 'a parameter string that is both macro-expanded and field-substituted is expanded first (def-use order at every such site)', floor=3)
    mod = repo.mod('skoolmacro')
    def is_expand(c):
        return isinstance(c, ast.Call) and isinstance(c.func, ast.Attribute) and c.func.attr == 'expand'
    def is_format(c):
        if not isinstance(c, ast.Call):
            return False
        if isinstance(c.func, ast.Name) and c.func.id == '_format_params':
            return True
        return isinstance(c.func, ast.Attribute) and c.func.attr == 'format' and any(k.arg is None for k in c.keywords)
    n_sites = 0
    for fname, fn in sorted(mod.funcs.items()):
        calls = [n for n in ast.walk(fn) if is_expand(n) or is_format(n)]
        if not any(is_expand(c) for c in calls) or not any(is_format(c) for c in calls):
            continue
        # variables: name -> list of (lineno, kind) for assignments whose value contains an expand / format call on that same name
        events = []
        for n in ast.walk(fn):
            if isinstance(n, ast.Assign) and len(n.targets) == 1 and isinstance(n.targets[0], ast.Name):
                v = n.targets[0].id
                for c in ast.walk(n.value):
                    if (is_expand(c) or is_format(c)) and c.args and any(isinstance(x, ast.Name) and x.id == v for a in c.args[:1] for x in ast.walk(a)):
                        events.append((n.lineno, n.col_offset, v, 'expand' if is_expand(c) else 'format'))
            # nested form: format(expand(x)) or expand(format(x))
            if is_format(n) and n.args and any(is_expand(x) for x in ast.walk(n.args[0])):
                events.append((n.lineno, n.col_offset, '<nested>', 'expand'))
                events.append((n.lineno, n.col_offset + 1, '<nested>', 'format'))
            if is_expand(n) and n.args and any(is_format(x) for x in ast.walk(n.args[0])):
                events.append((n.lineno, n.col_offset, '<nested>', 'format'))
                events.append((n.lineno, n.col_offset + 1, '<nested>', 'expand'))
        by_var = {}
        for ln, col, v, kind in sorted(events):
            by_var.setdefault(v, []).append((ln, kind))
        for v, evs in by_var.items():
            kinds = [k for ln, k in evs]
            if 'expand' in kinds and 'format' in kinds:
                n_sites += 1
                if kinds.index('format') < kinds.index('expand'):
                    ctx.violation('%s %s' % (fname, v), 'skoolkit/skoolmacro.py:%d' % evs[0][0], 'in %s replacement fields are substituted into `%s` (line %d) before its nested macros are expanded (line %d): a #LET inside the string is not seen by a {field} in the same string, and braces used by nested macros are read as fields' %
                                  (fname, v, evs[kinds.index('format')][0], evs[kinds.index('expand')][0]))
                else:
                    ctx.ok({'function': fname, 'string': v, 'order': 'expand, then format'})
    if n_sites < 3:
        raise FactError('skoolkit/skoolmacro.py: expected at least 3 expand+format sites, found %d' % n_sites)
    ctx.rule('C17.7-mode-copy', 'the `mode` replacement field holds a copy of the built-in fields (dict copy / literal / constructor), not an alias of the dictionary #LET updates', floor=1)
    found = 0
    for m2 in repo.all_modules():
        for n in ast.walk(m2.tree):
            if isinstance(n, ast.Dict):
                for k, v in zip(n.keys, n.values):
                    if isinstance(k, ast.Constant) and k.value == 'mode':
                        found += 1
                        fresh = isinstance(v, (ast.Dict, ast.DictComp)) or (isinstance(v, ast.Call) and ((isinstance(v.func, ast.Attribute) and v.func.attr in ('copy', 'fromkeys')) or (isinstance(v.func, ast.Name) and v.func.id in ('dict', 'deepcopy', 'copy'))))
                        if fresh:
                            ctx.ok({'site': '%s:%d' % (m2.relpath, v.lineno), 'value': ast.unparse(v)})
                        else:
                            ctx.violation('mode field %s' % m2.name, '%s:%d' % (m2.relpath, v.lineno), 'the `mode` field is bound to `%s`, the live fields dictionary: after #LET(case=...), #LET(html=...) etc. {mode[...]} follows the change, though the manual says the original values stay available there (and #FOR/#FOREACH decide HTML escaping from mode[html])' % ast.unparse(v))
            if isinstance(n, ast.Assign) and any(isinstance(t, ast.Subscript) and isinstance(t.slice, ast.Constant) and t.slice.value == 'mode' for t in n.targets):
                found += 1
                v = n.value
                fresh = isinstance(v, (ast.Dict, ast.DictComp)) or (isinstance(v, ast.Call) and ((isinstance(v.func, ast.Attribute) and v.func.attr == 'copy') or (isinstance(v.func, ast.Name) and v.func.id in ('dict', 'deepcopy', 'copy'))))
                if fresh:
                    ctx.ok({'site': '%s:%d' % (m2.relpath, n.lineno), 'value': ast.unparse(v)})
                else:
                    ctx.violation('mode field %s' % m2.name, '%s:%d' % (m2.relpath, n.lineno), 'the `mode` field is bound to `%s`, not to a copy of the built-in fields' % ast.unparse(v))
    if not found:
        raise FactError('no construction of the `mode` replacement field found')


def header_order_rule(ctx, repo):
    """C17.9: both writers hand an entry's title (entry.description) to the macro engine before its description paragraphs (entry.details),
    so that a state-changing macro in the title (#LET, #POKES, #DEF) is seen by the description in ASM and HTML output alike (sibling
    agreement on an event order; the order itself is the one of the skool file)."""
    ctx.rule('C17.9-header-order', 'in AsmWriter and HtmlWriter the entry title is expanded before the description paragraphs (first use of entry.description precedes first use of entry.details in the method that handles both)', floor=2)
    found = 0
    for modname, clsname in (('skoolasm', 'AsmWriter'), ('skoolhtml', 'HtmlWriter')):
        mod = repo.mod(modname)
        for fn in mod.methods(clsname).values() if isinstance(mod.methods(clsname), dict) else mod.methods(clsname):
            first = {}
            def is_field(n):
                return isinstance(n, ast.Attribute) and n.attr in ('description', 'details') and isinstance(n.ctx, ast.Load) and \
                    ((isinstance(n.value, ast.Name) and n.value.id == 'entry') or (isinstance(n.value, ast.Attribute) and n.value.attr == 'entry'))
            # a local that merely names the field (x = entry.details) is not a use; its loads are
            alias = {st.targets[0].id: st.value.attr for st in fn.body
                     if isinstance(st, ast.Assign) and len(st.targets) == 1 and isinstance(st.targets[0], ast.Name) and is_field(st.value)}
            for idx, st in enumerate(fn.body):
                if isinstance(st, ast.Assign) and len(st.targets) == 1 and isinstance(st.targets[0], ast.Name) and is_field(st.value):
                    continue
                for n in ast.walk(st):
                    attr = n.attr if is_field(n) else alias.get(n.id) if isinstance(n, ast.Name) and isinstance(n.ctx, ast.Load) else None
                    if attr:
                        key = (idx, n.lineno, n.col_offset)
                        if attr not in first or key < first[attr]:
                            first[attr] = key
            if len(first) < 2:
                continue
            found += 1
            where = 'skoolkit/%s.py:%d' % (modname, fn.lineno)
            if first['description'] < first['details']:
                ctx.ok({'method': '%s.%s' % (clsname, fn.name), 'title at line': first['description'][1], 'details at line': first['details'][1]})
            else:
                ctx.violation('%s.%s header order' % (clsname, fn.name), where, '%s.%s uses entry.details (line %d) before entry.description (line %d): the description paragraphs are expanded before the title, so a #LET / #POKES / #DEF in the title is not seen by the description here although it is in the other writer (and in the skool file the title comes first)' % (clsname, fn.name, first['details'][1], first['description'][1]))
    if found < 2:
        raise FactError('C17.9: the methods that handle entry.description and entry.details were not found in both writers (%d found)' % found)
