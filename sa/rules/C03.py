"""C03 - skool -> ctl -> skool.  Structural clauses (vocabulary agreement between CtlWriter and CtlParser, @ignoreua comment types,
base letters, annotation channels) decided from the syntax trees; the identity of the two texts only as a labelled fold (C03pipe)."""
import ast
from sa.core import pyfacts, report
from sa.core.pyfacts import Lit, NotLiteral
from sa.rules import channels, C03pipe

WHERE_W = 'skoolkit/skoolctl.py'
WHERE_P = 'skoolkit/ctlparser.py'

# --------------------------------------------------------------------------------------------------------- C03.1 directive vocabulary
class Sym(str):
    """an unresolved first-field expression (source text)"""

class WriterVocab:
    """First characters of the lines CtlWriter can write: constants are followed through format templates, string concatenation, local
    names and parameters (call sites inside the class); what remains is a symbolic source (`entry.ctl`, a sub-block type)."""
    def __init__(self, cls, const=None):
        self.cls = cls
        self.const = const or (lambda name: None)
        self.methods = {f.name: f for f in cls.body if isinstance(f, ast.FunctionDef)}
        self.sites = []        # (method, line, set of chars / Sym)

    def collect(self):
        for m in self.methods.values():
            for n in ast.walk(m):
                if isinstance(n, ast.Call) and isinstance(n.func, ast.Name) and n.func.id == 'write_line' and n.args:
                    self.sites.append((m.name, n.lineno, self.first(n.args[0], m, 0)))
        return self.sites

    def first(self, e, m, depth):
        """-> set of first characters (1-char str) and Sym sources of string expression e evaluated in method m"""
        if depth > 6:
            return {Sym(ast.unparse(e))}
        if isinstance(e, ast.Constant) and isinstance(e.value, str):
            return {e.value[0]} if e.value else {Sym("''")}
        if isinstance(e, ast.Call) and isinstance(e.func, ast.Attribute):
            if e.func.attr in ('rstrip', 'strip', 'lower', 'upper') and not e.args:
                return self.first(e.func.value, m, depth)
            if e.func.attr == 'format' and isinstance(e.func.value, ast.Constant) and isinstance(e.func.value.value, str):
                t = e.func.value.value
                if not t.startswith('{'):
                    return {t[0]}
                field = t[1:t.index('}')].split(':')[0].split('!')[0]
                if field in ('', '0') and e.args and not any(isinstance(a, ast.Starred) for a in e.args):
                    return self.first(e.args[0], m, depth + 1)
                return {Sym(ast.unparse(e))}
            if e.func.attr == 'join':
                return {Sym(ast.unparse(e))}
        if isinstance(e, ast.BinOp) and isinstance(e.op, ast.Add):
            return self.first(e.left, m, depth)
        if isinstance(e, ast.JoinedStr) and e.values:
            v = e.values[0]
            return self.first(v.value if isinstance(v, ast.FormattedValue) else v, m, depth + 1)
        if isinstance(e, ast.Name):
            params = [a.arg for a in m.args.args]
            if e.id in params:
                return self.param(m, params.index(e.id), depth)
            vals = [n.value for n in ast.walk(m) if isinstance(n, ast.Assign) and any(isinstance(t, ast.Name) and t.id == e.id for t in n.targets)]
            if vals:
                out = set()
                for v in vals:
                    out |= self.first(v, m, depth + 1)
                return out
            c = self.const(e.id)
            if isinstance(c, str) and c:
                return {c[0]}
        return {Sym(ast.unparse(e))}

    def param(self, m, index, depth):
        out = set()
        name = m.args.args[index].arg
        found = False
        for caller in self.methods.values():
            for n in ast.walk(caller):
                if isinstance(n, ast.Call) and isinstance(n.func, ast.Attribute) and isinstance(n.func.value, ast.Name) and n.func.value.id == 'self' and n.func.attr == m.name:
                    found = True
                    arg = None
                    if index - 1 < len(n.args):
                        arg = n.args[index - 1]
                    for k in n.keywords:
                        if k.arg == name:
                            arg = k.value
                    if arg is None:
                        d = m.args.defaults
                        j = index - (len(m.args.args) - len(d))
                        arg = d[j] if 0 <= j < len(d) else None
                    if arg is None or (isinstance(arg, ast.Constant) and arg.value is None):
                        continue
                    out |= self.first(arg, caller, depth + 1)
        if not found:
            out.add(Sym('parameter %s of %s' % (name, m.name)))
        return out

def sub_block_types(cls):
    """first elements of the tuples get_sub_blocks appends: constants and symbolic instruction types"""
    f = next(x for x in cls.body if isinstance(x, ast.FunctionDef) and x.name == 'get_sub_blocks')
    consts, symbolic = set(), False
    for n in ast.walk(f):
        if isinstance(n, ast.Call) and isinstance(n.func, ast.Attribute) and n.func.attr == 'append' and n.args and isinstance(n.args[0], ast.Tuple):
            x = n.args[0].elts[0]
            if isinstance(x, ast.Constant):
                consts.add(x.value)
            else:
                symbolic = True
    return consts, symbolic

def composer_types(repo):
    """sub-block types ControlDirectiveComposer.compose can return, by folding it on one operation per branch"""
    from sa.core.classfold import ClassFolder, components_hook
    box = {}
    cf = ClassFolder(repo, 'skoolctl', components_hook(lambda: box['cf']))
    box['cf'] = cf
    comp = cf.new('ControlDirectiveComposer', 1)
    f = next(x for x in repo.mod('skoolctl').classes['ControlDirectiveComposer'].body if isinstance(x, ast.FunctionDef) and x.name == 'compose')
    prefixes = set()
    for n in ast.walk(f):
        if isinstance(n, ast.Call) and isinstance(n.func, ast.Attribute) and n.func.attr == 'startswith' and n.args and isinstance(n.args[0], ast.Tuple):
            prefixes |= {e.value for e in n.args[0].elts if isinstance(e, ast.Constant)}
    out = {}
    for op in sorted(prefixes) + ['LD A']:
        text = op + (' 1' if op != 'LD A' else ',1')
        out[text] = cf.call(comp, 'compose', text)[0]
    return out

def parser_vocab(repo):
    m = repo.mod('ctlparser')
    cls = m.classes['CtlParser']
    f = next(x for x in cls.body if isinstance(x, ast.FunctionDef) and x.name == '_parse_ctl_line')
    accepted, ignored, eq = set(), set(), set()
    for n in ast.walk(f):
        if isinstance(n, ast.Compare) and isinstance(n.left, ast.Name) and n.left.id == 'first_char' and len(n.ops) == 1:
            c0 = n.comparators[0]
            v = c0.value if isinstance(c0, ast.Constant) else repo.const('ctlparser', c0.id) if isinstance(c0, ast.Name) else None
            if not isinstance(v, str):
                continue
            if isinstance(n.ops[0], ast.In):
                accepted |= set(v)
            elif isinstance(n.ops[0], ast.NotIn):
                ignored |= set(v)
            elif isinstance(n.ops[0], ast.Eq):
                accepted |= set(v)
    g = next(x for x in cls.body if isinstance(x, ast.FunctionDef) and x.name == 'parse_ctls')
    dispatch, with_lengths = set(), set()
    for n in ast.walk(g):
        if isinstance(n, ast.Compare) and isinstance(n.left, ast.Name) and n.left.id == 'ctl' and len(n.ops) == 1:
            c0 = n.comparators[0]
            v = c0.value if isinstance(c0, ast.Constant) else repo.const('ctlparser', c0.id) if isinstance(c0, ast.Name) else None
            if not isinstance(v, str):
                continue
            if isinstance(n.ops[0], ast.Eq):
                dispatch.add(v)
            elif isinstance(n.ops[0], ast.In):
                if len(v) > 2:
                    with_lengths |= set(v)
                else:
                    dispatch |= set(v)
    return accepted, ignored, dispatch, with_lengths

def vocab_rule(ctx, repo):
    ctx.rule('C03.1-vocabulary', 'every first character CtlWriter can write on a line is accepted by CtlParser._parse_ctl_line; annotation letters have their own branch in parse_ctls; sub-block types are in the branch that records lengths', floor=12)
    wm = repo.mod('skoolctl')
    wv = WriterVocab(wm.classes['CtlWriter'], lambda name: repo.const('skoolctl', name))
    sites = wv.collect()
    if not sites:
        raise report.AnalysisError('no write_line call found in skoolctl.CtlWriter')
    accepted, ignored, dispatch, with_lengths = parser_vocab(repo)
    if not accepted or not dispatch:
        raise report.AnalysisError('CtlParser._parse_ctl_line / parse_ctls: no vocabulary found')
    entry_types = set(repo.const('skoolutils', 'DIRECTIVES') or ())
    consts, symbolic = sub_block_types(wm.classes['CtlWriter'])
    comp = composer_types(repo)
    sub_types = set(consts) | (set(comp.values()) if symbolic else set())
    for meth, line, firsts in sites:
        for c in sorted(firsts, key=str):
            if isinstance(c, Sym):
                if c == 'entry.ctl':
                    chars, what = entry_types, 'entry type'
                elif c in ('ctl', 'parameter ctl of write_sub_block'):
                    chars, what = sub_types, 'sub-block type'
                else:
                    ctx.limit('vocabulary %s' % meth, 'first field `%s` of the line written at %s:%d is not resolved to constants' % (c, WHERE_W, line))
                    continue
            else:
                chars, what = {c}, 'literal'
            for ch in sorted(chars):
                construct = 'vocabulary %r' % ch
                if ch not in accepted or ch in ignored:
                    ctx.violation(construct, '%s:%d (CtlWriter.%s)' % (WHERE_W, line, meth), 'CtlWriter writes lines starting with %r (%s) but CtlParser._parse_ctl_line does not accept that character (accepted: %r)' % (ch, what, ''.join(sorted(accepted))))
                elif what == 'literal' and ch.isupper() and ch not in dispatch and ch not in with_lengths:
                    ctx.violation(construct, '%s:%d (CtlWriter.%s)' % (WHERE_W, line, meth), 'CtlWriter writes %r annotation lines but parse_ctls has no branch for them (branches: %s)' % (ch, sorted(dispatch)))
                elif what == 'sub-block type' and ch != 'M' and ch not in with_lengths:
                    ctx.violation(construct, '%s:%d (CtlWriter.%s)' % (WHERE_W, line, meth), 'sub-block type %r (from %s) is not in the parse_ctls branch that records statement lengths (%r)' % (ch, sorted(comp.items()), ''.join(sorted(with_lengths))))
                elif what == 'sub-block type' and ch == 'M' and 'M' not in dispatch:
                    ctx.violation(construct, '%s:%d' % (WHERE_W, line), 'M directives are written but parse_ctls has no branch for them')
                else:
                    ctx.ok({'char': ch, 'kind': what, 'site': '%s:%d' % (meth, line)})

# --------------------------------------------------------------------------------------- C03.2 @ignoreua comment types and base letters
def _const_args(tree, funcname, index, resolve):
    out = {}
    for n in ast.walk(tree):
        if isinstance(n, ast.Call) and isinstance(n.func, ast.Attribute) and n.func.attr == funcname and len(n.args) > index:
            a = n.args[index]
            v = resolve(a)
            out.setdefault(v if v is not None else Sym(ast.unparse(a)), n.lineno)
    return out

def types_rule(ctx, repo):
    ctx.rule('C03.2-types', '@ignoreua comment types written by CtlWriter == accepted by CtlParser == looked up by SkoolWriter; entry-level ones == ENTRY_COMMENT_TYPES; base prefixes the composer can produce are in ctlparser.BASES', floor=16)
    wm, pm, sm = repo.mod('skoolctl'), repo.mod('ctlparser'), repo.mod('snaskool')
    def res(modname):
        def f(a):
            if isinstance(a, ast.Constant):
                return a.value
            if isinstance(a, ast.Name):
                return repo.const(modname, a.id)
            return None
        return f
    cw = wm.classes['CtlWriter']
    entry_w = _const_args(cw, '_write_entry_ignoreua_directive', 1, res('skoolctl'))
    inst_w = _const_args(cw, '_write_ignoreua_directive', 1, res('skoolctl'))
    inst_w = {k: v for k, v in inst_w.items() if not (isinstance(k, Sym) and k == 'comment_type')}
    written = dict(entry_w)
    written.update(inst_w)
    accepted = repo.const('ctlparser', 'COMMENT_TYPES')
    entry_types = repo.const('ctlparser', 'ENTRY_COMMENT_TYPES')
    if not written or accepted is None or entry_types is None:
        raise report.AnalysisError('@ignoreua comment type tables not found')
    looked = _const_args(sm.tree, 'get_ignoreua_directive', 0, res('snaskool'))
    looked = {k: v for k, v in looked.items() if not (isinstance(k, Sym) and k == 'comment_type')}
    for t, line in sorted(written.items(), key=lambda x: str(x[0])):
        construct = 'ignoreua type %s' % t
        if isinstance(t, Sym):
            ctx.limit(construct, 'comment type `%s` at %s:%d is not a constant' % (t, WHERE_W, line))
        elif t not in accepted:
            ctx.violation(construct, '%s:%d' % (WHERE_W, line), 'CtlWriter writes @ignoreua:%s but ctlparser.COMMENT_TYPES = %r rejects it' % (t, accepted))
        elif t not in looked:
            ctx.violation(construct, 'skoolkit/snaskool.py', 'CtlWriter writes @ignoreua:%s and CtlParser stores it, but SkoolWriter never looks it up (looked up: %s)' % (t, sorted(map(str, looked))))
        elif (t in entry_w) != (t in entry_types):
            ctx.violation(construct, '%s:%d' % (WHERE_W, line), '@ignoreua:%s is %s-level in CtlWriter but ENTRY_COMMENT_TYPES = %r' % (t, 'entry' if t in entry_w else 'instruction', entry_types))
        else:
            ctx.ok({'type': t})
    for t, line in sorted(looked.items(), key=lambda x: str(x[0])):
        if not isinstance(t, Sym) and t not in written:
            ctx.violation('ignoreua type %s' % t, 'skoolkit/snaskool.py:%d' % line, 'SkoolWriter looks up @ignoreua:%s, which CtlWriter never writes' % t)
        else:
            ctx.ok()
    # the dictionaries get_ignoreua_directive reads must be keyed as Block stores them: entry-level by type, others by address then type
    # base letters
    bases = repo.const('ctlparser', 'BASES')
    if not bases:
        raise report.AnalysisError('ctlparser.BASES not found')
    seen = {}
    roots = [wm.classes['ControlDirectiveComposer']] + [v for k, vs in wm.assigns.items() if k.startswith('FORMAT_') for v in vs]
    for root in roots:
        for n in ast.walk(root):
            if isinstance(n, ast.Dict):
                for v in n.values:
                    if isinstance(v, ast.Constant) and isinstance(v.value, str):
                        s = v.value
                        if s.endswith('{}') and len(s) == 3:
                            seen.setdefault(s[0], v.lineno)
                        elif len(s) == 1 and s.isalpha():
                            seen.setdefault(s, v.lineno)
            elif isinstance(n, ast.Assign) and isinstance(n.value, ast.Constant) and n.value.value in ('n',) and isinstance(n.targets[0], ast.Name) and 'base' in n.targets[0].id:
                seen.setdefault(n.value.value, n.lineno)
    if len(seen) < 5:
        raise report.AnalysisError('base prefix tables of ControlDirectiveComposer not found (%s)' % sorted(seen))
    for b, line in sorted(seen.items()):
        if b not in bases:
            ctx.violation('base prefix %s' % b, '%s:%d' % (WHERE_W, line), 'the composer can write the base prefix %r, which ctlparser.BASES = %r does not know' % (b, bases))
        else:
            ctx.ok({'base': b})

# ------------------------------------------------------------------------------------------------------- C03.3 annotation channels
# one named attribute each, with the reason it is not an annotation channel
NOT_A_CHANNEL = {
    'Block.asm_data_directives': 'a dead store in the pinned tree: @defb/@defs/@defw directives of header blocks are applied from CtlParser._asm_data_directives by apply_asm_data_directives, and their text travels in Block.header',
}
def channel_rule(ctx, repo):
    ctx.rule('C03.3-channels', 'every annotation attribute stored by a producer (skoolctl Entry / Instruction; CtlParser dictionaries; ctlparser Block) is consumed downstream (CtlWriter; get_blocks; snaskool) - no dropped channel', floor=38)
    if not channels.selfcheck():
        raise report.AnalysisError('channel lint: the built-in positive example is not reported')
    wm, pm, sm = repo.mod('skoolctl'), repo.mod('ctlparser'), repo.mod('snaskool')
    # 1. skool file -> CtlWriter
    prod = {}
    for cname in ('Entry', 'Instruction'):
        if cname not in wm.classes:
            raise report.AnalysisError('skoolctl.%s not found' % cname)
        for a, line in channels.class_attrs(wm.classes[cname]).items():
            prod.setdefault(a, (cname, line))
    scope = channels.Scope([wm.classes['CtlWriter']])
    for a, (cname, line) in sorted(prod.items()):
        if scope.consumed(a):
            ctx.ok({'channel': 'skoolctl.%s.%s' % (cname, a)})
        else:
            ctx.violation('channel skoolctl %s.%s' % (cname, a), '%s:%d' % (WHERE_W, line), 'skoolctl.%s.%s is stored by the skool file parser but CtlWriter never reads it: the annotation cannot reach the control file' % (cname, a))
    # 2. CtlParser dictionaries: filled while parsing, read when blocks are built
    cp = pm.classes['CtlParser']
    init = next(f for f in cp.body if isinstance(f, ast.FunctionDef) and f.name == '__init__')
    dicts = {a: l for a, l in channels.class_attrs(ast.Module(body=[init], type_ignores=[])).items() if a.startswith('_')}
    fill = ('__init__', 'parse_ctls', '_parse_ctl_file', '_parse_ctl_line', '_parse_asm_directive')
    scope = channels.Scope([f for f in cp.body if isinstance(f, ast.FunctionDef) and f.name not in fill])
    if len(dicts) < 10:
        raise report.AnalysisError('CtlParser.__init__: %d dictionaries found' % len(dicts))
    for a, line in sorted(dicts.items()):
        if scope.consumed(a):
            ctx.ok({'channel': 'CtlParser.%s' % a})
        else:
            ctx.violation('channel CtlParser.%s' % a, '%s:%d' % (WHERE_P, line), 'CtlParser.%s is filled while the control file is parsed but never read when the blocks are built' % a)
    # 3. Block attributes -> snaskool
    gb = next(f for f in cp.body if isinstance(f, ast.FunctionDef) and f.name == 'get_blocks')
    attrs = channels.stored_attrs(gb, {'block', 'sub_block'})
    attrs = {a: l for a, l in attrs.items() if a not in ('end',)}
    if len(attrs) < 12:
        raise report.AnalysisError('CtlParser.get_blocks: %d block attributes found' % len(attrs))
    scope = channels.Scope([sm.tree, pm.classes['Block']])
    for a, line in sorted(attrs.items()):
        if 'Block.' + a in NOT_A_CHANNEL:
            ctx.note('Block.%s: %s' % (a, NOT_A_CHANNEL['Block.' + a]))
            continue
        if scope.consumed(a):
            ctx.ok({'channel': 'Block.%s' % a})
        else:
            ctx.violation('channel Block.%s' % a, '%s:%d' % (WHERE_P, line), 'get_blocks stores %s on the block but snaskool never reads it: the annotation cannot reach the skool file' % a)

def run(ctx):
    repo = pyfacts.Repo(ctx.repo_root)
    vocab_rule(ctx, repo)
    types_rule(ctx, repo)
    channel_rule(ctx, repo)
    C03pipe.run(ctx, repo)
    return report.finish(ctx, 'Decides structural necessary conditions of the round trip: the directive vocabulary of CtlWriter is accepted and dispatched by CtlParser, '
                         '@ignoreua comment types and base prefixes agree across writer, parser and SkoolWriter, and no annotation attribute is stored without being consumed downstream. '
                         'The identity of the regenerated skool text is attempted only by C03.4, a *fold*: concrete evaluation of sna2skool and skool2ctl by the checker\'s own interpreter on generated annotated inputs (sampled). '
                         'Not decided: skool files not written by sna2skool, -w element subsets, L loops, all inputs.')
