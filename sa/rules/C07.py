"""C07 - all instruction tables agree on length, mnemonic and timing of every opcode (finite space, enumerated)."""
import re
from sa.core import pyfacts, simfacts, tabfacts, report
from sa.core.effects import Unsupported

EXPLANATION = (
    "Enumerates all 7x256 opcode sequences under every Opcodes= setting (each single option, none, ALL) and decides, from the literal tables "
    "and the instantiated simulator handlers: equal instruction length in disassembler.py, traceutils.py, opcodes.py, simulator.py and both C "
    "builds; equal mnemonic/operand templates in the two disassemblers; z80.py timing entry == set of T-state increments over the paths of "
    "the simulator slot; totality of every opcode-indexed lookup (key present or lookup guarded). The space is finite and fully enumerated.")

FAMS = tabfacts.SEQ_TABLES
PFX = {'ops': '', 'after_CB': 'CB', 'after_ED': 'ED', 'after_DD': 'DD', 'after_FD': 'FD', 'after_DDCB': 'DDCB..', 'after_FDCB': 'FDCB..'}
SIMTAB = {'ops': 'opcodes'}

def seqname(fam, b):
    return '%s%02X' % (PFX[fam], b)

def norm_trace(text):
    """traceutils template -> disassembler template form."""
    t = text
    t = re.sub(r'\{p\}\{n:\{[bw]\}\}', '{}', t)
    t = re.sub(r'\(I([XY])\{s\}\{p\}\{d:\{b\}\}\)', r'(I\1{})', t)
    return t

def option_sets(dis):
    sets = [()]
    for o in dis.all_options:
        sets.append((o,))
    sets.append(tuple(dis.all_options))
    return sets

def run(ctx):
    repo = pyfacts.Repo(ctx.repo_root)
    dis = tabfacts.DisTables(repo)
    tr = tabfacts.TraceTables(repo)
    oc = tabfacts.OpcodeTables(repo)
    tm = tabfacts.TimingTables(repo)
    m = simfacts.SimModel(repo)
    disfile, trfile, ocfile, tmfile = 'skoolkit/disassembler.py', 'skoolkit/traceutils.py', 'skoolkit/opcodes.py', 'skoolkit/z80.py'

    # ---- simulator summaries per slot (py, cm, cp, cc)
    sim = {}
    for s in m.slots():
        fam = 'ops' if s.table == 'opcodes' else s.table
        if m.is_prefix(s):
            sim[(fam, s.index)] = None
            continue
        d = {}
        for impl in simfacts.IMPLS:
            try:
                d[impl] = simfacts.summarize(m.canon(impl, s))
            except Unsupported as e:
                d[impl] = None
        sim[(fam, s.index)] = d

    ctx.rule('C07.1-length', 'instruction length agrees: disassembler == traceutils == opcodes.py == simulators (py, cm, C plain, C cont)', floor=1786)
    ctx.rule('C07.2-mnemonic', 'mnemonic/operand template agrees: disassembler (Opcodes=ALL) == traceutils', floor=1786)
    ctx.rule('C07.3-timing', 'z80.py timing entry == set of T-state increments of the simulator slot (four implementations)', floor=1200)
    ctx.rule('C07.4-totality', 'every key get_timing/decoders can be asked for exists (per option set); opcode-indexed tables are total or guarded', floor=1786)
    ctx.rule('C07.5-options', 'Opcodes= options touch disjoint table keys (so single options compose to any subset)', floor=8)

    allopts = tuple(dis.all_options)
    full = dis.decode_all(allopts)
    base = dis.decode_all(())

    # options disjointness
    seen = {}
    for o in dis.all_options:
        keys = {(a, k) for a, k, v, l in dis.option_stores[o]}
        clash = [k for k in keys if k in seen]
        if clash:
            ctx.violation('Opcodes=%s' % o, disfile, 'option %s and option %s both assign %s' % (o, seen[clash[0]], clash[0]), rule='C07.5-options')
        else:
            ctx.ok({'option': o, 'keys': len(keys)}, rule='C07.5-options')
        for k in keys:
            seen[k] = o

    # ---- length + mnemonic, under ALL (traceutils and simulators always know every form)
    for fam in FAMS:
        for b in range(256):
            name = seqname(fam, b)
            d = full[(fam, b)]
            t = tr.entry(fam, b)
            where = '%s:%d' % (trfile, tr.lines.get((fam, b), 0))
            if d['kind'] == 'prefix':
                # both must treat it as a prefix (no own mnemonic)
                if t['func'] is not None and not (fam in ('after_DD', 'after_FD') and b == 0xCB):
                    ctx.violation(name, where, 'disassembler treats %s as a prefix but traceutils has handler %s' % (name, t['func']), rule='C07.1-length')
                else:
                    ctx.ok(rule='C07.1-length')
                continue
            lens = {'disassembler': d['length'], 'traceutils': t['length']}
            # opcodes.py
            try:
                lens['opcodes.py'] = oc.size(fam, b)
            except KeyError:
                ctx.violation(name, ocfile, 'opcodes.py table %s has no entry for 0x%02X and no KeyError fall-back catches it' % (oc.NAMES[fam], b), rule='C07.4-totality')
            # DD/FD + non-indexable opcode: the prefix is a 1-byte no-op everywhere
            sm = sim.get((fam, b))
            if sm:
                for impl, summ in sm.items():
                    if summ is None:
                        continue
                    consts = {x for x in summ['pc'] if isinstance(x, int) and x != 0}
                    if len(consts) == 1:
                        lens[impl] = next(iter(consts))
                    elif len(consts) > 1:
                        lens[impl] = tuple(sorted(consts))
            vals = set(lens.values())
            if len(vals) != 1:
                ctx.violation(name, where, 'instruction length of %s (%s) differs: %s' % (name, d['text'] or t['text'] or 'DEFB', lens), rule='C07.1-length')
            else:
                ctx.ok({'seq': name, 'length': d['length'], 'agreeing': sorted(lens)}, rule='C07.1-length')
            # mnemonic
            if d['kind'] == 'op':
                dt = d['text']
                tt = norm_trace(t['text'])
                if d['decoder'] == 'rst_arg':
                    dt = 'RST {}|%d' % int(dt[4:])
                    tt = tt + '|%d' % ((b - 0xC7) if t['func'] == 'rst' else -1)
                if dt != tt:
                    ctx.violation(name, where, 'mnemonic of %s: disassembler %r vs traceutils %r' % (name, d['text'], t['text']), rule='C07.2-mnemonic')
                else:
                    ctx.ok({'seq': name, 'template': d['text']}, rule='C07.2-mnemonic')
            else:
                if t['text'] != '' or t['func'] != 'defb':
                    ctx.violation(name, where, 'disassembler renders %s as DEFB but traceutils has %r' % (name, t['text']), rule='C07.2-mnemonic')
                else:
                    ctx.ok(rule='C07.2-mnemonic')

    # ---- timing: every sequence rendered as an instruction under any option set has a timing entry equal to the simulator's
    for opts in option_sets(dis):
        dec = dis.decode_all(opts)
        for fam in FAMS:
            for b in range(256):
                d = dec[(fam, b)]
                if d['kind'] != 'op':
                    continue
                name = seqname(fam, b)
                ttab = tm.tables[fam]
                if b not in ttab:
                    ctx.violation(name, tmfile, 'get_timing raises KeyError: %s is disassembled as %r%s but %s has no key 0x%02X' %
                                  (name, d['text'], (' under Opcodes=' + ','.join(opts)) if opts else '', tm.NAMES.get(fam, tm.NAMES.get(fam.replace('FD', 'DD'))), b), rule='C07.4-totality')
                    continue
                ctx.ok(rule='C07.4-totality')
    for fam in FAMS:
        ttab = tm.tables[fam]
        for b in sorted(ttab):
            name = seqname(fam, b)
            entry = ttab[b]
            want = set(entry) if isinstance(entry, tuple) else {entry}
            sm = sim.get((fam, b))
            if not sm:
                continue
            bad = {}
            for impl, summ in sm.items():
                if summ is None:
                    continue
                if 'var' in summ['t']:
                    continue
                if summ['t'] != want:
                    bad[impl] = sorted(summ['t'])
            if bad:
                ctx.violation(name, '%s (%s[0x%02X])' % (tmfile, tm.NAMES.get(fam, fam), b), 'timing of %s: z80.py says %s, simulators take %s' % (name, sorted(want), bad), rule='C07.3-timing')
            else:
                ctx.ok({'seq': name, 'timing': sorted(want)}, rule='C07.3-timing')
    from sa.rules import C07operands
    C07operands.run(ctx, repo, dis, tr)
    C07operands.boundary_rule(ctx, repo, dis)
    return report.finish(ctx, EXPLANATION, exhaustive=True)
