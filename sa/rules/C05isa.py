"""C05.5 - every dispatch slot against an independent reference model of the instruction (sa/rules/z80isa.py).

The extracted path set of a slot (its value terms) is evaluated on sampled machine states - registers at corner and random
values, memory reads as uninterpreted bytes - and compared with what the reference model computes for the same opcode on
the same state: all registers, the documented flags, PC, SP, R, IFF/IM/HALT, memory writes above the ROM, port writes,
and T-states.  A reported difference carries the state.  Sampling cannot prove a slot right; it finds slots that are wrong
in a way all four implementations share (which the cross-implementation rules cannot see)."""
import random
from sa.core import simfacts, semdiff, effects
from sa.core.terms import show
from sa.core.effects import Unsupported
from sa.rules import z80isa

PREFIX = {'opcodes': [], 'after_CB': [0xCB], 'after_ED': [0xED], 'after_DD': [0xDD], 'after_FD': [0xFD]}
DEFAULT_IN = {'in_a_n': 255, 'in_r_c': 255, 'ini': 191}

class Ev(semdiff.Evaluator):
    forced = {}
    tables = {}
    writes = ()
    def byte_uf(self, kind, args):
        if kind == 'mem':
            addr, epoch = args
            # a read after `epoch` stores of this path sees the latest of them to the same address, else the initial memory
            for a_t, v_t in reversed(self.writes[:epoch]):
                if self.ev(a_t) == addr:
                    return self.ev(v_t) & 0xFF
            if addr in self.forced:
                return self.forced[addr]
            return super().byte_uf('mem', (addr, 0))
        return super().byte_uf(kind, args)
    def _ev(self, t):
        if t[0] == 'idx':
            chain = []
            b = t
            while b[0] == 'idx':
                chain.append(b[2])
                b = b[1]
            if b[0] == 'T' and b[1] in self.tables:
                v = self.tables[b[1]]
                for c in reversed(chain):
                    v = v[self.ev(c)]
                return tuple(v) if isinstance(v, (tuple, list)) else v
        return super()._ev(t)

def run(ctx, m, impls=('py', 'cp')):
    n_samples = 40 if ctx.tier == 'quick' else 400
    ctx.rule('C05.5-reference', 'each slot\'s extracted effects == independent reference model of the instruction on sampled states (registers, documented flags, PC/SP/R, memory and port writes, T-states)', floor=1700)
    rnd = random.Random(20260925 + ctx.seed)
    from sa.core import tabulate
    Ev.tables = tabulate.python_tables(m.repo.mod('simtables'))
    seen = {}
    regs_all = {('reg', k) for k in list(range(0, 13)) + list(range(14, 29))}
    syms_all = {('sym', s) for s in ('frame_duration', 'int_active', 'in_a_n_tracer', 'in_r_c_tracer', 'ini_tracer', 'out_tracer', 'read_port', '$mem', 'out7ffd', 't0', 't1')}
    for s in m.slots():
        if m.is_prefix(s):
            continue
        for impl in impls:
            key = m.inst_key(impl, s) + (s.table, s.index)
            try:
                items = m.canon(impl, s, keep_page=False)
            except Unsupported as e:
                ctx.limit('%s %s' % (s.key(), impl), 'construct not modelled: %s' % e)
                continue
            name = '%s %s' % (s.key(), impl)
            if s.table in PREFIX:
                opbytes = PREFIX[s.table] + [s.index]
                op_at = {i: b for i, b in enumerate(opbytes)}
            else:
                pre = 0xDD if s.table == 'after_DDCB' else 0xFD
                op_at = {0: pre, 1: 0xCB, 3: s.index}
            bad = None
            tried = 0
            for n, val in enumerate(semdiff.sample_valuations(regs_all, syms_all, n_samples, seed=rnd.randrange(1 << 30))):
                val[('sym', 'int_active')] = 0
                val[('sym', 'read_port')] = 0
                val[('sym', '$mem')] = 1
                val[('reg', 13)] = 0          # SP2: the always-zero high half paired with the 16-bit SP slot
                pc = val[('reg', 24)]
                ev = Ev(val, corner=(n % 3 != 1), salt=n)
                ev.forced = {(pc + i) & 0xFFFF: b for i, b in op_at.items()}
                try:
                    act = [(g, e) for g, e in items if all(ev.ev(x) for x in g)]
                    if len(act) != 1:
                        continue
                    ev.writes = tuple(act[0][1][1])
                    ev.memo.clear()
                    eff = semdiff._effects(act[0][1], ev)
                except (semdiff.Undef, KeyError, TypeError, ValueError):
                    continue
                regs0 = {k[1]: v for k, v in val.items() if k[0] == 'reg'}
                def rd(a, ev=ev):
                    return ev.byte_uf('mem', (a & 0xFFFF, 0))
                def port_in(port, kind, ev=ev, val=val):
                    if val[('sym', kind + '_tracer')]:
                        return ev.byte_uf('call', (kind + '_tracer', (port,), 1))
                    return DEFAULT_IN[kind]
                try:
                    ref = z80isa.step(regs0, rd, {'port_in': port_in})
                except Exception as e:
                    bad = ('reference model failed: %s' % e, val)
                    break
                tried += 1
                got = dict(regs0)
                got.update(eff[0])
                diffs = []
                for k in sorted(set(ref.r) | set(got)):
                    if k in (25, 13, 29):
                        continue
                    a, b = got.get(k, regs0.get(k)), ref.r.get(k)
                    if k == 1:
                        a, b = a & ref.fmask, b & ref.fmask
                    if k == 15 and ref.rinc is None:
                        continue
                    if a != b:
                        diffs.append('%s: simulator %s, reference %s' % ({0: 'A', 1: 'F(mask %02X)' % ref.fmask, 12: 'SP', 15: 'R', 24: 'PC', 26: 'IFF', 27: 'IM', 28: 'HALT'}.get(k, 'reg %d' % k), a, b))
                tgot = got.get(25, regs0[25]) - regs0[25]
                if tgot != ref.t:
                    diffs.append('T-states: simulator %s, reference %s' % (tgot, ref.t))
                wgot = {a: v for a, v in eff[1]}
                wref = {a: v for a, v in ref.writes if a > 0x3FFF}
                if wgot != wref:
                    diffs.append('memory writes: simulator %s, reference %s' % (sorted(wgot.items()), sorted(wref.items())))
                if val[('sym', 'out_tracer')]:
                    ogot = [(x[2][0], x[2][1]) for x in eff[2] if x[0] == 'tracer' and x[1] == 'out_tracer']
                    if ogot != ref.outs:
                        diffs.append('port writes: simulator %s, reference %s' % (ogot, ref.outs))
                if diffs:
                    bad = ('; '.join(diffs[:4]), val)
                    break
            if bad:
                st = {show(k): v for k, v in sorted(bad[1].items()) if k[0] == 'reg' or k[1].endswith('_tracer')}
                ctx.violation(name, m.where(impl, s), 'slot %s (%s) deviates from the Z80 reference: %s' % (s.key(), s.handler, bad[0]), detail={'state': st})
            elif tried == 0:
                ctx.limit(name, 'no sampled state selected exactly one path')
            else:
                ctx.ok({'slot': s.key(), 'impl': impl, 'states': tried})
