"""C01.7-pipeline (*fold*): the whole sna2skool -> skool2bin path folded on model inputs.

A model memory image and a well-formed control file (blocks b/c/g/s/t/u/w, sub-blocks B/C/S/T/W with lengths, sublength lists, base
prefixes b/c/d/h/m/n and `*` multipliers, M directives; all boundaries on statement boundaries, as the property requires) are built by the
checker; CtlParser.parse_ctls, SkoolWriter (Disassembly, the disassembler component) and write_skool are folded to produce the skool file
text, and BinWriter (read_skool, the assembler component, the instruction utility) is folded on that text.  The image skool2bin writes
must equal the original bytes of the range.  Options: decimal/hexadecimal, lower/upper case, line width, DefbSize/DefmSize/DefwSize,
Opcodes, HandleRST off."""
import ast, random, textwrap
from sa.core import pyfacts
from sa.core.pyfacts import NotLiteral, FactError, Lit, FOLDED_NONE
from sa.core.classfold import ClassFolder, components_hook

class Rec:
    _sa_fold_ok = True
    _sa_model = True
    def __init__(self, **kw):
        self.__dict__.update(kw)

class TW(textwrap.TextWrapper):
    _sa_fold_ok = True
    _sa_model = True

class OutFile:
    _sa_fold_ok = True
    _sa_model = True
    def __init__(self, sink, name):
        self.sink, self.name = sink, name
        sink[name] = bytearray()
    def write(self, b):
        self.sink[self.name].extend(b)
    def close(self):
        pass
    def __enter__(self):
        return self
    def __exit__(self, *a):
        return False

class LineFile:
    _sa_fold_ok = True
    _sa_model = True
    def __init__(self, lines):
        self.lines = list(lines)
    def __iter__(self):
        return iter(self.lines)
    def close(self):
        pass

class Pipeline:
    def __init__(self, repo):
        self.repo = repo
        self.lines = []
        self.files = {}
        self.sink = {}
        self.warnings = []
        self.stdout = []
        self.comp = components_hook(lambda: self.cf)
        self.cf = ClassFolder(repo, 'snaskool', self.hook)
        cmds = Lit(repo, 'config').ev(repo.mod('config').assigns['COMMANDS'][-1])
        self.defaults = {k: v[0] for k, v in cmds['sna2skool'].items()}

    def hook(self, n, lit):
        if isinstance(n, ast.Call) and isinstance(n.func, ast.Name) and n.func.id not in lit.env:
            f = n.func.id
            if f == 'write_line':
                self.lines.append(lit.ev(n.args[0]))
                return FOLDED_NONE
            if f == 'warn':
                self.warnings.append(str(lit.ev(n.args[0])))
                return FOLDED_NONE
            if f == 'info':
                return FOLDED_NONE
            if f == 'open_file':
                a = lit._seq(n.args)
                if len(a) > 1 and 'w' in a[1]:
                    return OutFile(self.sink, a[0])
                return LineFile(self.files[a[0]])
            if f == 'read_bin_file':
                return bytes(16384)
        if isinstance(n, ast.Call) and isinstance(n.func, ast.Attribute) and ast.unparse(n.func) in ('sys.stdout.write', 'sys.stderr.write', 'sys.stdout.flush', 'sys.stderr.flush'):
            if n.func.attr == 'write' and 'stdout' in ast.unparse(n.func):
                self.stdout.append(str(lit.ev(n.args[0])))
            return FOLDED_NONE
        if isinstance(n, ast.Name) and n.id in ('ROM128', 'ROM_PLUS2', 'ROM48') and n.id not in lit.env:
            return ('rom-a', 'rom-b')
        if isinstance(n, ast.Call) and isinstance(n.func, ast.Attribute) and isinstance(n.func.value, ast.Name) and n.func.value.id == 'textwrap' and n.func.attr == 'TextWrapper':
            return TW(**lit._kw(n.keywords))
        return self.comp(n, lit)
    hook.wants_lit = True
    hook.override_names = ('ROM128', 'ROM_PLUS2', 'ROM48')

    def sna2skool(self, snap, ctl_lines, start, end, base=10, case=2, line_width=79, ctl_range=None, handle_rst=0, **config):
        self.lines, self.warnings = [], []
        self.files['in.ctl'] = [l + '\n' for l in ctl_lines]
        cfc = self.cf.sibling('ctlparser')
        ctl = cfc.new('CtlParser')
        cfc.call(ctl, 'parse_ctls', ['in.ctl'], *(ctl_range or (start, end)))
        cfg = dict(self.defaults)
        cfg.update(config)
        cfg['HandleRST'] = handle_rst
        options = Rec(comments=0, line_width=line_width, base=base, case=case, handle_rst=handle_rst)
        w = self.cf.new('SkoolWriter', snap, ctl, options, cfg)
        self.cf.call(w, 'write_skool')
        return list(self.lines)

    def skool2bin(self, skool_lines):
        self.files['in.skool'] = [l + '\n' for l in skool_lines]
        cfb = self.cf.sibling('skool2bin')
        bw = cfb.new('BinWriter', 'in.skool')
        cfb.call(bw, 'write', 'out.bin')
        return bw.base_address, bytes(self.sink['out.bin'])

# ------------------------------------------------------------------------------------------------------------------------- generator
# (bytes with None = operand byte, is a VARIANT encoding)
CODE = [([0x00], 0), ([0x3E, None], 0), ([0x01, None, None], 0), ([0x21, None, None], 0), ([0xC3, None, None], 0), ([0xCD, None, None], 0), ([0x18, None], 0), ([0x10, None], 0),
        ([0xC9], 0), ([0xAF], 0), ([0xD3, None], 0), ([0xDB, None], 0), ([0xCF], 0), ([0xFF], 0), ([0xCB, 0x47], 0), ([0xED, 0xB0], 0), ([0xED, 0x43, None, None], 0),
        ([0xDD, 0x36, None, None], 0), ([0xFD, 0x7E, None], 0), ([0xDD, 0xCB, None, 0x46], 0), ([0xDD, 0x21, None, None], 0), ([0x36, None], 0), ([0xFE, None], 0), ([0x06, None], 0),
        ([0xED, 0x4C], 1), ([0xED, 0x63, None, None], 1), ([0xDD, 0xCB, None, 0x47], 1)]

def gen_case(rnd, allow_variants):
    start = rnd.choice((32768, 40000, 16384, 60000))
    snap = [0] * 65536
    ctl = []
    a = start
    nblocks = rnd.randrange(1, 5)
    for bi in range(nblocks):
        kind = rnd.choice('ccbbtswgu')
        block_start = a
        ctl.append('%s %d Block %d' % (kind, a, bi))
        if kind == 'c':
            n = rnd.randrange(1, 7)
            sub_at = None
            for k in range(n):
                ins, variant = rnd.choice(CODE)
                if variant and not allow_variants:
                    ins, variant = [0x00], 0
                if rnd.random() < 0.25 and sub_at is None:
                    sub_at = a
                    pfx = rnd.choice(('b', 'c', 'd', 'h', 'm', 'n', 'hb', 'nb', 'dh'))
                    ctl.append('C %d,%s%d' % (a, pfx, len(ins)))
                    opnd = [rnd.choice((0, 1, 33, 65, 127, 128, 200, 255)) for _ in ins]
                else:
                    opnd = [rnd.randrange(256) for _ in ins]
                for x, o in zip(ins, opnd):
                    snap[a] = o if x is None else x
                    a += 1
        elif kind in 'bgu':
            n = rnd.randrange(1, 21)
            for k in range(n):
                snap[a + k] = rnd.choice((0, 1, 34, 65, 92, 127, 128, 200, 255, rnd.randrange(256)))
            form = rnd.randrange(5)
            if form == 1:
                ctl.append('B %d,%d,%d' % (a, n, rnd.randrange(1, 6)))
            elif form == 2:
                k1 = rnd.randrange(1, n + 1)
                ctl.append('B %d,%d,%s%d,%s%d' % (a, n, rnd.choice('bcdhmn'), k1, rnd.choice('bdhmn'), rnd.randrange(1, 4)))
            elif form == 3 and n >= 4:
                ctl.append('B %d,%d,1*2,%s2' % (a, n, rnd.choice('bdh')))
            elif form == 4 and n >= 3:
                ctl.append('B %d,%s%d,1:%s1,1' % (a, rnd.choice('bdh'), n, rnd.choice('bdhc')))
            a += n
        elif kind == 't':
            n = rnd.randrange(1, 30)
            for k in range(n):
                snap[a + k] = rnd.choice((32, 65, 66, 97, 34, 92, 94, 96, 127, 200, 13, rnd.randrange(32, 127)))
            if rnd.random() < 0.4:
                ctl.append('T %d,%d,%d' % (a, n, rnd.randrange(1, 9)))
            a += n
        elif kind == 's':
            n = rnd.randrange(1, 40)
            v = rnd.choice((0, 0, 255, 65))
            for k in range(n):
                snap[a + k] = v
            if rnd.random() < 0.5:
                ctl.append('S %d,%s%d' % (a, rnd.choice(('', 'b', 'd', 'h', 'm')), n))
            elif rnd.random() < 0.5 and n >= 4 and n % 2 == 0:
                ctl.append('S %d,%d,%d:%s' % (a, n, n // 2, rnd.choice('bcdhn')))
            a += n
        elif kind == 'w':
            n = 2 * rnd.randrange(1, 9)
            for k in range(n):
                snap[a + k] = rnd.randrange(256)
            if rnd.random() < 0.5:
                ctl.append('W %d,%d,%s%d' % (a, n, rnd.choice(('', 'b', 'd', 'h', 'm')), 2 * rnd.randrange(1, 3)))
            a += n
        if rnd.random() < 0.2 and kind in 'bgut' and not any(l.startswith(('B', 'T')) for l in ctl[-1:]):
            ctl.append('M %d,%d A comment over the block' % (block_start, a - block_start))
    ctl.append('i %d' % a)
    return snap, ctl, start, a

def run(ctx, repo):
    n = 300 if ctx.tier == 'thorough' else 45
    ctx.rule('C01.7-pipeline', 'sna2skool -> skool2bin folded end to end on %d model (memory, control file, options) triples: the reassembled image equals the original bytes of the range' % n, floor=n - 5)
    rnd = random.Random(107 + ctx.seed)
    P = Pipeline(repo)
    where = 'skoolkit/snaskool.py, skoolkit/disassembler.py, skoolkit/skool2bin.py, skoolkit/z80.py'
    seen = set()
    for k in range(n):
        variants = k % 5 == 0
        snap, ctl, start, end = gen_case(rnd, variants)
        opts = dict(base=rnd.choice((10, 16)), case=rnd.choice((1, 2)), line_width=rnd.choice((79, 60, 120)))
        cfg = dict(DefbSize=rnd.choice((8, 1, 3)), DefmSize=rnd.choice((65, 5)), DefwSize=rnd.choice((1, 2)), Opcodes='ALL' if variants else '')
        name = 'case %d: ctl %s, options %s %s' % (k, ctl, opts, cfg)
        try:
            skool = P.sna2skool(snap, ctl, start, end, **opts, **cfg)
            base, image = P.skool2bin(skool)
        except NotLiteral as e:
            ctx.limit('pipeline', 'not foldable (%s): %s' % (name[:120], e))
            continue
        except (KeyError, IndexError, ValueError, TypeError, AttributeError, NameError, ZeroDivisionError) as e:
            key = '%s: %s' % (type(e).__name__, str(e)[:60])
            if key not in seen:
                seen.add(key)
                ctx.violation('pipeline failure', where, '%s with %s on bytes %s (%s)' % ('sna2skool or skool2bin fails', key, snap[start:end], name))
            continue
        want = bytes(snap[start:end])
        if base != start or image != want:
            i = next((i for i, (x, y) in enumerate(zip(image, want)) if x != y), min(len(image), len(want)))
            block = [l for l in ctl if l[0] != 'i' and int(l.split()[1].split(',')[0]) <= start + i][-1]
            kind = block.split()[0]
            key = 'block type %s' % kind
            if key not in seen:
                seen.add(key)
                text = [l for l in skool if l[:1] in 'bcgstuw @' ]
                ctx.violation('pipeline ' + key, where, 'the image skool2bin writes (base %d, %d bytes) differs from the original %d bytes at %d from offset %d (inside `%s`): original %s, reassembled %s; %s; skool file: %s; warnings: %s' %
                              (base, len(image), len(want), start, i, block, list(want[i:i + 6]), list(image[i:i + 6]), name, text[:12], P.warnings[:2]))
        else:
            ctx.ok({'case': k, 'ctl': ctl[:4], 'bytes': len(want)} if k % 10 == 0 else None)


def rst_rule(ctx, repo):
    """C01.8 (*fold*): HandleRST.  RST 8 followed by its argument byte, in the middle of code, as the last two bytes of memory, and as the
    very last byte of memory (no room for an argument): the skool file sna2skool -r writes reassembles to the original bytes."""
    ctx.rule('C01.8-rst', 'sna2skool with HandleRST (-r) -> skool2bin folded on images with RST 8 and its argument in the middle of code and at the top of memory: the reassembled image equals the original bytes', floor=5)
    P = Pipeline(repo)
    where = 'skoolkit/rst.py, skoolkit/disassembler.py, skoolkit/snaskool.py'
    cases = [('RST 8 + argument inside code', 40000, [0x00, 0xCF, 0x07, 0xAF, 0xC9]),
             ('RST 8 + argument, then RST 16 (no argument configured)', 40000, [0xCF, 0xFF, 0xD7, 0xC9]),
             ('RST 8 at 65534, argument at 65535', 65530, [0x00, 0x00, 0x00, 0xC9, 0xCF, 0x41]),
             ('RST 8 at 65535 (no room for its argument)', 65532, [0x3E, 0x01, 0x00, 0xCF]),
             ('RST 8 directly before a data block', 50000, [0xCF, 0x05, 0xC9, 1, 2, 3])]
    for name, start, data in cases:
        snap = [0] * 65536
        snap[start:start + len(data)] = data
        end = start + len(data)
        ctl = ['c %d' % start] + (['b %d' % (start + 3)] if 'data block' in name else []) + (['i %d' % end] if end < 65536 else [])
        for base in (10, 16):
            try:
                skool = P.sna2skool(snap, ctl, start, end, base=base, handle_rst=1, ctl_range=(0, 65536))
                org, image = P.skool2bin(skool)
            except NotLiteral as e:
                ctx.limit('rst', 'not foldable (%s): %s' % (name, e))
                continue
            except (KeyError, IndexError, ValueError, TypeError, AttributeError) as e:
                ctx.violation('rst ' + name, where, 'sna2skool -r / skool2bin fails with %s: %s on bytes %s at %d' % (type(e).__name__, e, data, start))
                break
            text = [l for l in skool if l[:1] in 'bc ' and l.strip()]
            if org != start or image != bytes(data):
                ctx.violation('rst ' + name, where, 'sna2skool -r on bytes %s at %d writes %s; skool2bin gives %d bytes at %d: %s%s' % (data, start, text, len(image), org, list(image), '; warnings %s' % P.warnings[:2] if P.warnings else ''))
                break
            if any(int(l[1:].split()[0].lstrip('$'), 16 if l[1] == '$' else 10) > 65535 for l in text):
                ctx.violation('rst ' + name, where, 'sna2skool -r on bytes %s at %d writes a statement beyond the top of memory: %s' % (data, start, text))
                break
        else:
            ctx.ok({'case': name})
