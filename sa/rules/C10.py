"""C10 - saving a snapshot mid-run and resuming is transparent (state-flow completeness)."""
import ast
from sa.core import pyfacts, report, cfacts, tabulate
from sa.core.pyfacts import Lit, NotLiteral, FactError

EXPLANATION = (
    "Decides that every piece of machine state the simulator carries reaches the snapshot and comes back into the right place: (1) each "
    "register slot of simutils (A..L, IX, IY, SP, I, R, shadow set, PC, T, IFF, IM, HALT, MEMPTR) is read by get_state; (2) each hardware "
    "attribute a port-write handler updates (border, outfe, out7ffd, outfffd, ay) is exported; (3) every attribute the snapshot readers load is "
    "consumed by from_snapshot / trace.run under the matching register or state name, and get_registers stores each name in the slot(s) the "
    "export read it from; (4) all sites that compute the time of the next frame interrupt (trace.py, loadtracer.py, simulator.run, and the C "
    "run loops) are the same function of (T, frame length, interrupt length) - folded over a dense set of frame positions - so a resumed run "
    "schedules interrupts like an uninterrupted one; (5) the T-state codecs keep the frame position (shared with C09) and the 0x7FFD latch is "
    "recorded exactly when paging happens (shared with C08). Not decided: equality of final states for all programs and split points.")

def get_state_facts(repo):
    su = repo.mod('simutils')
    gs = su.func('get_state')
    consts = {}
    for name, vals in su.assigns.items():
        v = vals[-1]
        if isinstance(v, ast.Constant) and isinstance(v.value, int) and not isinstance(v.value, bool):
            consts[name] = v.value
    exported = {}      # key -> (expr node, slots read, tracer attrs read)
    for n in ast.walk(gs):
        if isinstance(n, ast.JoinedStr):
            text = ''
            exprs = []
            for v in n.values:
                if isinstance(v, ast.Constant):
                    text += v.value
                else:
                    text += '{}'
                    exprs.append(v.value)
            if '=' not in text:
                continue
            key = text.split('=')[0]
            slots = []
            attrs = []
            for x in ast.walk(exprs[-1]):
                if isinstance(x, ast.Subscript) and ast.unparse(x.value).endswith('registers'):
                    try:
                        slots.append(Lit(repo, 'simutils').ev(x.slice))
                    except NotLiteral:
                        pass
                if isinstance(x, ast.Attribute) and ast.unparse(x.value) in ('simulator.tracer', 'simulator.memory'):
                    attrs.append(x.attr)
            exported[key] = (exprs[-1], slots, attrs, n.lineno)
    # border goes through a local
    for n in ast.walk(gs):
        if isinstance(n, ast.Assign) and ast.unparse(n.value) == 'simulator.tracer.border':
            if 'border' in exported:
                exported['border'][2].append('border')
    # ay: enumerate(simulator.tracer.ay)
    for n in ast.walk(gs):
        if isinstance(n, ast.GeneratorExp) and 'simulator.tracer.ay' in ast.unparse(n):
            for k in exported:
                if k.startswith('ay['):
                    exported[k][2].append('ay')
    return su, gs, consts, exported

def slot_rule(ctx, repo):
    ctx.rule('C10.1-slots', 'every simulator register slot is exported by get_state', floor=25)
    su, gs, consts, exported = get_state_facts(repo)
    need = {}
    for name in ('A', 'F', 'B', 'C', 'D', 'E', 'H', 'L', 'IXh', 'IXl', 'IYh', 'IYl', 'SP', 'I', 'R', 'xA', 'xF', 'xB', 'xC', 'xD', 'xE', 'xH', 'xL', 'PC', 'T', 'IFF', 'IM', 'HALT', 'MEMPTR'):
        if name not in consts:
            raise FactError('skoolkit/simutils.py: register index %s not found' % name)
        need[name] = consts[name]
    read = {}
    for key, (expr, slots, attrs, line) in exported.items():
        for s in slots:
            read.setdefault(s, key)
    for name, slot in need.items():
        if slot in read:
            ctx.ok({'slot': '%s (%d)' % (name, slot), 'exported as': read[slot]})
        else:
            ctx.violation('slot ' + name, 'skoolkit/simutils.py:%d' % gs.lineno,
                          'register slot %s (index %d) is carried by the simulator but never exported by get_state: a snapshot taken mid-run loses it' % (name, slot))
    # pair order: NAME=lo + 256*hi must use the (lo, hi) slots of that pair
    ctx.rule('C10.1-pairs', 'register pairs are exported from, and restored into, the same two slots in the same order', floor=8)
    PAIRS = {'BC': ('C', 'B'), 'DE': ('E', 'D'), 'HL': ('L', 'H'), 'IX': ('IXl', 'IXh'), 'IY': ('IYl', 'IYh'), '^BC': ('xC', 'xB'), '^DE': ('xE', 'xD'), '^HL': ('xL', 'xH')}
    regmap = Lit(repo, 'simutils').ev(su.assigns['REGISTERS'][-1])
    for key, (lo, hi) in PAIRS.items():
        if key not in exported:
            ctx.violation('pair ' + key, 'skoolkit/simutils.py', 'get_state does not export %s' % key)
            continue
        expr = exported[key][0]
        want = '%s+256*%s' % ('simulator.registers[%s]' % lo, 'simulator.registers[%s]' % hi)
        problems = []
        if ast.unparse(expr).replace(' ', '') != want:
            problems.append('exported as %s, expected %s' % (ast.unparse(expr), want))
        # get_registers: rh = REGISTERS[...]; registers[rh] = value // 256; registers[rh + 1] = value % 256  => hi slot + 1 == lo slot
        if consts[hi] + 1 != consts[lo]:
            problems.append('slots of %s/%s are %d/%d; get_registers stores the low byte at high+1' % (hi, lo, consts[hi], consts[lo]))
        first = key.lstrip('^')[0] if not key.startswith('I') else key + 'h'
        lookup = ('^' + first) if key.startswith('^') else first
        if regmap.get(lookup) != consts[hi]:
            problems.append('REGISTERS[%r] = %s but the high byte lives in slot %d' % (lookup, regmap.get(lookup), consts[hi]))
        if problems:
            ctx.violation('pair ' + key, 'skoolkit/simutils.py:%d' % exported[key][3], '; '.join(problems))
        else:
            ctx.ok({'pair': key, 'slots': [consts[lo], consts[hi]]})
    gr = su.func('get_registers')
    src = ast.unparse(gr)
    for slot, skey in (('IM', 'im'), ('IFF', 'iff'), ('T', 'tstates'), ('HALT', 'halted')):
        if "registers[%s] = state.get('%s'" % (slot, skey) in src:
            ctx.ok({'state key': skey, 'slot': slot})
        else:
            ctx.violation('get_registers ' + skey, 'skoolkit/simutils.py:%d' % gr.lineno, 'state key %s is not restored into slot %s' % (skey, slot))

def hardware_rule(ctx, repo):
    ctx.rule('C10.2-hardware', 'every hardware attribute updated by a port-write handler is exported by get_state', floor=5)
    su, gs, consts, exported = get_state_facts(repo)
    exp_attrs = set()
    for key, (expr, slots, attrs, line) in exported.items():
        exp_attrs.update(attrs)
    pt = repo.mod('pagingtracer')
    found = set()
    for fn in pt.methods('PagingTracer').values():
        if 'port' not in [a.arg for a in fn.args.args]:
            continue
        for n in ast.walk(fn):
            tgs = []
            if isinstance(n, ast.Assign): tgs = n.targets
            elif isinstance(n, ast.AugAssign): tgs = [n.target]
            for t in tgs:
                if isinstance(t, ast.Attribute) and isinstance(t.value, ast.Name) and t.value.id == 'self':
                    found.add(t.attr)
                if isinstance(t, ast.Subscript) and isinstance(t.value, ast.Attribute) and isinstance(t.value.value, ast.Name) and t.value.value.id == 'self':
                    found.add(t.value.attr)
            if isinstance(n, ast.Call) and isinstance(n.func, ast.Attribute) and n.func.attr == 'append' and isinstance(n.func.value, ast.Attribute):
                found.add(n.func.value.attr)
    if len(found) < 5:
        raise FactError('skoolkit/pagingtracer.py: expected PagingTracer port handlers to update at least 5 attributes, found %s' % sorted(found))
    ALIAS = {'out7ffd': 'o7ffd'}   # the latch value is exported from the Memory object, which receives the same value (C08.3)
    for a in sorted(found):
        if a in exp_attrs or ALIAS.get(a) in exp_attrs:
            ctx.ok({'attribute': a})
        else:
            ctx.violation('tracer.' + a, 'skoolkit/simutils.py:%d' % gs.lineno, 'port writes update tracer.%s but get_state does not export it' % a)

def return_rule(ctx, repo):
    ctx.rule('C10.3-return', 'every attribute the snapshot readers load is consumed on resume under the matching name', floor=25)
    su = repo.mod('simutils')
    fs = su.func('from_snapshot')
    sn = repo.mod('snapshot')
    loaded = set()
    for cls, fn in (('Z80', '_read'), ('SZX', '_read')):
        for n in ast.walk(sn.method(cls, fn)):
            if isinstance(n, ast.Assign) and isinstance(n.targets[0], ast.Attribute) and isinstance(n.targets[0].value, ast.Name) and n.targets[0].value.id == 'self':
                loaded.add(n.targets[0].attr)
    loaded -= {'header', 'tail', 'memory', 'machine', 'blocks', 'type', 'iff2'}
    consumed = {}
    for modname, fn in (('simutils', fs), ('trace', repo.mod('trace').func('run'))):
        for n in ast.walk(fn):
            if isinstance(n, ast.Attribute) and isinstance(n.value, ast.Name) and n.value.id == 'snapshot':
                consumed.setdefault(n.attr, modname)
    for a in sorted(loaded):
        if a in consumed:
            ctx.ok({'attribute': a, 'consumed in': consumed[a]})
        else:
            ctx.violation('snapshot.' + a, 'skoolkit/simutils.py:%d' % fs.lineno, 'readers load snapshot.%s but neither from_snapshot nor trace.run uses it when resuming' % a)
    # name correspondence in from_snapshot: 'BC': snapshot.bc, '^BC': snapshot.bc2, 'MEMPTR': snapshot.memptr ...
    for n in ast.walk(fs):
        if isinstance(n, ast.Dict):
            for k, v in zip(n.keys, n.values):
                if isinstance(k, ast.Constant) and isinstance(v, ast.Attribute) and isinstance(v.value, ast.Name) and v.value.id == 'snapshot':
                    key = k.value
                    want = key.lower().lstrip('^') + ('2' if key.startswith('^') else '')
                    if key == 'iff': want = 'iff1'
                    if v.attr != want:
                        ctx.violation('from_snapshot ' + key, 'skoolkit/simutils.py:%d' % v.lineno, "register %s is restored from snapshot.%s, expected snapshot.%s" % (key, v.attr, want))
                    else:
                        ctx.ok({'key': key, 'from': 'snapshot.' + v.attr})
    # trace.run: hardware state defaults come from the snapshot attribute of the same meaning
    tr = repo.mod('trace').func('run')
    WANT = {'border': ('border', 'border'), 'out7ffd': ('7ffd', 'out7ffd'), 'outfffd': ('fffd', 'outfffd'), 'outfe': ('fe', 'outfe')}
    for n in ast.walk(tr):
        if isinstance(n, ast.Assign) and isinstance(n.targets[0], ast.Name) and n.targets[0].id in WANT and isinstance(n.value, ast.Call) \
           and ast.unparse(n.value.func) == 'state.get' and len(n.value.args) == 2 and 'snapshot.' in ast.unparse(n.value.args[1]):
            skey, attr = WANT[n.targets[0].id]
            got = (n.value.args[0].value, ast.unparse(n.value.args[1]).split('.')[-1])
            if got != (skey, attr):
                ctx.violation('trace.run ' + n.targets[0].id, 'skoolkit/trace.py:%d' % n.lineno, '%s is initialised from state[%r] / snapshot.%s, expected state[%r] / snapshot.%s' % (n.targets[0].id, got[0], got[1], skey, attr))
            else:
                ctx.ok({'variable': n.targets[0].id, 'from': 'snapshot.' + attr})

def _py_next_int_sites(repo):
    sites = []
    for modname in ('trace', 'loadtracer', 'kbtracer', 'rzxplay', 'simulator', 'skoolmacro', 'tap2sna'):
        mod = repo.mod(modname)
        for n in ast.walk(mod.tree):
            if isinstance(n, ast.Assign) and len(n.targets) == 1:
                src = ast.unparse(n.value)
                tgt = ast.unparse(n.targets[0])
                if ('int_active' in src or tgt in ('next_int', 'state[8]')) and '//' in src and 'frame_duration' in src and '*' in src:
                    sites.append((mod, n))
    return sites

class _Sub(ast.NodeTransformer):
    """Replace every leaf by fd / ia / T according to its name."""
    def leaf(self, node):
        s = ast.unparse(node)
        if s.endswith('frame_duration'):
            return ast.copy_location(ast.Name(id='fd', ctx=ast.Load()), node)
        if s.endswith('int_active'):
            return ast.copy_location(ast.Name(id='ia', ctx=ast.Load()), node)
        return ast.copy_location(ast.Name(id='T', ctx=ast.Load()), node)
    def visit_Name(self, node): return self.leaf(node)
    def visit_Attribute(self, node): return self.leaf(node)
    def visit_Subscript(self, node): return self.leaf(node)

def _c_eval(n, T, fd, ia):
    n = cfacts.strip(n)
    k = n.get('kind')
    if k == 'IntegerLiteral':
        return int(n['value'])
    if k == 'MemberExpr':
        if n.get('name') == 'frame_duration': return fd
        if n.get('name') == 'int_active': return ia
        return T
    if k == 'DeclRefExpr':
        if n['ref'] == 'frame_duration': return fd
        if n['ref'] == 'int_active': return ia
        return T
    if k == 'ArraySubscriptExpr':
        return T
    if k == 'BinaryOperator':
        a = _c_eval(n['inner'][0], T, fd, ia)
        b = _c_eval(n['inner'][1], T, fd, ia)
        op = n['opcode']
        if op == '+': return a + b
        if op == '-': return a - b
        if op == '*': return a * b
        if op == '/': return a // b
        if op == '%': return a % b
    raise FactError('c/csimulator.c: next-interrupt expression uses %s' % k)

def next_int_rule(ctx, repo):
    ctx.rule('C10.4-next-int', 'all sites computing the next frame-interrupt time are the same function of (T, frame, int length): smallest frame start m with m + int > T', floor=10)
    def ref(T, fd, ia):
        m = (T // fd) * fd
        return m if T < m + ia else m + fd
    samples = []
    for fd, ia in ((69888, 32), (70908, 36)):
        ts = set()
        for base in (0, fd, 5 * fd, 300 * fd):
            for d in (list(range(-3, 80)) + list(range(fd - 80, fd + 3)) + [fd // 2]) if ctx.tier != 'thorough' else range(-3, fd + 3):
                if base + d >= 0:
                    ts.add(base + d)
        samples.append((fd, ia, sorted(ts)))
    sites = _py_next_int_sites(repo)
    for mod, n in sites:
        expr = _Sub().visit(ast.parse(ast.unparse(n.value), mode='eval').body)
        ast.fix_missing_locations(expr)
        f = tabulate._py(expr, None)
        bad = None
        for fd, ia, ts in samples:
            for T in ts:
                got = f({'T': T, 'fd': fd, 'ia': ia})
                if got != ref(T, fd, ia):
                    bad = (T, fd, ia, got, ref(T, fd, ia))
                    break
            if bad:
                break
        where = '%s:%d' % (mod.relpath, n.lineno)
        if bad:
            ctx.violation('next_int %s' % where, where, 'next interrupt time `%s` gives %d at T=%d (frame %d, int %d); the other sites and the definition give %d: an interrupt is skipped or repeated after a resume' %
                          (ast.unparse(n.value)[:90], bad[3], bad[0], bad[1], bad[2], bad[4]))
        else:
            ctx.ok({'site': where, 'expr': ast.unparse(n.value)[:80]})
    # Simulator.run: if T < frame_start + int_active: next_int = frame_start else frame_start + frame_duration
    run = repo.mod('simulator').method('Simulator', 'run')
    src = ast.unparse(run)
    want = ['frame_start = registers[25] // frame_duration * frame_duration', 'if registers[25] < frame_start + int_active:', 'next_int = frame_start', 'next_int = frame_start + frame_duration']
    if all(w in src for w in want):
        ctx.ok({'site': 'Simulator.run', 'form': 'frame_start if T < frame_start + int_active else frame_start + frame_duration'})
    else:
        ctx.violation('next_int Simulator.run', 'skoolkit/simulator.py:%d' % run.lineno, 'Simulator.run no longer initialises next_int as the first frame start m with m + int_active > T')
    # C sites: self->tracer_state[8] = ...
    from sa.core import cfacts as cf
    facts = cf.load(repo.root)
    u = cf.CUnit(facts['plain'])
    csites = []
    def scan(n, fname):
        if n.get('kind') == 'BinaryOperator' and n.get('opcode') == '=':
            lhs = cf.strip(n['inner'][0])
            if lhs.get('kind') == 'ArraySubscriptExpr':
                b = cf.strip(lhs['inner'][0]); i = cf.strip(lhs['inner'][1])
                if b.get('kind') == 'MemberExpr' and b.get('name') == 'tracer_state' and i.get('kind') == 'IntegerLiteral' and i['value'] == '8':
                    csites.append((fname, n))
        for c in n.get('inner', []):
            scan(c, fname)
    for name, fn in u.funcs.items():
        scan(fn, name)
    for fname, n in csites:
        bad = None
        for fd, ia, ts in samples:
            for T in ts:
                got = _c_eval(n['inner'][1], T, fd, ia)
                if got != ref(T, fd, ia):
                    bad = (T, fd, ia, got, ref(T, fd, ia))
                    break
            if bad:
                break
        where = 'c/csimulator.c:%d (%s)' % (n.get('line', 0), fname)
        if bad:
            ctx.violation('next_int C %s line %d' % (fname, n.get('line', 0)), where, 'next interrupt time gives %d at T=%d (frame %d, int %d); expected %d' % (bad[3], bad[0], bad[1], bad[2], bad[4]))
        else:
            ctx.ok({'site': where})
    if len(sites) < 4 or len(csites) < 3:
        raise FactError('expected at least 4 Python and 3 C next-interrupt sites, found %d / %d' % (len(sites), len(csites)))

def run(ctx):
    repo = pyfacts.Repo(ctx.repo_root)
    slot_rule(ctx, repo)
    hardware_rule(ctx, repo)
    return_rule(ctx, repo)
    next_int_rule(ctx, repo)
    from sa.rules import C09, C08paging
    C09.tstates_rule(ctx, repo, repo.mod('snapshot'))
    C08paging.python_sites(ctx, repo, rule='C10.5-latch', floor=8)
    return report.finish(ctx, EXPLANATION)
