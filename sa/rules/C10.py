"""C10 - saving a snapshot mid-run and resuming is transparent (state-flow completeness)."""
import ast
from sa.core import pyfacts, report, cfacts, tabulate
from sa.core.pyfacts import Lit, NotLiteral, FactError

EXPLANATION = (
    "Decides that every piece of machine state the simulator carries reaches the snapshot and comes back into the right place: (1) each "
    "register slot of simutils (A..L, IX, IY, SP, I, R, shadow set, PC, T, IFF, IM, HALT, MEMPTR) is read by get_state; (2) each hardware "
    "attribute a port-write handler updates (border, outfe, out7ffd, outfffd, ay) is exported; (3) every attribute the snapshot readers load is "
    "consumed by from_snapshot / trace.run under the matching register or state name, and get_registers stores each name in the slot(s) the "
    "export read it from; (4) all sites that compute the time of the next frame interrupt (trace.py, loadtracer.py, simulator.run, and the C "
    "run loops) are the same function of (T, frame length, interrupt length) - folded over a dense set of frame positions - so a resumed run "
    "schedules interrupts like an uninterrupted one; (5) the T-state codecs keep the frame position (shared with C09) and the 0x7FFD latch is "
    "recorded exactly when paging happens (shared with C08). Not decided: equality of final states for all programs and split points.")

class _Model:
    _sa_fold_ok = True
    _sa_model = True
    def __init__(self, **kw):
        self.__dict__.update(kw)

def get_state_facts(repo):
    """What simutils.get_state exports, read off by folding it on a model simulator whose register slots and hardware attributes hold
    distinct marker values (48K: memory is a list; 128K: a pagingtracer.Memory): key -> (None, register slots read, attributes read, line,
    exported without loss).  Independent of how get_state is written."""
    from sa.core.classfold import ClassFolder, Inst
    su = repo.mod('simutils')
    gs = su.func('get_state')
    consts = {}
    for name, vals in su.assigns.items():
        v = vals[-1]
        if isinstance(v, ast.Constant) and isinstance(v.value, int) and not isinstance(v.value, bool):
            consts[name] = v.value
    cf = ClassFolder(repo, 'simutils')
    BIG = 100000
    def run(regs, tr, mem):
        r = cf.call_func('simutils', 'get_state', [_Model(registers=regs, tracer=tr, memory=mem)])
        out = {}
        for item in list(r[1]) + list(r[2]):
            k, _, v = str(item).partition('=')
            out[k] = int(v)
        return out
    def memory128():
        m = Inst('pagingtracer', 'Memory', cf.sibling('pagingtracer'))
        m.banks = [[b] * 4 for b in range(8)]
        m.o7ffd = 0x17
        m.machine = '128K'
        return m
    regs = [3 + k for k in range(30)]
    wide = [k for k in range(30) if k in (consts.get('SP'), consts.get('PC'), consts.get('T'), consts.get('MEMPTR'))]
    for k in wide:
        regs[k] = BIG + k
    attrs = {'border': 5, 'outfe': 0x9A, 'outfffd': 0x0B}
    ay = [0xA0 + k for k in range(16)]
    try:
        got = run(list(regs), _Model(ay=list(ay), **attrs), memory128())
        got48 = run(list(regs), _Model(ay=list(ay), **attrs), [0] * 65536)
        got_list_border = run(list(regs), _Model(ay=list(ay), border=[(0, 1), (9, 0xFE)], outfe=0x9A, outfffd=0x0B), [0] * 65536)
        big = [255] * 30
        for k in wide:
            big[k] = 2 ** 40 + 12345 + k
        mem_big = memory128()
        mem_big.o7ffd = 0xFF
        got_big = run(big, _Model(ay=[255] * 16, border=7, outfe=255, outfffd=255), mem_big)
    except NotLiteral as e:
        raise FactError('skoolkit/simutils.py: get_state is not foldable (%s)' % e)
    exported = {}
    for key, v in got.items():
        slots, at = [], []
        if v >= BIG and v - BIG in wide:
            slots = [v - BIG]
        elif key.startswith('ay[') and v in ay:
            at = ['ay']
        elif key == '7ffd' and v == 0x17:
            at = ['o7ffd']
        else:
            named = [a for a, x in attrs.items() if x == v]
            lo, hi = v % 256 - 3, v // 256 - 3
            if 0 <= v - 3 < 30 and v - 3 not in wide and not (named and key in ('border', 'fe', 'fffd')):
                slots = [v - 3]
            elif named:
                at = named[:1]
            elif v >= 256 and 0 <= lo < 30 and 0 <= hi < 30:
                slots = [lo, hi]
        if key == 'border' and got_list_border.get('border') != (0xFE & 7):
            at = []
        want_big = None
        if slots:
            want_big = big[slots[0]] if len(slots) == 1 else big[slots[0]] + 256 * big[slots[1]]
        if want_big is None and at:
            want_big = 7 if at[0] == 'border' else 255          # every hardware attribute at its largest value
        exact = want_big is None or got_big.get(key) == want_big
        exported[key] = (None, slots, at, gs.lineno, exact)
    for key in got48:
        if key not in exported:
            exported[key] = (None, [], [], gs.lineno, True)
    return su, gs, consts, exported

def slot_rule(ctx, repo):
    ctx.rule('C10.1-slots', 'every simulator register slot is exported by get_state', floor=25)
    su, gs, consts, exported = get_state_facts(repo)
    need = {}
    for name in ('A', 'F', 'B', 'C', 'D', 'E', 'H', 'L', 'IXh', 'IXl', 'IYh', 'IYl', 'SP', 'I', 'R', 'xA', 'xF', 'xB', 'xC', 'xD', 'xE', 'xH', 'xL', 'PC', 'T', 'IFF', 'IM', 'HALT', 'MEMPTR'):
        if name not in consts:
            raise FactError('skoolkit/simutils.py: register index %s not found' % name)
        need[name] = consts[name]
    read = {}
    for key, (expr, slots, attrs, line, exact) in exported.items():
        for s in slots:
            read.setdefault(s, key)
    for name, slot in need.items():
        if slot in read:
            ctx.ok({'slot': '%s (%d)' % (name, slot), 'exported as': read[slot]})
        else:
            ctx.violation('slot ' + name, 'skoolkit/simutils.py:%d' % gs.lineno,
                          'register slot %s (index %d) is carried by the simulator but never exported by get_state: a snapshot taken mid-run loses it' % (name, slot))
    # pair order: NAME=lo + 256*hi must use the (lo, hi) slots of that pair
    ctx.rule('C10.1-pairs', 'register pairs are exported from, and restored into, the same two slots in the same order', floor=8)
    PAIRS = {'BC': ('C', 'B'), 'DE': ('E', 'D'), 'HL': ('L', 'H'), 'IX': ('IXl', 'IXh'), 'IY': ('IYl', 'IYh'), '^BC': ('xC', 'xB'), '^DE': ('xE', 'xD'), '^HL': ('xL', 'xH')}
    regmap = Lit(repo, 'simutils').ev(su.assigns['REGISTERS'][-1])
    for key, (lo, hi) in PAIRS.items():
        if key not in exported:
            ctx.violation('pair ' + key, 'skoolkit/simutils.py', 'get_state does not export %s' % key)
            continue
        problems = []
        if exported[key][1] != [consts[lo], consts[hi]]:
            problems.append('exported from slots %s (low, high), expected %s' % (exported[key][1], [consts[lo], consts[hi]]))
        # get_registers: rh = REGISTERS[...]; registers[rh] = value // 256; registers[rh + 1] = value % 256  => hi slot + 1 == lo slot
        if consts[hi] + 1 != consts[lo]:
            problems.append('slots of %s/%s are %d/%d; get_registers stores the low byte at high+1' % (hi, lo, consts[hi], consts[lo]))
        first = key.lstrip('^')[0] if not key.startswith('I') else key + 'h'
        lookup = ('^' + first) if key.startswith('^') else first
        if regmap.get(lookup) != consts[hi]:
            problems.append('REGISTERS[%r] = %s but the high byte lives in slot %d' % (lookup, regmap.get(lookup), consts[hi]))
        if problems:
            ctx.violation('pair ' + key, 'skoolkit/simutils.py:%d' % exported[key][3], '; '.join(problems))
        else:
            ctx.ok({'pair': key, 'slots': [consts[lo], consts[hi]]})
    # get_registers restores each state key into its slot and each register pair into the slots it was exported from: folded on marker values
    from sa.core.classfold import ClassFolder
    cf = ClassFolder(repo, 'simutils')
    gr = su.func('get_registers')
    try:
        regs = list(cf.call_func('simutils', 'get_registers', [{}, {'im': 2, 'iff': 1, 'tstates': 123456789012, 'halted': 1}, False]))
    except NotLiteral as e:
        raise FactError('skoolkit/simutils.py: get_registers is not foldable (%s)' % e)
    for slot, skey, want in (('IM', 'im', 2), ('IFF', 'iff', 1), ('T', 'tstates', 123456789012), ('HALT', 'halted', 1)):
        if regs[consts[slot]] == want:
            ctx.ok({'state key': skey, 'slot': slot})
        else:
            ctx.violation('get_registers ' + skey, 'skoolkit/simutils.py:%d' % gr.lineno, 'state key %s is not restored into slot %s (slot holds %s after get_registers with %s=%s)' % (skey, slot, regs[consts[slot]], skey, want))
    for key, (lo, hi) in PAIRS.items():
        try:
            regs = list(cf.call_func('simutils', 'get_registers', [{key: 0x1234}, None, False]))
        except NotLiteral as e:
            ctx.limit('get_registers ' + key, 'not foldable: %s' % e)
            continue
        if regs[consts[lo]] == 0x34 and regs[consts[hi]] == 0x12:
            ctx.ok({'pair restored': key})
        else:
            ctx.violation('get_registers ' + key, 'skoolkit/simutils.py:%d' % gr.lineno, 'register pair %s=0x1234 is restored as slot %s=%s, slot %s=%s (expected 0x34 / 0x12)' % (key, lo, regs[consts[lo]], hi, regs[consts[hi]]))

def hardware_rule(ctx, repo):
    ctx.rule('C10.2-hardware', 'every hardware attribute updated by a port-write handler is exported by get_state', floor=5)
    su, gs, consts, exported = get_state_facts(repo)
    exp_attrs = set()
    for key, (expr, slots, attrs, line, exact) in exported.items():
        exp_attrs.update(attrs)
    pt = repo.mod('pagingtracer')
    found = set()
    for fn in pt.methods('PagingTracer').values():
        if 'port' not in [a.arg for a in fn.args.args]:
            continue
        for n in ast.walk(fn):
            tgs = []
            if isinstance(n, ast.Assign): tgs = n.targets
            elif isinstance(n, ast.AugAssign): tgs = [n.target]
            for t in tgs:
                if isinstance(t, ast.Attribute) and isinstance(t.value, ast.Name) and t.value.id == 'self':
                    found.add(t.attr)
                if isinstance(t, ast.Subscript) and isinstance(t.value, ast.Attribute) and isinstance(t.value.value, ast.Name) and t.value.value.id == 'self':
                    found.add(t.value.attr)
            if isinstance(n, ast.Call) and isinstance(n.func, ast.Attribute) and n.func.attr == 'append' and isinstance(n.func.value, ast.Attribute):
                found.add(n.func.value.attr)
    if len(found) < 5:
        raise FactError('skoolkit/pagingtracer.py: expected PagingTracer port handlers to update at least 5 attributes, found %s' % sorted(found))
    ALIAS = {'out7ffd': 'o7ffd'}   # the latch value is exported from the Memory object, which receives the same value (C08.3)
    for a in sorted(found):
        if a in exp_attrs or ALIAS.get(a) in exp_attrs:
            ctx.ok({'attribute': a})
        else:
            ctx.violation('tracer.' + a, 'skoolkit/simutils.py:%d' % gs.lineno, 'port writes update tracer.%s but get_state does not export it' % a)

def return_rule(ctx, repo):
    ctx.rule('C10.3-return', 'every attribute the snapshot readers load is consumed on resume under the matching name', floor=25)
    su = repo.mod('simutils')
    fs = su.func('from_snapshot')
    sn = repo.mod('snapshot')
    loaded = set()
    for cls, fn in (('Z80', '_read'), ('SZX', '_read')):
        for n in ast.walk(sn.method(cls, fn)):
            if isinstance(n, ast.Assign) and isinstance(n.targets[0], ast.Attribute) and isinstance(n.targets[0].value, ast.Name) and n.targets[0].value.id == 'self':
                loaded.add(n.targets[0].attr)
    loaded -= {'header', 'tail', 'memory', 'machine', 'blocks', 'type', 'iff2'}
    consumed = {}
    for modname, fn in (('simutils', fs), ('trace', repo.mod('trace').func('run'))):
        for n in ast.walk(fn):
            if isinstance(n, ast.Attribute) and isinstance(n.value, ast.Name) and n.value.id == 'snapshot':
                consumed.setdefault(n.attr, modname)
    for a in sorted(loaded):
        if a in consumed:
            ctx.ok({'attribute': a, 'consumed in': consumed[a]})
        else:
            ctx.violation('snapshot.' + a, 'skoolkit/simutils.py:%d' % fs.lineno, 'readers load snapshot.%s but neither from_snapshot nor trace.run uses it when resuming' % a)
    # name correspondence in from_snapshot: 'BC': snapshot.bc, '^BC': snapshot.bc2, 'MEMPTR': snapshot.memptr ...
    for n in ast.walk(fs):
        if isinstance(n, ast.Dict):
            for k, v in zip(n.keys, n.values):
                if isinstance(k, ast.Constant) and isinstance(v, ast.Attribute) and isinstance(v.value, ast.Name) and v.value.id == 'snapshot':
                    key = k.value
                    want = key.lower().lstrip('^') + ('2' if key.startswith('^') else '')
                    if key == 'iff': want = 'iff1'
                    if v.attr != want:
                        ctx.violation('from_snapshot ' + key, 'skoolkit/simutils.py:%d' % v.lineno, "register %s is restored from snapshot.%s, expected snapshot.%s" % (key, v.attr, want))
                    else:
                        ctx.ok({'key': key, 'from': 'snapshot.' + v.attr})
    # trace.run: hardware state defaults come from the snapshot attribute of the same meaning
    tr = repo.mod('trace').func('run')
    WANT = {'border': ('border', 'border'), 'out7ffd': ('7ffd', 'out7ffd'), 'outfffd': ('fffd', 'outfffd'), 'outfe': ('fe', 'outfe')}
    for n in ast.walk(tr):
        if isinstance(n, ast.Assign) and isinstance(n.targets[0], ast.Name) and n.targets[0].id in WANT and isinstance(n.value, ast.Call) \
           and ast.unparse(n.value.func) == 'state.get' and len(n.value.args) == 2 and 'snapshot.' in ast.unparse(n.value.args[1]):
            skey, attr = WANT[n.targets[0].id]
            got = (n.value.args[0].value, ast.unparse(n.value.args[1]).split('.')[-1])
            if got != (skey, attr):
                ctx.violation('trace.run ' + n.targets[0].id, 'skoolkit/trace.py:%d' % n.lineno, '%s is initialised from state[%r] / snapshot.%s, expected state[%r] / snapshot.%s' % (n.targets[0].id, got[0], got[1], skey, attr))
            else:
                ctx.ok({'variable': n.targets[0].id, 'from': 'snapshot.' + attr})

class _Unknown(Exception):
    pass

_TEXT = {}
def _text(node):
    t = _TEXT.get(id(node))
    if t is None:
        t = _TEXT[id(node)] = (node, ast.unparse(node))
    return t[1]

NEXT_INT_VARS = ('next_int', 'state[8]')
_CLOCK = ('registers[25]', 'registers[T]')

class _NextIntFold:
    """Forward fold of one function on a concrete (T, frame, int) sample: names bound to arithmetic over the clock, the
    frame length and the interrupt length are tracked, everything else is unknown.  Each time a next-interrupt variable
    has been (re)defined and the definition is complete (the next statement neither adjusts it nor sets the clock), its
    value is compared with the definition: the first frame start m with m + int > clock.
    Calls are assumed not to move the clock (values read before and after a call are equal in the model): that can hide a
    stale read across a call but can never make a correct definition look wrong; explicit stores to the clock slot with
    an unknown value bind a fresh clock value, so a definition computed before such a store is compared with the new clock."""
    def __init__(self, T, fd, ia):
        self.T0, self.fd, self.ia = T, fd, ia
        self.k = 0
        self.results = []       # (lineno, got, clock)

    def fresh(self):
        self.k += 1
        return self.T0 + self.k * 100003

    def leaf(self, text, env):
        if text in env:
            return env[text]
        if text.endswith('frame_duration'):
            return self.fd
        if text.endswith('int_active'):
            return self.ia
        if text.endswith(_CLOCK):
            return env['$clock']
        raise _Unknown(text)

    def ev(self, e, env):
        if isinstance(e, ast.Constant) and isinstance(e.value, int):
            return int(e.value)
        if isinstance(e, (ast.Name, ast.Attribute, ast.Subscript)):
            return self.leaf(_text(e), env)
        if isinstance(e, ast.BinOp):
            a, b = self.ev(e.left, env), self.ev(e.right, env)
            f = pyfacts._BIN.get(type(e.op))
            if f is None or (isinstance(e.op, (ast.FloorDiv, ast.Mod)) and b == 0):
                raise _Unknown('op')
            return f(a, b)
        if isinstance(e, ast.UnaryOp) and isinstance(e.op, ast.Not):
            return int(not self.ev(e.operand, env))
        if isinstance(e, ast.UnaryOp) and isinstance(e.op, ast.USub):
            return -self.ev(e.operand, env)
        if isinstance(e, ast.Compare):
            left = self.ev(e.left, env)
            for op, c in zip(e.ops, e.comparators):
                right = self.ev(c, env)
                f = pyfacts._CMP.get(type(op))
                if f is None or isinstance(op, (ast.In, ast.NotIn, ast.Is, ast.IsNot)):
                    raise _Unknown('cmp')
                if not f(left, right):
                    return 0
                left = right
            return 1
        if isinstance(e, ast.BoolOp):
            vals = [self.ev(v, env) for v in e.values]
            return int(all(vals)) if isinstance(e.op, ast.And) else int(any(vals))
        if isinstance(e, ast.IfExp):
            return self.ev(e.body, env) if self.ev(e.test, env) else self.ev(e.orelse, env)
        raise _Unknown(type(e).__name__)

    _W = {}
    @classmethod
    def written(cls, stmts):
        key = tuple(id(x) for x in stmts)
        if key not in cls._W:
            cls._W[key] = (list(stmts), cls._written(stmts))
        return cls._W[key][1]

    @staticmethod
    def _written(stmts):
        out = set()
        for st in stmts:
            for n in ast.walk(st):
                tgs = n.targets if isinstance(n, ast.Assign) else [n.target] if isinstance(n, (ast.AugAssign, ast.For)) else []
                for tg in tgs:
                    for t in (tg.elts if isinstance(tg, ast.Tuple) else [tg]):
                        out.add(_text(t))
        return out

    def kill(self, env, names):
        for nm in names:
            if nm.endswith(_CLOCK):
                env['$clock'] = self.fresh()
            elif nm in NEXT_INT_VARS:
                env.pop(nm, None)
                env.pop('$pending:' + nm, None)
            else:
                env.pop(nm, None)

    def assign(self, tg, v, env, line):
        for t in (tg.elts if isinstance(tg, ast.Tuple) else [tg]):
            text = _text(t)
            if isinstance(tg, ast.Tuple):
                self.kill(env, [text])
                continue
            if text.endswith(_CLOCK):
                env['$clock'] = self.fresh() if v is None else v
            elif v is None:
                self.kill(env, [text])
            else:
                env[text] = v
                if text in NEXT_INT_VARS:
                    env['$pending:' + text] = line

    def touches(self, st):
        """Does this statement adjust a next-interrupt variable or set the clock (part of the same definition)?"""
        if isinstance(st, (ast.Assign, ast.AugAssign, ast.If)) and not any(isinstance(x, (ast.While, ast.For, ast.Call)) for x in ast.walk(st)):
            w = self.written([st])
            return any(x in NEXT_INT_VARS or x.endswith(_CLOCK) for x in w)
        return False

    def check(self, env):
        for var in NEXT_INT_VARS:
            line = env.pop('$pending:' + var, None)
            if line is not None and var in env:
                self.results.append((line, env[var], env['$clock']))

    def block(self, stmts, env):
        for i, st in enumerate(stmts):
            self.stmt(st, env)
            if any(k.startswith('$pending:') for k in env):
                if i + 1 < len(stmts) and self.touches(stmts[i + 1]):
                    continue
                self.check(env)
        return env

    def stmt(self, st, env):
        if isinstance(st, ast.Assign):
            try:
                v = self.ev(st.value, env)
            except _Unknown:
                v = None
            for tg in st.targets:
                self.assign(tg, v, env, st.lineno)
        elif isinstance(st, ast.AugAssign):
            try:
                if not hasattr(st, '_sa_binop'):
                    st._sa_binop = ast.BinOp(left=st.target, op=st.op, right=st.value)
                v = self.ev(st._sa_binop, env)
            except _Unknown:
                v = None
            self.assign(st.target, v, env, st.lineno)
        elif isinstance(st, ast.If):
            try:
                t = self.ev(st.test, env)
            except _Unknown:
                t = None
            if t is not None:
                self.block(st.body if t else st.orelse, env)
            else:
                a = self.block(st.body, dict(env))
                b = self.block(st.orelse, dict(env))
                # definitions completed inside a branch have been checked there; keep only what both branches agree on
                for k in list(env):
                    env.pop(k)
                for k in a:
                    if k in b and a[k] == b[k] and not k.startswith('$pending:'):
                        env[k] = a[k]
                if '$clock' not in env:
                    env['$clock'] = self.fresh()
        elif isinstance(st, (ast.While, ast.For)):
            self.kill(env, self.written([st]))
            inner = dict(env)
            self.block(st.body, inner)
            self.kill(env, self.written([st]))
        elif isinstance(st, (ast.With, ast.Try)):
            body = st.body
            self.block(body, env)
            if isinstance(st, ast.Try):
                self.kill(env, self.written(st.handlers + st.orelse + st.finalbody))
        elif isinstance(st, (ast.FunctionDef, ast.Lambda)):
            return
        # return / break / continue / pass / others: no effect on the tracked names

def _py_next_int_functions(repo):
    """(module, function node) for every function (nested ones separately) that defines a next-interrupt variable."""
    out = []
    for modname in ('trace', 'loadtracer', 'kbtracer', 'rzxplay', 'simulator', 'cmiosimulator', 'skoolmacro', 'tap2sna'):
        mod = repo.mod(modname)
        for fn in ast.walk(mod.tree):
            if not isinstance(fn, ast.FunctionDef):
                continue
            own = []
            def collect(n):
                for c in ast.iter_child_nodes(n):
                    if isinstance(c, (ast.FunctionDef, ast.Lambda)):
                        continue
                    own.append(c)
                    collect(c)
            collect(fn)
            if any(isinstance(n, ast.Assign) and any(ast.unparse(t) in NEXT_INT_VARS for t in n.targets) for n in own):
                out.append((mod, fn))
    return out

def _c_eval(n, T, fd, ia):
    n = cfacts.strip(n)
    k = n.get('kind')
    if k == 'IntegerLiteral':
        return int(n['value'])
    if k == 'MemberExpr':
        if n.get('name') == 'frame_duration': return fd
        if n.get('name') == 'int_active': return ia
        return T
    if k == 'DeclRefExpr':
        if n['ref'] == 'frame_duration': return fd
        if n['ref'] == 'int_active': return ia
        return T
    if k == 'ArraySubscriptExpr':
        return T
    if k == 'BinaryOperator':
        a = _c_eval(n['inner'][0], T, fd, ia)
        b = _c_eval(n['inner'][1], T, fd, ia)
        op = n['opcode']
        if op == '+': return a + b
        if op == '-': return a - b
        if op == '*': return a * b
        if op == '/': return a // b
        if op == '%': return a % b
    raise FactError('c/csimulator.c: next-interrupt expression uses %s' % k)

def next_int_rule(ctx, repo):
    ctx.rule('C10.4-next-int', 'all sites computing the next frame-interrupt time are the same function of (T, frame, int length): smallest frame start m with m + int > T', floor=10)
    def ref(T, fd, ia):
        m = (T // fd) * fd
        return m if T < m + ia else m + fd
    samples = []
    for fd, ia in ((69888, 32), (70908, 36)):
        ts = set()
        for base in (0, fd, 5 * fd, 300 * fd):
            for d in (list(range(-3, 80)) + list(range(fd - 80, fd + 3)) + [fd // 2]) if ctx.tier != 'thorough' else range(-3, fd + 3):
                if base + d >= 0:
                    ts.add(base + d)
        samples.append((fd, ia, sorted(ts)))
    funcs = _py_next_int_functions(repo)
    n_sites = 0
    for mod, fn in funcs:
        seen = {}      # line -> first counterexample or None
        for fd, ia, ts in samples:
            for T in ts:
                f = _NextIntFold(T, fd, ia)
                f.block(fn.body, {'$clock': T})
                for line, got, clock in f.results:
                    want = ref(clock, fd, ia)
                    if got != want and seen.get(line) is None:
                        seen[line] = (clock, fd, ia, got, want)
                    else:
                        seen.setdefault(line, None)
        for line, bad in sorted(seen.items()):
            n_sites += 1
            where = '%s:%d' % (mod.relpath, line)
            if bad:
                ctx.violation('next_int %s %s' % (mod.name, fn.name), where, 'the next interrupt time defined in %s.%s (line %d) is %d when the clock is %d (frame %d, int %d); the definition - first frame start m with m + int > clock - gives %d: an interrupt is skipped or repeated after a resume' %
                              (mod.name, fn.name, line, bad[3], bad[0], bad[1], bad[2], bad[4]))
            else:
                ctx.ok({'site': where, 'function': '%s.%s' % (mod.name, fn.name)})
        if not seen:
            ctx.limit('next_int %s.%s' % (mod.name, fn.name), 'the definition of the next interrupt time in this function could not be folded (depends on values other than clock, frame and interrupt length)')
    # C sites: self->tracer_state[8] = ...
    from sa.core import cfacts as cf
    facts = cf.load(repo.root)
    u = cf.CUnit(facts['plain'])
    csites = []
    cblocks = {}     # id(site) -> (compound statement children, index of the site)
    def is_clock_store(x):
        x = cf.strip(x)
        if x.get('kind') in ('BinaryOperator', 'CompoundAssignOperator') and x.get('opcode', '=').endswith('='):
            lhs = cf.strip(x['inner'][0])
            if lhs.get('kind') == 'ArraySubscriptExpr':
                b = cf.strip(lhs['inner'][0]); i = cf.strip(lhs['inner'][1])
                return b.get('kind') == 'DeclRefExpr' and b.get('ref') == 'reg' and _c_const(i) == 25
        return False
    def _c_const(i):
        if i.get('kind') == 'IntegerLiteral':
            return int(i['value'])
        if i.get('kind') == 'DeclRefExpr' and i.get('ref') == 'T':
            return 25
        if i.get('kind') == 'ConstantExpr' and i.get('value') is not None:
            return int(i['value'])
        return None
    def scan(n, fname):
        if n.get('kind') == 'BinaryOperator' and n.get('opcode') == '=':
            lhs = cf.strip(n['inner'][0])
            if lhs.get('kind') == 'ArraySubscriptExpr':
                b = cf.strip(lhs['inner'][0]); i = cf.strip(lhs['inner'][1])
                if b.get('kind') == 'MemberExpr' and b.get('name') == 'tracer_state' and i.get('kind') == 'IntegerLiteral' and i['value'] == '8':
                    csites.append((fname, n))
        kids = n.get('inner', [])
        for k, c in enumerate(kids):
            if n.get('kind') == 'CompoundStmt' and cf.strip(c) is not None:
                cblocks[id(cf.strip(c))] = (kids, k)
                cblocks[id(c)] = (kids, k)
            scan(c, fname)
    for name, fn in u.funcs.items():
        scan(fn, name)
    for fname, n in csites:
        bad = None
        for fd, ia, ts in samples:
            for T in ts:
                got = _c_eval(n['inner'][1], T, fd, ia)
                if got != ref(T, fd, ia):
                    bad = (T, fd, ia, got, ref(T, fd, ia))
                    break
            if bad:
                break
        where = 'c/csimulator.c:%d (%s)' % (n.get('line', 0), fname)
        late = None
        def reads_clock(x):
            x = cf.strip(x)
            if x.get('kind') == 'ArraySubscriptExpr':
                b = cf.strip(x['inner'][0]); i = cf.strip(x['inner'][1])
                if b.get('kind') == 'DeclRefExpr' and b.get('ref') == 'reg' and _c_const(i) == 25:
                    return True
            return any(reads_clock(c) for c in x.get('inner', []))
        if id(n) in cblocks and reads_clock(n['inner'][1]):
            kids, k = cblocks[id(n)]
            for c in kids[k + 1:]:
                if is_clock_store(c):
                    late = c
                    break
        if bad:
            ctx.violation('next_int C %s' % fname, where, 'next interrupt time gives %d at T=%d (frame %d, int %d); expected %d' % (bad[3], bad[0], bad[1], bad[2], bad[4]))
        elif late is not None:
            ctx.violation('next_int C %s clock order' % fname, where, 'the next interrupt time is computed from the clock at line %d, then the clock is set at line %d in the same block: the interrupt schedule belongs to the old clock (the Python tracer sets the clock first)' % (n.get('line', 0), late.get('line', 0)))
        else:
            ctx.ok({'site': where, 'clock stores after it in its block': 0})
    if n_sites < 4 or len(csites) < 3:
        raise FactError('expected at least 4 Python and 3 C next-interrupt sites, found %d / %d' % (n_sites, len(csites)))

def run(ctx):
    repo = pyfacts.Repo(ctx.repo_root)
    slot_rule(ctx, repo)
    hardware_rule(ctx, repo)
    return_rule(ctx, repo)
    next_int_rule(ctx, repo)
    from sa.rules import C09, C08paging
    C09.tstates_rule(ctx, repo, repo.mod('snapshot'))
    C08paging.python_sites(ctx, repo, rule='C10.5-latch', floor=7)
    from sa.rules import hwstate
    hwstate.run(ctx, repo, 'C10.6-hwstate')
    from sa.rules import intloop
    intloop.run(ctx, repo, 'C10.7-int-window')
    intloop.c_conditions(ctx, repo, 'C10.8-int-condition')
    return report.finish(ctx, EXPLANATION)
