"""C08.3 / C08.4 - 128K paging sites and paging functions."""
import ast
from sa.core import pyfacts, effects, simfacts
from sa.core.pyfacts import Lit, NotLiteral, FactError
from sa.core.terms import C, isc, mk, mk_bop, mk_not, post, show

SETUP_SITES = {
    ('pagingtracer', 'Memory.__init__'): 'constructor applies the initial 0x7FFD value',
}

def _enclosing(mod):
    """Map every Call node to (qualified function name, FunctionDef, chain of enclosing If tests with polarity, statement list + index)."""
    out = []
    def visit_body(body, fn, qual, tests):
        for i, st in enumerate(body):
            for call in _calls_in_stmt_head(st):
                out.append((call, qual, fn, list(tests), body, i))
            if isinstance(st, ast.If):
                visit_body(st.body, fn, qual, tests + [(st.test, True)])
                visit_body(st.orelse, fn, qual, tests + [(st.test, False)])
            elif isinstance(st, (ast.For, ast.While, ast.With, ast.Try)):
                for fld in ('body', 'orelse', 'finalbody'):
                    visit_body(getattr(st, fld, []) or [], fn, qual, tests)
                for h in getattr(st, 'handlers', []) or []:
                    visit_body(h.body, fn, qual, tests)
            elif isinstance(st, ast.FunctionDef):
                visit_body(st.body, st, qual + '.' + st.name, [])
            elif isinstance(st, ast.ClassDef):
                for s2 in st.body:
                    if isinstance(s2, ast.FunctionDef):
                        visit_body(s2.body, s2, st.name + '.' + s2.name, [])
    for st in mod.tree.body:
        if isinstance(st, ast.FunctionDef):
            visit_body(st.body, st, st.name, [])
        elif isinstance(st, ast.ClassDef):
            for s2 in st.body:
                if isinstance(s2, ast.FunctionDef):
                    visit_body(s2.body, s2, st.name + '.' + s2.name, [])
    return out

def _calls_in_stmt_head(st):
    """Call nodes that belong to this statement itself (not to nested statement bodies)."""
    if isinstance(st, (ast.If, ast.While)):
        roots = [st.test]
    elif isinstance(st, ast.For):
        roots = [st.iter]
    elif isinstance(st, (ast.FunctionDef, ast.ClassDef, ast.With, ast.Try)):
        roots = []
    else:
        roots = [st]
    for r in roots:
        for n in ast.walk(r):
            if isinstance(n, ast.Call):
                yield n

def _conjuncts(tests):
    out = []
    for t, pol in tests:
        if pol and isinstance(t, ast.BoolOp) and isinstance(t.op, ast.And):
            out.extend((v, True) for v in t.values)
        else:
            out.append((t, pol))
    return out

def _names(node):
    return {n.id for n in ast.walk(node) if isinstance(n, ast.Name)} | {ast.unparse(n) for n in ast.walk(node) if isinstance(n, ast.Attribute)}

def python_sites(ctx, repo, rule='C08.3-sites', floor=9):
    ctx.rule(rule, 'every out7ffd() call from a port-write handler is guarded by (port & 0x8002) == 0 and the lock bit, and records the value', floor=floor)
    sites = 0
    for mod in repo.all_modules():
        if 'out7ffd' not in mod.src:
            continue
        for call, qual, fn, tests, body, idx in _enclosing(mod):
            if not (isinstance(call.func, ast.Attribute) and call.func.attr == 'out7ffd'):
                continue
            where = '%s:%d' % (mod.relpath, call.lineno)
            params = [a.arg for a in fn.args.args]
            key = (mod.name, qual)
            if 'port' not in params:
                if key in SETUP_SITES:
                    ctx.ok({'site': where, 'function': qual, 'kind': 'set-up', 'reason': SETUP_SITES[key]})
                else:
                    ctx.violation('%s %s' % (mod.name, qual), where,
                                  'out7ffd() of the Python memory object is called from %s, which is neither a port-write handler nor the memory constructor: paging changes without a write to port 0x7FFD, and a C simulator built on that memory keeps its own bank pointers, so the two disagree about what is paged in' % qual)
                continue
            sites += 1
            conj = _conjuncts(tests)
            port_c = [(t, p) for t, p in conj if 'port' in _names(t)]
            lock_c = [(t, p) for t, p in conj if any(n.endswith('out7ffd') for n in _names(t)) and 'port' not in _names(t)]
            other = [(t, p) for t, p in conj if (t, p) not in port_c and (t, p) not in lock_c]
            problems = []
            for t, p in other:
                src = ast.unparse(t)
                if not (p and src.startswith('isinstance(')):
                    problems.append('unexpected guard `%s`' % src)
            # port conjuncts fold to (port & 0x8002) == 0 over all 65536 ports
            try:
                bad = None
                for port in range(65536):
                    v = all(bool(Lit(repo, mod.name, {'port': port}).ev(t)) == p for t, p in port_c)
                    if v != ((port & 0x8002) == 0):
                        bad = port
                        break
                if not port_c:
                    bad = 0x8000
                if bad is not None:
                    problems.append('port decode %s accepts/rejects port 0x%04X differently from (port & 0x8002) == 0' % ([ast.unparse(t) for t, p in port_c], bad))
                bad = None
                lockname = None
                for t, p in lock_c:
                    for n in ast.walk(t):
                        if isinstance(n, ast.Attribute) and n.attr == 'out7ffd':
                            lockname = n
                for lock in range(256):
                    def opq(n, lock=lock):
                        if isinstance(n, ast.Attribute) and n.attr == 'out7ffd':
                            return lock
                        return None
                    v = all(bool(Lit(repo, mod.name, {}, opq).ev(t)) == p for t, p in lock_c)
                    if v != ((lock & 0x20) == 0):
                        bad = lock
                        break
                if not lock_c:
                    bad = 0x20
                if bad is not None:
                    problems.append('lock test %s treats last value 0x%02X differently from (value & 0x20) == 0' % ([ast.unparse(t) for t, p in lock_c], bad))
            except NotLiteral as e:
                problems.append('guard not foldable: %s' % e)
            # the remembered value is updated from the same operand right after the call
            arg = ast.unparse(call.args[0]) if call.args else None
            rec = False
            for st in body[idx + 1: idx + 3]:
                if isinstance(st, ast.Assign) and isinstance(st.targets[0], ast.Attribute) and st.targets[0].attr == 'out7ffd' and ast.unparse(st.value) == arg:
                    rec = True
            if not rec:
                problems.append('the accepted value is not recorded in .out7ffd after the call (the lock bit would be lost)')
            if 'value' in params and arg != 'value':
                problems.append('pages with %s instead of the value written to the port' % arg)
            if problems:
                ctx.violation('%s %s' % (mod.name, qual), where, '; '.join(problems))
            else:
                ctx.ok({'site': where, 'function': qual, 'port guard': [ast.unparse(t) for t, p in port_c], 'lock guard': [ast.unparse(t) for t, p in lock_c]})
    if sites < 6:
        raise FactError('expected at least 6 out7ffd() call sites in port-write handlers, found %d' % sites)

def c_sites(ctx, m):
    """C: the OUT macro expansion in the port-writing handlers."""
    for cfg, impl, pyimpl in (('plain', 'cp', 'py'), ('cont', 'cc', 'cm')):
        done = set()
        for s in m.slots():
            if m.is_prefix(s):
                continue
            row = m.c.tables[cfg][s.table][s.index]
            if row['func'] in done:
                continue
            try:
                pyp = m.raw_paths(pyimpl, s)
            except effects.Unsupported:
                continue
            if not any(e[0] == 'tracer' and e[1] == 'out_tracer' for p in pyp for e in p.events):
                continue
            done.add(row['func'])
            where = m.where(impl, s)
            try:
                cpaths = m.raw_paths(impl, s)
            except effects.Unsupported as e:
                ctx.limit('C:%s/%s' % (row['func'], cfg), 'construct not modelled: %s' % e)
                continue
            port = value = None
            for p in cpaths:
                for e in p.events:
                    if e[0] == 'tracer' and e[1] == 'out_tracer':
                        port, value = post(e[2][0]), post(e[2][1])
            if port is None:
                ctx.violation('C:%s/%s' % (row['func'], cfg), where, 'handler writes a port in Python but makes no out_tracer call in C')
                continue
            want = mk_bop('and', [mk('==', ('sym', '$mem'), C(0)), mk('==', mk('&', port, C(0x8002)), C(0)), mk('==', mk('&', ('sym', 'out7ffd'), C(0x20)), C(0))])
            bad = []
            for p in cpaths:
                pages = [e for e in p.events if e[0] == 'page']
                gs = [post(g) for g in p.guards]
                if len(pages) > 1:
                    bad.append('more than one out7ffd() call on a path')
                elif pages:
                    pg = [post(g) for g in pages[0][2]]
                    if want not in pg:
                        bad.append('out7ffd() reached under guards %s, expected %s' % ([show(g)[:90] for g in pg][-2:], show(want)[:200]))
                    if post(mk('&', pages[0][1], C(0xFF))) != post(mk('&', value, C(0xFF))):
                        bad.append('pages with %s but the port receives %s' % (show(post(pages[0][1]))[:80], show(value)[:80]))
                else:
                    if mk_not(want) not in gs:
                        bad.append('a path writes the port without consulting the 0x7FFD decode %s' % show(want)[:160])
            if bad:
                ctx.violation('C:%s/%s' % (row['func'], cfg), where, 'OUT paging site: ' + '; '.join(sorted(set(bad))[:3]))
            else:
                ctx.ok({'site': 'C %s (%s build)' % (row['func'], cfg), 'guard': show(want)[:200], 'value': show(value)[:60]})

def _fold_select(repo, modname, node, var):
    """node: self.roms[<expr in var>] -> list of selected indices for var in 0..255"""
    if not isinstance(node, ast.Subscript):
        return None, None
    base = ast.unparse(node.value)
    try:
        return base, [Lit(repo, modname, {var: v}).ev(node.slice) for v in range(256)]
    except NotLiteral:
        return base, None

def paging_functions(ctx, repo, m):
    ctx.rule('C08.4-out7ffd', 'out7ffd(): slot 0 <- roms[bit 4], slot 3 <- banks[bits 0-2], value recorded; slots 1 and 2 never re-assigned; mapping chosen by 0x7FFD bits, never by content', floor=8)
    for modname, cls in (('pagingtracer', 'Memory'), ('skoolutils', 'Memory')):
        mod = repo.mod(modname)
        fn = mod.method(cls, 'out7ffd')
        var = fn.args.args[1].arg
        where = '%s:%d' % (mod.relpath, fn.lineno)
        stores = {}
        rec = False
        for n in ast.walk(fn):
            if isinstance(n, ast.Assign):
                tg = n.targets[0]
                if isinstance(tg, ast.Subscript) and ast.unparse(tg.value) == 'self.memory':
                    try:
                        stores[Lit(repo, modname).ev(tg.slice)] = n.value
                    except NotLiteral:
                        stores[ast.unparse(tg.slice)] = n.value
                elif isinstance(tg, ast.Attribute) and tg.attr in ('o7ffd', 'out7ffd') and ast.unparse(n.value) == var:
                    rec = True
        problems = []
        if set(stores) != {0, 3}:
            problems.append('assigns mapping slots %s, expected exactly 0 and 3' % sorted(map(str, stores)))
        else:
            b0, sel0 = _fold_select(repo, modname, stores[0], var)
            b3, sel3 = _fold_select(repo, modname, stores[3], var)
            if b0 != 'self.roms' or sel0 != [(v >> 4) & 1 for v in range(256)]:
                bad = next((v for v in range(256) if not sel0 or sel0[v] != ((v >> 4) & 1)), 0)
                problems.append('slot 0 is %s, not self.roms[bit 4 of value] (e.g. value 0x%02X)' % (ast.unparse(stores[0]), bad))
            if b3 != 'self.banks' or sel3 != [v & 7 for v in range(256)]:
                bad = next((v for v in range(256) if not sel3 or sel3[v] != (v & 7)), 0)
                problems.append('slot 3 is %s, not self.banks[bits 0-2 of value] (e.g. value 0x%02X)' % (ast.unparse(stores[3]), bad))
        if not rec:
            problems.append('does not record the value (o7ffd)')
        if problems:
            ctx.violation('%s.%s.out7ffd' % (modname, cls), where, '; '.join(problems))
        else:
            ctx.ok({'function': '%s.%s.out7ffd' % (modname, cls), 'slot0': ast.unparse(stores[0]), 'slot3': ast.unparse(stores[3])})
        # whole class: slots 1/2 only in list displays from banks[5]/banks[2]; no content search
        c = mod.cls(cls)
        for f in c.body:
            if not isinstance(f, ast.FunctionDef):
                continue
            for n in ast.walk(f):
                if isinstance(n, ast.Assign):
                    tg = n.targets[0]
                    if isinstance(tg, ast.Subscript) and ast.unparse(tg.value) == 'self.memory' and isinstance(tg.slice, ast.Constant) and tg.slice.value in (1, 2):
                        ctx.violation('%s.%s.%s slot %d' % (modname, cls, f.name, tg.slice.value), '%s:%d' % (mod.relpath, n.lineno),
                                      'mapping slot %d (0x%04X) is re-assigned; banks 5 and 2 must stay fixed' % (tg.slice.value, tg.slice.value * 0x4000))
                    if isinstance(tg, ast.Attribute) and tg.attr == 'memory' and isinstance(n.value, ast.List) and len(n.value.elts) == 4:
                        e1, e2 = ast.unparse(n.value.elts[1]), ast.unparse(n.value.elts[2])
                        if e1.replace(' ', '') not in ('self.banks[5]', 'banks[5]') or e2.replace(' ', '') not in ('self.banks[2]', 'banks[2]'):
                            ctx.violation('%s.%s.%s mapping' % (modname, cls, f.name), '%s:%d' % (mod.relpath, n.lineno),
                                          'fixed slots are %s / %s, expected banks[5] / banks[2]' % (e1, e2))
                        else:
                            ctx.ok({'function': '%s.%s.%s' % (modname, cls, f.name), 'fixed slots': [e1, e2]})
                if isinstance(n, ast.Call) and isinstance(n.func, ast.Attribute) and n.func.attr == 'index' and \
                        ast.unparse(n.func.value) in ('self.banks', 'self.roms', 'banks', 'roms'):
                    ctx.violation('%s.%s.%s content search' % (modname, cls, f.name), '%s:%d' % (mod.relpath, n.lineno),
                                  'the paged bank/ROM is located with %s (equality of contents): two banks with equal contents map the wrong one' % ast.unparse(n)[:80])
    # C out7ffd
    for cfg in ('plain', 'cont'):
        u = m.c.units[cfg]
        if 'out7ffd' not in u.funcs:
            raise FactError('c/csimulator.c: out7ffd not found')
        ex = effects.CExtractor([0] * 7, None, m.c.consts[cfg], u, 'out7ffd')
        paths = ex.run([effects.Path()], u.body('out7ffd'))
        where = 'c/csimulator.c:%d' % u.funcs['out7ffd']['line']
        problems = []
        if len(paths) != 1:
            problems.append('out7ffd has %d paths' % len(paths))
        else:
            p = paths[0]
            maps = {post(e[1]): post(e[2]) for e in p.events if e[0] == 'map'}
            attrs = {e[1]: post(e[2]) for e in p.events if e[0] == 'attr'}
            v = ('sym', 'value')
            from sa.core import fold
            want0 = ('idx', ('sym', 'roms'), mk('&', mk('>>', v, C(4)), C(1)))
            want3 = ('idx', ('sym', 'banks'), mk('&', v, C(7)))
            if set(maps) != {C(0), C(3)}:
                problems.append('assigns mapping slots %s' % sorted(show(k) for k in maps))
            else:
                for slot, want in ((C(0), want0), (C(3), want3)):
                    got = maps[slot]
                    ok = got[0] == 'idx' and got[1] == want[1]
                    if ok and got[2] != want[2]:
                        # fold over the byte parameter
                        a = fold.compile_term(got[2], [v]); b = fold.compile_term(want[2], [v])
                        ok = all(a(x) == b(x) for x in range(256))
                    if not ok:
                        problems.append('slot %d <- %s, expected %s' % (slot[1], show(got)[:80], show(want)[:80]))
            if post(mk('&', attrs.get('out7ffd', C(-1)), C(0xFF))) != post(mk('&', v, C(0xFF))):
                problems.append('does not record the value in self->out7ffd')
        if problems:
            ctx.violation('C out7ffd/%s' % cfg, where, '; '.join(problems))
        else:
            ctx.ok({'function': 'C out7ffd (%s build)' % cfg, 'slots': {'0': 'roms[(value >> 4) & 1]', '3': 'banks[value & 7]'}})

def run(ctx, repo, m):
    python_sites(ctx, repo)
    c_sites(ctx, m)
    paging_functions(ctx, repo, m)
