"""C04.5-pipeline (*fold*): skool2asm and skool2bin folded on the same generated skool file, in every substitution / fix mode.

The skool file (instructions whose operands may be addresses of other instructions, DEFB/DEFW/DEFS/DEFM statements, @*sub / @*fix
directives that replace, insert before / after, overwrite and remove instructions, @label, @org) is written by the checker.  SkoolParser
(ASM mode) and AsmWriter.write are folded to get the assembly text; the checker resolves its ORG lines and labels and assembles each
statement with the folded Assembler (two passes, the way any assembler would).  BinWriter is folded on the same file in the same mode.
The two images must have the same base address and the same bytes.  skool2asm's base and case options and label creation must not
change the result."""
import ast, random, re
from sa.core import pyfacts
from sa.core.pyfacts import NotLiteral, FactError, Lit, FOLDED_NONE
from sa.rules.C01pipe import Pipeline, Rec

class AsmError(Exception):
    pass

class Both(Pipeline):
    def __init__(self, repo):
        super().__init__(repo)
        cmds = Lit(repo, 'config').ev(repo.mod('config').assigns['COMMANDS'][-1])
        self.asm_config = {k: v[0] for k, v in cmds['skool2asm'].items()}
        self.cfz = self.cf.sibling('z80')
        self.assembler = self.cfz.new('Assembler')

    def skool2asm(self, skool_lines, asm_mode, fix_mode, case=0, base=0, create_labels=False):
        self.files['in.skool'] = [l + '\n' for l in skool_lines]
        self.stdout, self.warnings = [], []
        cfp = self.cf.sibling('skoolparser')
        parser = cfp.new('SkoolParser', 'in.skool', case, base, asm_mode, False, fix_mode, False, create_labels, True, ('L{address}', '{main}_{index}'), 0, 65536, ())
        props = dict(parser.properties)
        props['warnings'] = '0'
        cfa = self.cf.sibling('skoolasm')
        w = cfa.new('AsmWriter', parser, props, {}, dict(self.asm_config))
        cfa.call(w, 'write')
        return ''.join(self.stdout).split('\n')

    def skool2bin_mode(self, skool_lines, asm_mode, fix_mode):
        self.files['in.skool'] = [l + '\n' for l in skool_lines]
        cfb = self.cf.sibling('skool2bin')
        bw = cfb.new('BinWriter', 'in.skool', asm_mode, fix_mode)
        cfb.call(bw, 'write', 'out.bin')
        return bw.base_address, bytes(self.sink['out.bin'])

    def assemble_text(self, lines):
        """Two-pass assembly of skool2asm output: ORG, labels (`NAME:`), `NAME EQU value`, one statement per line."""
        stmts = []
        labels = {}
        address = None
        def size_of(op, addr):
            if op.upper().startswith(('JR ', 'DJNZ ')):
                return 2          # the target may not be known (or in range of a placeholder) yet
            return self.cfz.call(self.assembler, 'get_size', op, addr)
        for raw in lines:
            line = raw.split(' ;')[0].rstrip() if not raw.lstrip().startswith(';') else ''
            if not line.strip():
                continue
            m = re.match(r'^\s*(\S+)\s+EQU\s+(\S+)\s*$', line, re.I)
            if m:
                labels[m.group(1)] = self.cfz.call_func('z80', 'eval_int', [m.group(2).replace('$', '$')])
                continue
            if not line[0].isspace():
                name = line.strip()
                if name.endswith(':'):
                    name = name[:-1]
                labels[name] = address
                continue
            op = line.strip()
            if op.upper().startswith('ORG '):
                address = self.cfz.call_func('z80', 'eval_int', [op[4:].strip()])
                continue
            if address is None:
                raise AsmError('statement `%s` before any ORG' % op)
            stmts.append([address, op])
            probe = self._subst(op, {k: 0 for k in labels} if labels else {}, sizing=True)
            n = size_of(probe, address)
            if not n:
                # labels defined later: size with a placeholder word
                n = size_of(re.sub(r'\b[A-Za-z_][A-Za-z0-9_]*\b', lambda mm: mm.group(0) if mm.group(0).upper() in KEYWORDS else '0', op), address)
            if not n:
                raise AsmError('cannot size `%s`' % op)
            address += n
        image = {}
        for address, op in stmts:
            text = self._subst(op, labels)
            data = self.cfz.call(self.assembler, 'assemble', text, address)
            if not data:
                raise AsmError('cannot assemble `%s` (from `%s`) at %d' % (text, op, address))
            for k, b in enumerate(data):
                image[address + k] = b
        if not image:
            return None, b''
        lo, hi = min(image), max(image)
        return lo, bytes(image.get(a, 0) for a in range(lo, hi + 1))

    @staticmethod
    def _subst(op, labels, sizing=False):
        if not labels:
            return op
        def rep(m):
            w = m.group(0)
            if w in labels and labels[w] is not None:
                return str(labels[w])
            return w
        return re.sub(r'\b[A-Za-z_][A-Za-z0-9_]*\b', rep, op)

KEYWORDS = set('A B C D E H L I R AF BC DE HL SP IX IY IXH IXL IYH IYL NZ Z NC PO PE P M ADC ADD AND BIT CALL CCF CP CPD CPDR CPI CPIR CPL DAA DEC DI DJNZ EI EX EXX HALT IM IN INC IND INDR INI INIR '
               'JP JR LD LDD LDDR LDI LDIR NEG NOP OR OTDR OTIR OUT OUTD OUTI POP PUSH RES RET RETI RETN RL RLA RLC RLCA RLD RR RRA RRC RRCA RRD RST SBC SCF SET SLA SLL SRA SRL SUB XOR DEFB DEFM DEFS DEFW'.split())

INSTR = [('XOR A', 1), ('NOP', 1), ('LD A,{n}', 2), ('LD B,{n}', 2), ('LD BC,{nn}', 3), ('LD HL,{nn}', 3), ('INC A', 1), ('RET', 1), ('LD (IX+{d}),{n}', 4), ('CP {n}', 2), ('DEFB {n},{n}', 2),
         ('DEFW {nn}', 2), ('DEFS 3', 3), ('DEFM "ab"', 2), ('LD ({nn}),A', 3), ('OUT ({n}),A', 2),
         ('DEFM "Dir\\\\","Games"', 9), ('DEFB "a\\"B",1', 4), ('DEFM "x;Y"', 3), ('DEFM "Say \\"Hi\\"","Ok"', 10), ('LD A,"q"', 2), ('DEFB 1,"\\\\","Zz"', 4), ('DEFS 2,"a"', 2),
         # lower-case data mnemonics with strings that contain index-register names (no case option may touch the characters)
         ('defm "SIXLIVES"', 8), ('defb "IYH",1', 4), ('DEFM "SIXHIYL"', 7), ('defm "ixl"', 3), ('defw {nn}', 2)]
REF = [('JP {ref}', 3), ('CALL {ref}', 3), ('LD HL,{ref}', 3), ('LD DE,{ref}', 3), ('JR {ref}', 2), ('DJNZ {ref}', 2), ('DEFW {ref}', 2), ('LD BC,({ref})', 4)]
SUBS = ['NOP', 'XOR A', 'LD A,{n}', 'LD BC,{nn}', 'INC A', 'LD (IX+{d}),{n}', 'LD A,B']

def fill(t, rnd, refs):
    return t.format(n=rnd.choice((0, 1, 33, 127, 255)), nn=rnd.choice((0, 1, 255, 256, 32767, 65535)), d=rnd.choice((0, 1, 127)), ref=rnd.choice(refs) if refs else 0)

def gen_skool(rnd, label_targets=True, want_if=False):
    start = rnd.choice((32768, 40000, 50000))
    n = rnd.randrange(3, 9)
    ops = []
    a = start
    addrs = []
    for k in range(n):
        t, size = rnd.choice(INSTR) if rnd.random() < 0.7 else rnd.choice(REF)
        ops.append([a, t, size])
        addrs.append(a)
        a += size
    texts = []
    targets = set()
    for k, (addr, t, size) in enumerate(ops):
        near = [x for x in addrs if abs(x - addr) < 100]
        if '{ref}' in t:
            ref = rnd.choice(near)
            targets.add(ref)
            texts.append(t.format(ref=ref))
        else:
            texts.append(fill(t, rnd, near))
    lines = ['@start', '@org=%d' % start]
    if targets and rnd.random() < 0.4:
        # an @equ whose value happens to be the address of a labelled instruction (the label must win: the instruction can move)
        lines.append('@equ=EQV=%d' % rnd.choice(sorted(targets)))
    removed = set()
    quiet = -1          # instructions that an overwriting directive may swallow carry no directives of their own
    for k, (addr, t, size) in enumerate(ops):
        near = [x for x in addrs if abs(x - addr) < 100]
        if k == 0:
            lines.append('; Routine at %d' % addr)
        if addr in removed:
            lines.append(' %05d %s' % (addr, texts[k]))
            continue
        if (label_targets and addr in targets) or rnd.random() < 0.1:
            lines.append('@label=LAB%d' % k)
        r = rnd.random()
        if want_if and k > quiet:
            r = 0
        if r < 0.35 and k > quiet:
            d = rnd.choice(('isub', 'ssub', 'rsub', 'ofix', 'bfix', 'rfix'))
            form = rnd.randrange(8)
            forced = None
            if want_if:
                form, forced, want_if = 7, want_if, False
            if form == 7:
                # a directive chosen by @if on the mode fields both tools must see alike
                cond = rnd.choice(('{fix}', '{asm}==3', '{asm}>1', '{fix}>1', '{asm}', '{fix}==0', '{asm}<2'))
                if forced == 'fix':
                    cond = rnd.choice(('{fix}', '{fix}==0', '{fix}>0', '{fix}==1'))
                elif forced == 'asm':
                    cond = rnd.choice(('{asm}==3', '{asm}>2', '{asm}<3', '{asm}==1', '{asm}==2'))
                body = '%s=%s' % (d, fill(rnd.choice(SUBS), rnd, near))
                lines.append('@if(%s)(%s)' % (cond, body) if ',' not in body else '@if(%s)||%s||' % (cond, body))
                form = 99
            if form in (3, 4):
                quiet = k + 3
            s1 = fill(rnd.choice(SUBS), rnd, near)
            if form == 0:
                lines.append('@%s=%s' % (d, s1))
            elif form == 1:
                lines.append('@%s=>%s' % (d, s1))
            elif form == 2:
                lines.append('@%s=+%s' % (d, s1))
            elif form == 3:
                lines.append('@%s=|%s' % (d, s1))
            elif form == 4:
                lines.append('@%s=>%s' % (d, s1))
                lines.append('@%s=|%s' % (d, fill(rnd.choice(SUBS), rnd, near)))
            elif form == 5:
                lines.append('@%s=%s' % (d, s1))
                lines.append('@%s=%s' % (d, fill(rnd.choice(SUBS), rnd, near)))
            elif form == 6 and k + 1 < len(ops) and ops[k + 1][0] not in targets:
                lines.append('@%s=!%d' % (d, ops[k + 1][0]))
                removed.add(ops[k + 1][0])
        ctl = 'c' if k == 0 else ' '
        lines.append('%s%05d %s' % (ctl, addr, texts[k]))
    return lines, start

def run(ctx, repo):
    n = 150 if ctx.tier == 'thorough' else 30
    ctx.rule('C04.5-pipeline', 'skool2asm (assembled by the checker: ORG, labels, folded Assembler) == skool2bin, both folded on %d generated skool files x modes; base / case / label-creation options do not change the image' % n, floor=n - 5)
    rnd = random.Random(405 + ctx.seed)
    B = Both(repo)
    where = 'skoolkit/skoolparser.py, skoolkit/skoolasm.py, skoolkit/skool2bin.py'
    seen = set()
    MODES = [(0, 0), (1, 0), (2, 0), (3, 0), (1, 1), (1, 2), (3, 3), (1, 3), (2, 3), (3, 0), (2, 1)]
    for k in range(n):
        asm_mode, fix_mode = MODES[k % len(MODES)]
        lines, start = gen_skool(rnd, want_if='fix' if (asm_mode, fix_mode) == (3, 0) else 'asm' if fix_mode == 3 and asm_mode < 3 else False)
        # skool2asm is always at least in @isub mode; skool2bin mode 0 is compared with asm mode 1 only when no isub directive is present
        if asm_mode == 0:
            if any(l.startswith('@') and 'isub' in l for l in lines) or any(l.startswith('@if') and '{asm}' in l for l in lines):
                asm_mode = 1
        # the normalisation skool2asm.main and BinWriter.__init__ both apply (compared by C04.2): @rfix implies @rsub, @rsub implies @ofix;
        # BinWriter gets the modes as the command line gives them (it normalises them itself), the ASM side the normalised ones
        raw_modes = (asm_mode, fix_mode)
        if fix_mode > 2:
            asm_mode = 3
        elif asm_mode > 2:
            fix_mode = max(fix_mode, 1)
        opt = dict(case=rnd.choice((0, 1, 2)), base=rnd.choice((0, 10, 16)), create_labels=rnd.random() < 0.3)
        name = 'file %d, asm mode %d, fix mode %d, options %s' % (k, asm_mode, fix_mode, opt)
        try:
            asm = B.skool2asm(lines, max(asm_mode, 1), fix_mode, **opt)
            base_a, img_a = B.assemble_text(asm)
            base_b, img_b = B.skool2bin_mode(lines, *raw_modes)
        except NotLiteral as e:
            ctx.limit('pipeline', 'not foldable (%s): %s' % (name, e))
            continue
        except AsmError as e:
            key = 'asm text'
            if key not in seen:
                seen.add(key)
                ctx.violation('pipeline ' + key, where, '%s: the output of skool2asm does not assemble: %s; skool file: %s' % (name, e, lines))
            continue
        except (KeyError, IndexError, ValueError, TypeError, AttributeError, NameError) as e:
            key = '%s' % type(e).__name__
            if key not in seen:
                seen.add(key)
                ctx.violation('pipeline failure ' + key, where, '%s: fails with %s: %s; skool file: %s' % (name, type(e).__name__, str(e)[:200], lines))
            continue
        if (base_a, img_a) != (base_b, img_b):
            only_labels = False
            key = 'unlabelled reference' if only_labels else 'image'
            if key not in seen:
                seen.add(key)
                ctx.violation('pipeline ' + key, where, '%s: skool2asm output assembles to base %s %s, skool2bin writes base %s %s%s; skool file: %s; asm: %s' %
                              (name, base_a, list(img_a), base_b, list(img_b), ' (the two agree once every instruction carries a @label: skool2bin relocates an address operand that refers to an unlabelled instruction moved by an insertion, skool2asm leaves the old address)' if only_labels else '',
                               lines, [l for l in asm if l.strip() and not l.lstrip().startswith(';')]))
        else:
            ctx.ok({'file': k, 'modes': (asm_mode, fix_mode), 'bytes': len(img_b)} if k % 10 == 0 else None)
    # data statements in either mnemonic case whose strings contain register names and hex-looking words: every case / base option must
    # leave the characters alone (fixed file, all nine option pairs)
    fixed = ['@start', '@org=40000', '; Data', 'b40000 defm "SIXLIVES"', ' 40008 DEFM "SIXHIYL"', ' 40015 defb "IYH",1', ' 40019 DEFB "ixl",$1F', ' 40023 defw 40000,"a"',
             ' 40027 Defm "A$1Fb%101"', ' 40036 defs 2,"h"', ' 40038 LD A,"h"', ' 40040 ld a,"H"', ' 40042 RET']
    for case in (0, 1, 2):
        for base in (0, 10, 16):
            name = 'fixed data file, case option %d, base option %d' % (case, base)
            try:
                asm = B.skool2asm(fixed, 1, 0, case=case, base=base, create_labels=False)
                base_a, img_a = B.assemble_text(asm)
                base_b, img_b = B.skool2bin_mode(fixed, 0, 0)
            except NotLiteral as e:
                ctx.limit('pipeline', 'not foldable (%s): %s' % (name, e))
                continue
            except (AsmError, KeyError, IndexError, ValueError, TypeError, AttributeError, NameError) as e:
                ctx.violation('pipeline data strings', where, '%s: fails with %s: %s' % (name, type(e).__name__, str(e)[:200]))
                continue
            if (base_a, img_a) != (base_b, img_b):
                ctx.violation('pipeline data strings', where, '%s: skool2asm output assembles to base %s %s, skool2bin writes base %s %s; asm: %s' % (name, base_a, list(img_a), base_b, list(img_b), [l for l in asm if l.strip() and not l.lstrip().startswith(';')]))
            else:
                ctx.ok()
    # a reference to an instruction that has no label and is moved by an insertion (one fixed case)
    lines = ['@start', '@org=40000', '; Routine at 40000', 'c40000 LD (256),A', '@rsub=+LD (IX+127),127', ' 40003 LD HL,40012', ' 40006 CP 1', ' 40008 RET', ' 40009 NOP', ' 40010 NOP', ' 40011 NOP', ' 40012 LD B,127']
    try:
        asm = B.skool2asm(lines, 3, 1, create_labels=True)
        base_a, img_a = B.assemble_text(asm)
        base_b, img_b = B.skool2bin_mode(lines, 3, 1)
        if (base_a, img_a) != (base_b, img_b):
            ctx.violation('pipeline unlabelled reference', where, '@rsub mode, label creation on: `LD HL,40012` refers to an instruction without a label that an inserted instruction moves to 40016; skool2bin writes operand %d, skool2asm output assembles to operand %d' %
                          (img_b[4] + 256 * img_b[5], img_a[4] + 256 * img_a[5]))
        else:
            ctx.ok({'case': 'unlabelled reference'})
    except NotLiteral as e:
        ctx.limit('unlabelled reference', 'not foldable: %s' % e)
    except (AsmError, KeyError, IndexError, ValueError, TypeError, AttributeError, NameError) as e:
        ctx.violation('pipeline unlabelled reference', where, 'fails with %s: %s' % (type(e).__name__, e))
