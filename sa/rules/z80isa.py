"""Independent reference model of one Z80 instruction step (documented behaviour plus the agreed undocumented forms:
IXh/IXl, SLL, DDCB/FDCB register copies, ED duplicates), written from the instruction-set description.

`step(regs, rd, opts)` executes the instruction at PC.
  regs : dict slot -> value (slot numbers of skoolkit.simutils: A=0 F=1 B=2 C=3 D=4 E=5 H=6 L=7 IXh=8 IXl=9 IYh=10 IYl=11 SP=12
         I=14 R=15 A'=16 F'=17 B'..L'=18..23 PC=24 T=25 IFF=26 IM=27 HALT=28)
  rd   : function address -> byte (memory before the instruction)
  opts : dict(port_in=function(port, kind) -> byte)
Returns dict(regs=new regs, writes=[(addr, value)...] in order (ROM writes included; the caller filters), outs=[(port, value)],
             fmask=bits of F this model vouches for, t=(T-states))."""
from sa.rules import z80ref as zr

A, F, B, C, D, E, H, L, IXH, IXL, IYH, IYL, SP, I, R = 0, 1, 2, 3, 4, 5, 6, 7, 8, 9, 10, 11, 12, 14, 15
PC, T, IFF, IM, HALT = 24, 25, 26, 27, 28
R8 = [B, C, D, E, H, L, None, A]
ALL = 0xFF
DOC = 0xD7          # S Z H PV N C (bits 5 and 3 not vouched for)

class Ref:
    def __init__(self, regs, rd, opts=None):
        self.r = dict(regs)
        self.rd = rd
        self.opts = opts or {}
        self.writes = []
        self.outs = []
        self.fmask = ALL
        self.t = 0
        self.rinc = 0

    # -- helpers
    def pair(self, hi, lo): return self.r[lo] + 256 * self.r[hi]
    def setpair(self, hi, lo, v):
        self.r[hi] = (v >> 8) & 0xFF
        self.r[lo] = v & 0xFF
    def fetch(self, off): return self.rd((self.r[PC] + off) & 0xFFFF)
    def fetch16(self, off): return self.fetch(off) + 256 * self.fetch(off + 1)
    def wr(self, addr, v): self.writes.append((addr & 0xFFFF, v & 0xFF))
    def push(self, v):
        sp = (self.r[SP] - 1) & 0xFFFF
        # high byte at SP-1, low byte at SP-2; writes are reported in ascending time order low/high as the hardware does high first
        self.wr(sp, v >> 8)
        sp = (sp - 1) & 0xFFFF
        self.wr(sp, v & 0xFF)
        self.r[SP] = sp
    def pop(self):
        sp = self.r[SP]
        v = self.rd(sp) + 256 * self.rd((sp + 1) & 0xFFFF)
        self.r[SP] = (sp + 2) & 0xFFFF
        return v
    def cond(self, y):
        f = self.r[F]
        return [not f & 0x40, bool(f & 0x40), not f & 1, bool(f & 1), not f & 4, bool(f & 4), not f & 0x80, bool(f & 0x80)][y]
    def s8(self, b): return b - 256 if b > 127 else b

    def alu(self, y, n):
        a = self.r[A]
        c = self.r[F] & 1
        if y == 0: res, f = zr.add8(a, n, 0)
        elif y == 1: res, f = zr.add8(a, n, c)
        elif y == 2: res, f = zr.sub8(a, n, 0)
        elif y == 3: res, f = zr.sub8(a, n, c)
        elif y == 4: res, f = zr.and8(a, n)
        elif y == 5: res, f = zr.xor8(a, n)
        elif y == 6: res, f = zr.or8(a, n)
        else: res, f = zr.cp8(a, n)
        self.r[A], self.r[F] = res, f

    def rot(self, y, v):
        c = self.r[F] & 1
        res, f = [zr.rlc, zr.rrc, lambda x: zr.rl(c, x), lambda x: zr.rr(c, x), zr.sla, zr.sra, zr.sll, zr.srl][y](v)
        self.r[F] = f
        return res

    def add16(self, a, b):
        r = a + b
        f = (self.r[F] & 0xC4) | ((r >> 8) & 0x28)
        if (a & 0xFFF) + (b & 0xFFF) > 0xFFF: f |= 0x10
        if r > 0xFFFF: f |= 1
        self.r[F] = f
        return r & 0xFFFF

    def adc16(self, a, b):
        c = self.r[F] & 1
        r = a + b + c
        res = r & 0xFFFF
        f = (res >> 8) & 0xA8
        if res == 0: f |= 0x40
        if (a & 0xFFF) + (b & 0xFFF) + c > 0xFFF: f |= 0x10
        if (~(a ^ b) & (a ^ res)) & 0x8000: f |= 4
        if r > 0xFFFF: f |= 1
        self.r[F] = f
        return res

    def sbc16(self, a, b):
        c = self.r[F] & 1
        r = a - b - c
        res = r & 0xFFFF
        f = ((res >> 8) & 0xA8) | 2
        if res == 0: f |= 0x40
        if (a & 0xFFF) - (b & 0xFFF) - c < 0: f |= 0x10
        if ((a ^ b) & (a ^ res)) & 0x8000: f |= 4
        if r < 0: f |= 1
        self.r[F] = f
        return res

    # -- register access with index substitution
    def reg8(self, i, xh=H, xl=L):
        return self.r[{H: xh, L: xl}.get(R8[i], R8[i])]
    def setreg8(self, i, v, xh=H, xl=L):
        self.r[{H: xh, L: xl}.get(R8[i], R8[i])] = v & 0xFF

    def rp(self, p, xh=H, xl=L):
        return [(B, C), (D, E), (xh, xl), None][p]

    # -- execution
    def step(self):
        op = self.fetch(0)
        if op == 0xCB:
            self.rinc = 2
            self.cb(self.fetch(1))
            self.r[PC] = (self.r[PC] + 2) & 0xFFFF
        elif op == 0xED:
            self.rinc = 2
            self.ed(self.fetch(1))
        elif op in (0xDD, 0xFD):
            xh, xl = (IXH, IXL) if op == 0xDD else (IYH, IYL)
            op2 = self.fetch(1)
            if op2 == 0xCB:
                self.rinc = 2
                self.xycb(xh, xl)
            elif self.indexable(op2):
                self.rinc = 2
                self.r[PC] = (self.r[PC] + 1) & 0xFFFF
                self.main(op2, xh, xl, 4)
            else:
                # the prefix alone: a 4 T-state no-op; the following opcode is executed next
                self.rinc = 1
                self.t = 4
                self.r[PC] = (self.r[PC] + 1) & 0xFFFF
        else:
            self.rinc = 1
            self.main(op, H, L, 0)
        if self.rinc is not None:
            r = self.r[R]
            self.r[R] = (r & 0x80) | ((r + self.rinc) & 0x7F)
        return self

    @staticmethod
    def indexable(op):
        x, y, z = op >> 6, (op >> 3) & 7, op & 7
        if op in (0x09, 0x19, 0x29, 0x39, 0x21, 0x22, 0x2A, 0x23, 0x2B, 0x24, 0x25, 0x26, 0x2C, 0x2D, 0x2E, 0x34, 0x35, 0x36, 0xE1, 0xE3, 0xE5, 0xE9, 0xF9):
            return True
        if x == 1 and op != 0x76:
            return y in (4, 5, 6) or z in (4, 5, 6)
        if x == 2:
            return z in (4, 5, 6)
        return False

    def main(self, op, xh, xl, pre):
        """Unprefixed instruction (or the body of a DD/FD one: xh/xl substituted, pre = extra T-states)."""
        r = self.r
        x, y, z, p, q = op >> 6, (op >> 3) & 7, op & 7, (op >> 4) & 3, (op >> 3) & 1
        idx = xh != H
        def disp_addr(off):
            return (self.pair(xh, xl) + self.s8(self.fetch(off))) & 0xFFFF
        size = 1
        t = 4
        jump = None
        if x == 1:
            if op == 0x76:
                r[HALT] = 1
                self.t = 4
                return                       # PC stays on the HALT
            if z == 6:                       # LD r,(HL)/(IX+d)
                if idx:
                    self.setreg8(y, self.rd(disp_addr(1))); size, t = 2, 15
                else:
                    self.setreg8(y, self.rd(self.pair(H, L))); t = 7
            elif y == 6:                     # LD (HL)/(IX+d),r
                if idx:
                    self.wr(disp_addr(1), self.reg8(z)); size, t = 2, 15
                else:
                    self.wr(self.pair(H, L), self.reg8(z)); t = 7
            else:
                self.setreg8(y, self.reg8(z, xh, xl), xh, xl)
        elif x == 2:
            if z == 6:
                if idx:
                    self.alu(y, self.rd(disp_addr(1))); size, t = 2, 15
                else:
                    self.alu(y, self.rd(self.pair(H, L))); t = 7
            else:
                self.alu(y, self.reg8(z, xh, xl))
        elif x == 0:
            if z == 0:
                if y == 0: pass
                elif y == 1:
                    r[A], r[16] = r[16], r[A]; r[F], r[17] = r[17], r[F]
                elif y == 2:
                    r[B] = (r[B] - 1) & 0xFF
                    size = 2
                    if r[B]:
                        jump = (r[PC] + 2 + self.s8(self.fetch(1))) & 0xFFFF; t = 13
                    else:
                        t = 8
                elif y == 3:
                    jump = (r[PC] + 2 + self.s8(self.fetch(1))) & 0xFFFF; size, t = 2, 12
                else:
                    size = 2
                    if self.cond(y - 4):
                        jump = (r[PC] + 2 + self.s8(self.fetch(1))) & 0xFFFF; t = 12
                    else:
                        t = 7
            elif z == 1:
                if q == 0:
                    v = self.fetch16(1); size, t = 3, 10
                    if p == 3: r[SP] = v
                    else: self.setpair(*self.rp(p, xh, xl), v)
                else:
                    a = self.pair(xh, xl)
                    b = r[SP] if p == 3 else self.pair(*self.rp(p, xh, xl))
                    self.setpair(xh, xl, self.add16(a, b)); t = 11
            elif z == 2:
                if p == 0 and q == 0: self.wr(self.pair(B, C), r[A]); t = 7
                elif p == 1 and q == 0: self.wr(self.pair(D, E), r[A]); t = 7
                elif p == 0 and q == 1: r[A] = self.rd(self.pair(B, C)); t = 7
                elif p == 1 and q == 1: r[A] = self.rd(self.pair(D, E)); t = 7
                elif p == 2 and q == 0:
                    nn = self.fetch16(1); self.wr(nn, r[xl]); self.wr(nn + 1, r[xh]); size, t = 3, 16
                elif p == 2 and q == 1:
                    nn = self.fetch16(1); r[xl] = self.rd(nn); r[xh] = self.rd((nn + 1) & 0xFFFF); size, t = 3, 16
                elif p == 3 and q == 0:
                    self.wr(self.fetch16(1), r[A]); size, t = 3, 13
                else:
                    r[A] = self.rd(self.fetch16(1)); size, t = 3, 13
            elif z == 3:
                d = 1 if q == 0 else -1
                t = 6
                if p == 3: r[SP] = (r[SP] + d) & 0xFFFF
                else:
                    hi, lo = self.rp(p, xh, xl)
                    self.setpair(hi, lo, (self.pair(hi, lo) + d) & 0xFFFF)
            elif z in (4, 5):
                c = r[F] & 1
                fn = zr.inc8 if z == 4 else zr.dec8
                if y == 6:
                    if idx:
                        a = disp_addr(1); size, t = 2, 19
                    else:
                        a = self.pair(H, L); t = 11
                    res, f = fn(c, self.rd(a)); self.wr(a, res); r[F] = f
                else:
                    res, f = fn(c, self.reg8(y, xh, xl)); self.setreg8(y, res, xh, xl); r[F] = f
            elif z == 6:
                if y == 6:
                    if idx:
                        self.wr(disp_addr(1), self.fetch(2)); size, t = 3, 15
                    else:
                        self.wr(self.pair(H, L), self.fetch(1)); size, t = 2, 10
                else:
                    self.setreg8(y, self.fetch(1), xh, xl); size, t = 2, 7
            else:
                a, f = r[A], r[F]
                if y == 0: r[A], r[F] = zr.rlca(a, f)
                elif y == 1: r[A], r[F] = zr.rrca(a, f)
                elif y == 2: r[A], r[F] = zr.rla(a, f)
                elif y == 3: r[A], r[F] = zr.rra(a, f)
                elif y == 4: r[A], r[F] = zr.daa(a, f)
                elif y == 5: r[A], r[F] = zr.cpl(a, f)
                elif y == 6: r[F] = zr.scf(f, a)
                else: r[F] = zr.ccf(f, a)
        else:  # x == 3
            if z == 0:
                if self.cond(y): jump = self.pop(); t = 11
                else: t = 5
            elif z == 1:
                if q == 0:
                    v = self.pop(); t = 10
                    if p == 3: r[A], r[F] = v >> 8, v & 0xFF
                    else: self.setpair(*self.rp(p, xh, xl), v)
                elif p == 0: jump = self.pop(); t = 10
                elif p == 1:
                    for a_, b_ in ((B, 18), (C, 19), (D, 20), (E, 21), (H, 22), (L, 23)):
                        r[a_], r[b_] = r[b_], r[a_]
                elif p == 2: jump = self.pair(xh, xl)
                else: r[SP] = self.pair(xh, xl); t = 6
            elif z == 2:
                size, t = 3, 10
                if self.cond(y): jump = self.fetch16(1)
            elif z == 3:
                if y == 0: jump = self.fetch16(1); size, t = 3, 10
                elif y == 2:
                    port = self.fetch(1) + 256 * r[A]; self.outs.append((port, r[A])); size, t = 2, 11
                elif y == 3:
                    port = self.fetch(1) + 256 * r[A]; r[A] = self.opts['port_in'](port, 'in_a_n'); size, t = 2, 11
                elif y == 4:
                    sp = r[SP]
                    lo, hi = self.rd(sp), self.rd((sp + 1) & 0xFFFF)
                    self.wr(sp, r[xl]); self.wr(sp + 1, r[xh])
                    r[xl], r[xh] = lo, hi; t = 19
                elif y == 5:
                    r[D], r[H] = r[H], r[D]; r[E], r[L] = r[L], r[E]
                elif y == 6: r[IFF] = 0
                else: r[IFF] = 1
            elif z == 4:
                size = 3
                if self.cond(y):
                    nn = self.fetch16(1); self.push((r[PC] + 3) & 0xFFFF); jump = nn; t = 17
                else:
                    t = 10
            elif z == 5:
                if q == 0:
                    t = 11
                    if p == 3: self.push(r[A] * 256 + r[F])
                    else: self.push(self.pair(*self.rp(p, xh, xl)))
                elif p == 0:
                    nn = self.fetch16(1); self.push((r[PC] + 3) & 0xFFFF); jump = nn; size, t = 3, 17
            elif z == 6:
                self.alu(y, self.fetch(1)); size, t = 2, 7
            else:
                self.push((r[PC] + 1) & 0xFFFF); jump = y * 8; t = 11
        self.t = t + pre
        r[PC] = jump if jump is not None else (r[PC] + size) & 0xFFFF

    def cb(self, op):
        r = self.r
        x, y, z = op >> 6, (op >> 3) & 7, op & 7
        if z == 6:
            a = self.pair(H, L)
            v = self.rd(a)
            if x == 0: self.wr(a, self.rot(y, v)); self.t = 15
            elif x == 1:
                r[F] = zr.bit(r[F] & 1, y, v); self.fmask = DOC; self.t = 12
            elif x == 2: self.wr(a, v & ~(1 << y)); self.t = 15
            else: self.wr(a, v | (1 << y)); self.t = 15
        else:
            v = self.reg8(z)
            self.t = 8
            if x == 0: self.setreg8(z, self.rot(y, v))
            elif x == 1: r[F] = zr.bit(r[F] & 1, y, v)
            elif x == 2: self.setreg8(z, v & ~(1 << y))
            else: self.setreg8(z, v | (1 << y))

    def xycb(self, xh, xl):
        r = self.r
        a = (self.pair(xh, xl) + self.s8(self.fetch(2))) & 0xFFFF
        op = self.fetch(3)
        x, y, z = op >> 6, (op >> 3) & 7, op & 7
        v = self.rd(a)
        if x == 1:
            r[F] = zr.bit(r[F] & 1, y, v); self.fmask = DOC; self.t = 20
        else:
            if x == 0: res = self.rot(y, v)
            elif x == 2: res = v & ~(1 << y)
            else: res = v | (1 << y)
            self.wr(a, res)
            if z != 6:
                self.setreg8(z, res)          # undocumented: result also copied to the register
            self.t = 23
        r[PC] = (r[PC] + 4) & 0xFFFF

    def ed(self, op):
        r = self.r
        x, y, z, p, q = op >> 6, (op >> 3) & 7, op & 7, (op >> 4) & 3, (op >> 3) & 1
        size = 2
        t = 8
        jump = None
        if x == 1:
            if z == 0:
                port = self.pair(B, C)
                v = self.opts['port_in'](port, 'in_r_c')
                if y != 6: self.setreg8(y, v)
                r[F] = zr.sz53(v) | zr.parity(v) | (r[F] & 1); t = 12
            elif z == 1:
                self.outs.append((self.pair(B, C), 0 if y == 6 else self.reg8(y))); t = 12
            elif z == 2:
                b = r[SP] if p == 3 else self.pair(*self.rp(p))
                hl = self.pair(H, L)
                self.setpair(H, L, self.sbc16(hl, b) if q == 0 else self.adc16(hl, b)); t = 15
            elif z == 3:
                nn = self.fetch16(2); size, t = 4, 20
                if q == 0:
                    v = r[SP] if p == 3 else self.pair(*self.rp(p))
                    self.wr(nn, v & 0xFF); self.wr(nn + 1, v >> 8)
                else:
                    v = self.rd(nn) + 256 * self.rd((nn + 1) & 0xFFFF)
                    if p == 3: r[SP] = v
                    else: self.setpair(*self.rp(p), v)
            elif z == 4:
                r[A], r[F] = zr.neg8(r[A])
            elif z == 5:
                jump = self.pop(); t = 14       # RETN / RETI (IFF2 is not modelled by the simulators)
            elif z == 6:
                r[IM] = [0, 0, 1, 2, 0, 0, 1, 2][y]
            else:
                if y == 0: r[I] = r[A]; t = 9
                elif y == 1: r[R] = r[A]; t = 9; self.rinc = None
                elif y in (2, 3):
                    v = r[I] if y == 2 else ((r[R] & 0x80) | ((r[R] + 2) & 0x7F))
                    r[A] = v
                    r[F] = zr.sz53(v) | (4 if r[IFF] else 0) | (r[F] & 1); t = 9
                elif y == 4:
                    a = self.pair(H, L); m = self.rd(a)
                    self.wr(a, ((m >> 4) | (r[A] << 4)) & 0xFF)
                    r[A] = (r[A] & 0xF0) | (m & 0x0F)
                    r[F] = zr.sz53(r[A]) | zr.parity(r[A]) | (r[F] & 1); t = 18
                elif y == 5:
                    a = self.pair(H, L); m = self.rd(a)
                    self.wr(a, ((m << 4) | (r[A] & 0x0F)) & 0xFF)
                    r[A] = (r[A] & 0xF0) | (m >> 4)
                    r[F] = zr.sz53(r[A]) | zr.parity(r[A]) | (r[F] & 1); t = 18
        elif x == 2 and z <= 3 and y >= 4:
            inc = 1 if y in (4, 6) else -1
            rep = y >= 6
            hl, de, bc = self.pair(H, L), self.pair(D, E), self.pair(B, C)
            again = False
            t = 16
            if z == 0:      # LDI/LDD/LDIR/LDDR
                v = self.rd(hl); self.wr(de, v)
                self.setpair(H, L, (hl + inc) & 0xFFFF); self.setpair(D, E, (de + inc) & 0xFFFF)
                bc = (bc - 1) & 0xFFFF; self.setpair(B, C, bc)
                n = (v + r[A]) & 0xFF
                r[F] = (r[F] & 0xC1) | (4 if bc else 0) | (n & 8) | ((n & 2) << 4)
                again = rep and bc != 0
                if again: self.fmask = DOC
            elif z == 1:    # CPI/CPD/CPIR/CPDR
                v = self.rd(hl)
                res = (r[A] - v) & 0xFF
                hf = 0x10 if ((r[A] & 15) - (v & 15)) < 0 else 0
                self.setpair(H, L, (hl + inc) & 0xFFFF)
                bc = (bc - 1) & 0xFFFF; self.setpair(B, C, bc)
                n = (res - (1 if hf else 0)) & 0xFF
                r[F] = (res & 0x80) | (0x40 if res == 0 else 0) | hf | (4 if bc else 0) | 2 | (r[F] & 1) | (n & 8) | ((n & 2) << 4)
                again = rep and bc != 0 and res != 0
                if again: self.fmask = DOC
            elif z == 2:    # INI/IND/INIR/INDR
                v = self.opts['port_in'](bc, 'ini')
                self.wr(hl, v)
                self.setpair(H, L, (hl + inc) & 0xFFFF)
                r[B] = (r[B] - 1) & 0xFF
                r[F] = (0x40 if r[B] == 0 else 0)
                self.fmask = 0x40
                again = rep and r[B] != 0
            else:           # OUTI/OUTD/OTIR/OTDR
                v = self.rd(hl)
                r[B] = (r[B] - 1) & 0xFF
                self.outs.append((self.pair(B, C), v))
                self.setpair(H, L, (hl + inc) & 0xFFFF)
                r[F] = (0x40 if r[B] == 0 else 0)
                self.fmask = 0x40
                again = rep and r[B] != 0
            if again:
                t = 21
                jump = r[PC]
        # everything else in the ED page is an 8 T-state no-op
        self.t = t
        r[PC] = jump if jump is not None else (r[PC] + size) & 0xFFFF

def step(regs, rd, opts=None):
    return Ref(regs, rd, opts).step()
