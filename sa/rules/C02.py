"""C02 - assembler and disassembler are mutual inverses (table / format agreement clauses)."""
import ast, re
from sa.core import pyfacts, tabfacts, report
from sa.core.pyfacts import Lit, NotLiteral, FactError, ObjFolder, ModFolder, FuncFold
from sa.rules.C07operands import DisFolder

EXPLANATION = (
    "Decides necessary conditions of the round trip from source: (1) over the disassembler tables under every Opcodes= set, two opcode "
    "sequences that render to the same text are never both un-flagged (all but the canonical one carry VARIANT, so @bytes is emitted), and the "
    "lower-case rebuild of the tables keeps decoder and flag of every entry; (2) every zero-operand mnemonic the assembler holds as a literal "
    "tuple equals the un-flagged disassembler slot with that text; (3) every operand the formatter can emit for a byte or word - all 256 byte "
    "values and boundary words, every base letter, both cases, decimal and hex defaults - is read back by get_int_param to the same value and "
    "lies inside the range the assembler's operand parser accepts (folded); character operands escape exactly the codes the reader treats "
    "specially; the hex/binary/decimal literal patterns used to evaluate expressions accept every digit either case of the formatter emits; "
    "(4) the relative-jump decoder and the assembler's offset encoder are inverse for all 256 displacement bytes at addresses across the whole "
    "range including both wrap zones; (5) index displacements +d/-d are inverse on 0..255. Not decided: arbitrary operand expressions, odd "
    "white space, the assembler's per-mnemonic operand grammar.")

def entries(dec):
    for (fam, b), d in dec.items():
        if d['kind'] == 'op':
            yield fam, b, d

PFX = {'ops': (), 'after_CB': (0xCB,), 'after_ED': (0xED,), 'after_DD': (0xDD,), 'after_FD': (0xFD,), 'after_DDCB': (0xDD, 0xCB), 'after_FDCB': (0xFD, 0xCB)}

def injectivity(ctx, repo, dis):
    ctx.rule('C02.1-injective', 'per Opcodes= set: one un-flagged opcode sequence per operation text; every other carries VARIANT', floor=9)
    from sa.rules.C07 import option_sets
    for opts in option_sets(dis):
        dec = dis.decode_all(opts)
        by = {}
        for fam, b, d in entries(dec):
            by.setdefault((d['text'], d['decoder']), []).append((PFX[fam] + (b,), d['variant'], fam, b))
        bad = []
        for (text, decoder), lst in by.items():
            plain = [x for x in lst if not x[1]]
            if len(plain) > 1:
                bad.append((text, [''.join('%02X' % v for v in x[0]) for x in plain]))
        if bad:
            for text, seqs in bad[:5]:
                ctx.violation('text %r opts %s' % (text, ','.join(opts)), 'skoolkit/disassembler.py',
                              'under Opcodes=%s the sequences %s all disassemble to %r without the VARIANT flag: only one of them can be reassembled from the text' % (','.join(opts) or '(none)', seqs, text))
        else:
            ctx.ok({'options': ','.join(opts) or '(none)', 'texts': len(by)})
    # lower-case rebuild keeps decoder and flags
    ctx.rule('C02.1-lowercase', 'the asm_lower rebuild of each table keeps the decoder and the VARIANT flag of every entry', floor=5)
    init = dis.methods['__init__']
    rebuilds = []
    for n in ast.walk(init):
        if isinstance(n, ast.If) and ast.unparse(n.test) == 'config.asm_lower':
            for st in n.body:
                if isinstance(st, ast.Assign) and isinstance(st.targets[0], ast.Attribute) and isinstance(st.value, ast.DictComp):
                    rebuilds.append((st.targets[0].attr, st.value, st.lineno))
    if len(rebuilds) < 5:
        raise FactError('skoolkit/disassembler.py: lower-case table rebuilds not found (%d)' % len(rebuilds))
    tables = dis.tables(tuple(dis.all_options))
    for attr, comp, line in rebuilds:
        def opq(n, attr=attr):
            if isinstance(n, ast.Attribute) and isinstance(n.value, ast.Name) and n.value.id == 'self' and n.attr in tables:
                return tables[n.attr]
            return None
        new = Lit(repo, 'disassembler', {}, opq).ev(comp)
        old = tables[attr]
        problems = []
        if set(new) != set(old):
            problems.append('keys change')
        else:
            for k, v in old.items():
                w = new[k]
                if isinstance(v, str):
                    if w != v.lower():
                        problems.append('entry 0x%02X text' % k)
                else:
                    if tuple(w[:1]) != tuple(v[:1]) or w[1] != v[1].lower() or tuple(w[2:]) != tuple(v[2:]):
                        problems.append('entry 0x%02X: %r -> %r' % (k, v, w))
                if len(problems) > 2:
                    break
        if problems:
            ctx.violation('lowercase ' + attr, 'skoolkit/disassembler.py:%d' % line, 'lower-case rebuild of self.%s does not preserve decoder/flags: %s' % (attr, '; '.join(problems[:3])))
        else:
            ctx.ok({'table': attr, 'entries': len(old)})

def zero_operand(ctx, repo, dis):
    ctx.rule('C02.2-zero-operand', 'literal opcode tuples in Assembler.mnemonics == the un-flagged disassembler slot with that text', floor=30)
    z = repo.mod('z80')
    init = z.method('Assembler', '__init__')
    mn = None
    for n in ast.walk(init):
        if isinstance(n, ast.Dict) and len(n.keys) > 40:
            mn = n
    if mn is None:
        raise FactError('skoolkit/z80.py: Assembler.mnemonics dict not found')
    dec = dis.decode_all(())
    text2seq = {}
    for fam, b, d in entries(dec):
        if d['decoder'] in ('no_arg', 'cb_arg') and not d['variant']:
            text2seq.setdefault(d['text'], []).append(PFX[fam] + (b,))
    n = 0
    for k, v in zip(mn.keys, mn.values):
        if isinstance(v, ast.Tuple):
            n += 1
            key = k.value
            seq = tuple(Lit(repo, 'z80').ev(v))
            where = 'skoolkit/z80.py:%d' % v.lineno
            if text2seq.get(key) != [seq]:
                ctx.violation('mnemonic ' + key, where, "assembler encodes %s as %s but the disassembler decodes %s from %s" % (key, list(seq), key, text2seq.get(key)))
            else:
                ctx.ok({'mnemonic': key, 'bytes': list(seq)})
    if n < 30:
        raise FactError('skoolkit/z80.py: only %d literal mnemonics found' % n)

def number_syntax(ctx, repo):
    ctx.rule('C02.3-numbers', 'every operand text the formatter emits (all bytes, boundary words, all bases, both cases/defaults) reads back to the same value within the accepted range', floor=24)
    z = repo.mod('z80')
    pe = z.method('Assembler', '_parse_expr')
    # the acceptance predicate of the operand parser: `if not (abs(value) >= limit or (non_neg and value < 0)): return value % limit`
    pred = None
    for n in ast.walk(pe):
        if isinstance(n, ast.If) and 'limit' in ast.unparse(n.test) and any(isinstance(s, ast.Return) for s in n.body):
            pred = n
    if pred is None:
        raise FactError('skoolkit/z80.py: acceptance test of Assembler._parse_expr not recognised')
    ret = [s for s in pred.body if isinstance(s, ast.Return)][0]
    zf = ModFolder(repo, 'z80')
    words = [0, 1, 255, 256, 257, 0x7FFF, 0x8000, 0xFF00, 0xFFFE, 0xFFFF, 0x1234, 0xABCD]
    for hexm in (0, 1):
        for lower in (0, 1):
            def hook(n, lit, of, cfg={'asm_hex': hexm, 'asm_lower': lower}):
                if isinstance(n, ast.Attribute) and isinstance(n.value, ast.Name) and n.value.id == 'config':
                    return cfg.get(n.attr)
                return None
            of = ObjFolder(repo, 'disassembler', 'OperandFormatter', extra_hook=hook)
            of.call('__init__', [None])
            for base in ('b', 'c', 'd', 'h', 'm', 'n'):
                for nbytes, dom, limit in ((1, range(256), 256), (2, words, 65536)):
                    bad = None
                    for v in dom:
                        try:
                            text = of.call('_num_str', [v, nbytes, base])
                        except NotLiteral as e:
                            raise FactError('skoolkit/disassembler.py: OperandFormatter._num_str not foldable: %s' % e)
                        plain = text
                        try:
                            got = zf.call('eval_int', [text])
                        except ValueError:
                            bad = (v, text, 'rejected by the operand evaluator (eval_int)')
                            break
                        except NotLiteral as e:
                            raise FactError('skoolkit/z80.py: eval_int not foldable on %r: %s' % (text, e))
                        if text.startswith('"') and not text.endswith('"'):
                            plain = text.rpartition('+')[0]
                        env = {'value': got, 'limit': limit, 'non_neg': False}
                        accepted = Lit(repo, 'z80', env).ev(pred.test)
                        if not accepted:
                            bad = (v, text, 'value %d is outside the range the operand parser accepts (limit %d)' % (got, limit))
                            break
                        back = Lit(repo, 'z80', env).ev(ret.value)
                        if back != v:
                            bad = (v, text, 'reads back as %d' % back)
                            break
                        if text.startswith('"'):
                            body = plain[1:-1]
                            if body in ('"', '\\') or (len(body) == 2 and body[0] != '\\'):
                                bad = (v, text, 'quote/backslash not escaped')
                                break
                    name = 'hex=%d lower=%d base=%s bytes=%d' % (hexm, lower, base, nbytes)
                    if bad:
                        ctx.violation('format ' + name, 'skoolkit/disassembler.py (OperandFormatter._num_str)',
                                      'operand value %d in base %r (%d byte, hex default %d, lower case %d) is written as %s: %s' % (bad[0], base, nbytes, hexm, lower, bad[1], bad[2]))
                    else:
                        ctx.ok({'config': name, 'values': len(dom)})
    # literal patterns used when an operand is an expression
    ctx.rule('C02.3-literal-patterns', 'regex literals for $hex / %binary numbers accept every digit (either case) the formatter can emit', floor=2)
    import re._parser as sre
    for modname, fname in (('z80', '_convert_nums'), ('skoolparser', '_replace_nums')):
        mod = repo.mod(modname)
        fn = mod.funcs.get(fname)
        if fn is None:
            for c in mod.classes:
                if fname in mod.methods(c):
                    fn = mod.methods(c)[fname]
        if fn is None:
            raise FactError('skoolkit/%s.py: %s not found' % (modname, fname))
        pats = [n.value for n in ast.walk(fn) if isinstance(n, ast.Constant) and isinstance(n.value, str) and ('[0-9' in n.value or '[01' in n.value)]
        if not pats:
            raise FactError('skoolkit/%s.py: no numeric literal pattern found in %s' % (modname, fname))
        for pat in pats:
            problems = []
            for prefix, need in (('$', set('0123456789ABCDEFabcdef')), ('%', set('01'))):
                for m in re.finditer(re.escape('\\' + prefix) + r'(\[[^\]]+\])', pat):
                    cls = m.group(1)
                    parsed = sre.parse(cls)
                    allowed = set()
                    for op, arg in parsed:
                        if str(op) == 'IN':
                            for o2, a2 in arg:
                                if str(o2) == 'LITERAL':
                                    allowed.add(chr(a2))
                                elif str(o2) == 'RANGE':
                                    allowed.update(chr(c) for c in range(a2[0], a2[1] + 1))
                    missing = need - allowed
                    if missing:
                        problems.append('%s-literals: class %s lacks %s' % (prefix, cls, ''.join(sorted(missing))))
            where = 'skoolkit/%s.py:%d' % (modname, fn.lineno)
            if problems:
                ctx.violation('%s.%s pattern' % (modname, fname), where, 'pattern %r: %s' % (pat[:60], '; '.join(problems)))
            else:
                ctx.ok({'function': '%s.%s' % (modname, fname), 'pattern': pat[:60]})

def jumps(ctx, repo, dis):
    ctx.rule('C02.4-jr', 'relative jumps: disassembler target and assembler offset encoder are inverse for all 256 displacement bytes at addresses over the whole range', floor=20)
    tables = dis.tables(())
    df = DisFolder(repo, dis, tables)
    def hook(n, lit, of):
        if isinstance(n, ast.Call) and isinstance(n.func, ast.Attribute) and n.func.attr == 'eval_int' and ast.unparse(n.func.value) == 'self.op_evaluator':
            return ModFolder(repo, 'z80').call('eval_int', [lit.ev(n.args[0])])
        return None
    of = ObjFolder(repo, 'z80', 'Assembler', extra_hook=hook)
    addrs = [0, 1, 2, 100, 126, 127, 128, 129, 130, 0x7FFF, 0x8000] + list(range(65400, 65416)) + list(range(65530, 65536))
    if ctx.tier == 'thorough':
        addrs = sorted(set(addrs) | set(range(65380, 65536)) | set(range(0, 65536, 257)) | set(range(0, 140)))
    step = 1
    for address in addrs:
        bad = None
        for off in range(0, 256, step):
            mem = [0] * 65536
            mem[address] = 0x18
            mem[(address + 1) & 65535] = off
            r = df.decode(mem, address)
            if r and r[0] == 'DEFB':
                continue
            text = r[0]
            if not text.startswith('JR '):
                bad = (off, 'disassembled as %r' % (text,))
                break
            try:
                enc = of.call('_address_offset', [address, text[3:]])
            except ValueError:
                bad = (off, 'the assembler rejects %r' % text)
                break
            if enc != off:
                bad = (off, 'the assembler encodes %r as displacement 0x%02X' % (text, enc))
                break
        if bad:
            ctx.violation('jr at %d' % address, 'skoolkit/disassembler.py (jr_arg) / skoolkit/z80.py (_address_offset)',
                          'JR with displacement byte 0x%02X at address %d: %s' % (bad[0], address, bad[1]))
        else:
            ctx.ok({'address': address, 'displacements': 256})

def index_offsets(ctx, repo, dis):
    ctx.rule('C02.5-index', 'index displacement text (+d / -d) and the assembler offset parser are inverse on 0..255', floor=1)
    tables = dis.tables(())
    df = DisFolder(repo, dis, tables)
    def hook(n, lit, of):
        if isinstance(n, ast.Call) and isinstance(n.func, ast.Attribute) and n.func.attr == 'eval_int' and ast.unparse(n.func.value) == 'self.op_evaluator':
            return ModFolder(repo, 'z80').call('eval_int', [lit.ev(n.args[0])])
        return None
    of = ObjFolder(repo, 'z80', 'Assembler', extra_hook=hook)
    bad = None
    for d in range(256):
        mem = [0] * 65536
        mem[0x8000:0x8003] = [0xDD, 0x34, d]
        r = df.decode(mem, 0x8000)
        text = r[0]       # INC (IX+d)
        op = text.split(' ', 1)[1]
        try:
            enc = of.call('_parse_offset', [op])
        except ValueError:
            bad = (d, text, 'rejected')
            break
        if enc % 256 != d:
            bad = (d, text, 'encoded as 0x%02X' % enc)
            break
    if bad:
        ctx.violation('index offset', 'skoolkit/disassembler.py (index_offset) / skoolkit/z80.py (_parse_offset)', 'displacement byte 0x%02X is written as %r and %s by the assembler' % bad)
    else:
        ctx.ok({'displacements': 256})

def run(ctx):
    repo = pyfacts.Repo(ctx.repo_root)
    dis = tabfacts.DisTables(repo)
    injectivity(ctx, repo, dis)
    zero_operand(ctx, repo, dis)
    number_syntax(ctx, repo)
    jumps(ctx, repo, dis)
    index_offsets(ctx, repo, dis)
    from sa.rules import C02round
    C02round.run(ctx, repo)
    from sa.rules import memo
    memo.run_for(ctx, repo, 'C02')
    return report.finish(ctx, EXPLANATION)
