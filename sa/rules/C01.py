"""C01 - sna2skool output reassembles to the original bytes (structural clauses)."""
import ast
from sa.core import pyfacts, tabfacts, report
from sa.core.pyfacts import Lit, NotLiteral, FactError
from sa.rules.C07operands import DisFolder

EXPLANATION = (
    "Decides structural necessary conditions of losslessness: (1) every instruction decoder of the disassembler reads exactly the bytes of the "
    "length it declares (both decoders folded on a memory that records reads: no byte is emitted twice or skipped), for all 7x256 sequences; "
    "(2) the VARIANT flag of the opcode tables reaches the skool file as an @bytes directive on every path (disassemble() sets .variant on "
    "every instruction it creates; _add_instructions appends @bytes built from instruction.bytes unless one is present) and skool2bin takes the "
    "directive's bytes in preference to assembling, for both size and content; (3) the base letters accepted by the control-file parser are "
    "the keys of both operand-format tables and of the control-directive composer's tables; (4) inside the per-sub-block loop of "
    "Disassembly._create_entries every disassembler range call is bounded by that sub-block's own end (statements cannot spill into the next "
    "sub-block); (5) the operand text/number syntax rules of C02 (shared). Not decided: the round trip itself for arbitrary memory, control "
    "files and option combinations (text processing).")

class RecMem(list):
    """A list that records which indices are read."""
    def __init__(self, data):
        super().__init__(data)
        self.reads = set()
    def __getitem__(self, i):
        if isinstance(i, slice):
            self.reads.update(range(*i.indices(len(self))))
        else:
            self.reads.add(i)
        return super().__getitem__(i)

PFX = {'ops': [], 'after_CB': [0xCB], 'after_ED': [0xED], 'after_DD': [0xDD], 'after_FD': [0xFD], 'after_DDCB': [0xDD, 0xCB, 0x05], 'after_FDCB': [0xFD, 0xCB, 0x05]}

def extent_rule(ctx, repo, dis):
    ctx.rule('C01.1-extent', 'each instruction decoder reads exactly the bytes of the length it returns', floor=1786)
    allopts = tuple(dis.all_options)
    tables = dis.tables(allopts)
    full = dis.decode_all(allopts)
    df = DisFolder(repo, dis, tables)
    address = 0x8000
    for fam, pre in PFX.items():
        for b in range(256):
            d = full[(fam, b)]
            if d['kind'] == 'prefix':
                continue
            seq = pre + [b]
            name = ''.join('%02X' % x for x in seq)
            mem = RecMem([0] * 65536)
            for i, x in enumerate(seq):
                list.__setitem__(mem, address + i, x)
            for i in range(len(seq), 6):
                list.__setitem__(mem, address + i, 0x11)
            try:
                r = df.decode(mem, address)
            except NotLiteral as e:
                ctx.limit(name, 'decoder not foldable: %s' % e)
                continue
            if r and r[0] == 'DEFB':
                length = r[1]
                reads = {a for a in mem.reads if a >= address}
                # the DEFB fallback is modelled by the hook: length only
                want = set(range(address, address + len(seq)))
                ok = reads >= want - {address + length} and max(reads) < address + max(length, len(seq))
                got_len = length
            else:
                got_len = r[1]
                reads = {a for a in mem.reads if a >= address}
                ok = reads == set(range(address, address + got_len)) or (reads <= set(range(address, address + got_len)) and max(reads) == address + got_len - 1)
            if got_len != d['length']:
                ok = False
            if not ok:
                ctx.violation(name, 'skoolkit/disassembler.py', 'decoding %s returns length %s but reads offsets %s' % (name, got_len, sorted(a - address for a in reads)))
            else:
                ctx.ok({'seq': name, 'length': got_len, 'offsets read': sorted(a - address for a in reads)})

def variant_rule(ctx, repo, dis):
    ctx.rule('C01.2-variant-bytes', 'VARIANT flag -> instruction.variant -> @bytes directive -> skool2bin uses the directive bytes (must-pass-through)', floor=5)
    fn = dis.methods['disassemble']
    loops = [n for n in fn.body if isinstance(n, ast.While)]
    if len(loops) != 1:
        raise FactError('skoolkit/disassembler.py: Disassembler.disassemble loop not recognised')
    body = loops[0].body
    # every assignment `instruction = ...` in the loop body (any nesting) must be followed, at loop-body level, by `instruction.variant = flags & VARIANT` before `instructions.append(instruction)`
    idx_variant = idx_append = None
    creations = []
    for i, st in enumerate(body):
        for n in ast.walk(st):
            if isinstance(n, ast.Assign) and isinstance(n.targets[0], ast.Name) and n.targets[0].id == 'instruction':
                creations.append(i)
        if isinstance(st, ast.Assign) and ast.unparse(st.targets[0]) == 'instruction.variant':
            idx_variant = i
            vsrc = ast.unparse(st.value)
        if isinstance(st, ast.Expr) and ast.unparse(st.value) == 'instructions.append(instruction)':
            idx_append = i
    where = 'skoolkit/disassembler.py:%d' % fn.lineno
    if idx_variant is None or idx_append is None or not creations or max(creations) > idx_variant or idx_variant > idx_append:
        ctx.violation('disassemble variant', where, 'an instruction can be appended without its .variant being set from the table flag')
    elif vsrc.replace(' ', '') != 'flags&VARIANT':
        ctx.violation('disassemble variant', where, '.variant is set from `%s`, not from the table flag' % vsrc)
    else:
        ctx.ok({'function': 'Disassembler.disassemble', 'creations': len(creations), 'variant set before append': True})
    # flags come from the prefix decoders' third return element
    for name in ('ed_arg', 'dd_arg', 'ddcb_arg'):
        f2 = dis.methods[name]
        rets = [r for r in ast.walk(f2) if isinstance(r, ast.Return)]
        bad = [ast.unparse(r.value) for r in rets if isinstance(r.value, ast.Tuple) and len(r.value.elts) == 3 and name != 'dd_arg' and ast.unparse(r.value.elts[2]) not in ('flags', '0')]
        tmpl_branch = [n for n in f2.body if isinstance(n, ast.If) and isinstance(n.test, ast.Name) and n.test.id == 'template']
        ok = True
        if name in ('ed_arg', 'ddcb_arg'):
            ok = bool(tmpl_branch) and any(isinstance(r, ast.Return) and isinstance(r.value, ast.Tuple) and ast.unparse(r.value.elts[-1]) == 'flags' for r in tmpl_branch[0].body)
        if bad or not ok:
            ctx.violation('flags ' + name, 'skoolkit/disassembler.py:%d' % f2.lineno, '%s does not return the table flag with the decoded instruction' % name)
        else:
            ctx.ok({'function': name, 'returns flags': True})
    # snaskool._add_instructions
    sk = repo.mod('snaskool')
    ai = sk.method('Disassembly', '_add_instructions')
    src = ast.unparse(ai)
    def attrs(node):
        return {x.attr for x in ast.walk(node) if isinstance(x, ast.Attribute)}
    cond = [n for n in ast.walk(ai) if isinstance(n, ast.If) and 'variant' in attrs(n.test)]
    ok = False
    flagname = None
    if len(cond) == 1:
        c = cond[0]
        body_attrs = set()
        for st in c.body:
            body_attrs |= attrs(st)
        writes = any(isinstance(x, (ast.AugAssign, ast.Assign)) and 'asm_directives' in attrs(x.target if isinstance(x, ast.AugAssign) else x.targets[0]) for st in c.body for x in ast.walk(st))
        ok = writes and 'bytes' in body_attrs
        # other conjuncts may only be `not <flag>` where the flag records an explicit @bytes directive
        t = c.test
        for v in (t.values if isinstance(t, ast.BoolOp) and isinstance(t.op, ast.And) else [t]):
            if 'variant' in attrs(v):
                continue
            if isinstance(v, ast.UnaryOp) and isinstance(v.op, ast.Not) and isinstance(v.operand, ast.Name):
                flagname = v.operand.id
            else:
                ok = False
    loops = [n for n in ai.body if isinstance(n, ast.For)]
    reset_ok = True
    if flagname:
        # the flag is reset for every instruction and set only where an @bytes directive is recognised
        reset_ok = bool(loops) and any(isinstance(s_, ast.Assign) and isinstance(s_.targets[0], ast.Name) and s_.targets[0].id == flagname
                                       and isinstance(s_.value, ast.Constant) and s_.value.value is False for s_ in loops[0].body)
        sets = [n for n in ast.walk(ai) if isinstance(n, ast.Assign) and isinstance(n.targets[0], ast.Name) and n.targets[0].id == flagname
                and isinstance(n.value, ast.Constant) and n.value.value is True]
        reset_ok = reset_ok and len(sets) == 1
    if not ok or not reset_ok:
        ctx.violation('snaskool @bytes', 'skoolkit/snaskool.py:%d' % ai.lineno, 'a variant instruction without an explicit @bytes directive does not always receive one built from instruction.bytes')
    else:
        ctx.ok({'function': 'Disassembly._add_instructions', 'condition': 'instruction.variant and not has_bytes'})
    # skool2bin
    sb = repo.mod('skool2bin')
    gs = sb.method('BinWriter', '_get_size')
    first = gs.body[0]
    if not (isinstance(first, ast.If) and isinstance(first.test, ast.Name) and first.test.id in [a.arg for a in gs.args.args]
            and any(isinstance(x, ast.Call) and isinstance(x.func, ast.Name) and x.func.id == 'len' and ast.unparse(x.args[0]) == first.test.id for x in ast.walk(first.body[0]))):
        ctx.violation('skool2bin size', 'skoolkit/skool2bin.py:%d' % gs.lineno, '_get_size no longer takes the size from the @bytes values first')
    else:
        ctx.ok({'function': 'BinWriter._get_size', 'prefers': 'len(bvalues)'})
    rl = sb.method('BinWriter', '_relocate')
    ifs = [n for n in ast.walk(rl) if isinstance(n, ast.If) and isinstance(n.test, ast.Attribute) and n.test.attr == 'bvalues']
    def calls(node, name):
        return any(isinstance(x, ast.Call) and isinstance(x.func, ast.Attribute) and x.func.attr == name for st in node for x in ast.walk(st))
    if len(ifs) != 1 or not calls(ifs[0].body, '_poke') or not any(isinstance(x, ast.Attribute) and x.attr == 'bvalues' for st in ifs[0].body for x in ast.walk(st)) \
       or not calls(ifs[0].orelse, 'assemble'):
        ctx.violation('skool2bin content', 'skoolkit/skool2bin.py:%d' % rl.lineno, '_relocate no longer pokes the @bytes values in preference to assembling')
    else:
        ctx.ok({'function': 'BinWriter._relocate', 'prefers': 'i.bvalues'})

def base_rule(ctx, repo):
    ctx.rule('C01.3-bases', 'base letters: ctlparser.BASES == OperandFormatter byte/word format keys == skoolctl FORMAT_* keys (+ default)', floor=4)
    bases = set(Lit(repo, 'ctlparser').ev(repo.mod('ctlparser').assigns['BASES'][-1]))
    default = Lit(repo, 'ctlparser').ev(repo.mod('ctlparser').assigns['DEFAULT_BASE'][-1])
    init = repo.mod('disassembler').method('OperandFormatter', '__init__')
    keysets = {}
    for n in ast.walk(init):
        if isinstance(n, ast.Assign) and isinstance(n.targets[0], ast.Attribute) and isinstance(n.value, ast.Dict) and n.targets[0].attr in ('byte_formats', 'word_formats'):
            keysets[n.targets[0].attr] = set(Lit(repo, 'disassembler').ev(k) for k in n.value.keys)
    for name in ('byte_formats', 'word_formats'):
        if name not in keysets:
            raise FactError('skoolkit/disassembler.py: OperandFormatter.%s not found' % name)
        want = bases - {'c'}
        if keysets[name] != want:
            ctx.violation('bases ' + name, 'skoolkit/disassembler.py', 'control files accept base letters %s (c handled as characters) but %s has keys %s' % (sorted(bases), name, sorted(keysets[name])))
        else:
            ctx.ok({'table': name, 'keys': sorted(keysets[name])})
    sc = repo.mod('skoolctl')
    for name in ('FORMAT_NO_BASE', 'FORMAT_PRESERVE_BASE'):
        keys = set(Lit(repo, 'skoolctl').ev(sc.assigns[name][-1]))
        want = bases - {default}
        if keys != want:
            ctx.violation('bases ' + name, 'skoolkit/skoolctl.py', '%s has keys %s, control-file bases are %s' % (name, sorted(keys), sorted(want)))
        else:
            ctx.ok({'table': name, 'keys': sorted(keys)})

def bounding_rule(ctx, repo):
    ctx.rule('C01.4-subblock-bound', 'in Disassembly._create_entries every disassembler range call inside the sub-block loop ends at or before sub_block.end', floor=5)
    sk = repo.mod('snaskool')
    ce = sk.method('Disassembly', '_create_entries')
    loop = None
    for n in ast.walk(ce):
        if isinstance(n, ast.For) and isinstance(n.target, ast.Name) and n.target.id == 'sub_block':
            loop = n
    if loop is None:
        raise FactError('skoolkit/snaskool.py: sub-block loop of _create_entries not found')
    bounded = set()
    for n in ast.walk(loop):
        if isinstance(n, ast.Assign) and isinstance(n.targets[0], ast.Name) and isinstance(n.value, ast.Call) and ast.unparse(n.value.func) == 'min':
            if any(ast.unparse(a) == 'sub_block.end' for a in n.value.args):
                bounded.add(n.targets[0].id)
            else:
                bounded.discard(n.targets[0].id)
                ctx.violation('bound ' + n.targets[0].id, 'skoolkit/snaskool.py:%d' % n.lineno, 'statement end is clamped with %s, not with the end of the sub-block being disassembled' % ast.unparse(n.value))
    count = 0
    for n in ast.walk(loop):
        if isinstance(n, ast.Call) and isinstance(n.func, ast.Attribute) and ast.unparse(n.func.value) == 'self.disassembler' \
           and n.func.attr in ('disassemble', 'defb_range', 'defm_range', 'defw_range', 'defs_range'):
            count += 1
            end = ast.unparse(n.args[1])
            start = ast.unparse(n.args[0])
            if end == 'sub_block.end' or end in bounded:
                ctx.ok({'call': n.func.attr, 'start': start, 'end': end})
            else:
                ctx.violation('range call %s' % n.func.attr, 'skoolkit/snaskool.py:%d' % n.lineno, '%s(%s, %s, ...) is not bounded by sub_block.end' % (n.func.attr, start, end))
    if count < 5:
        raise FactError('skoolkit/snaskool.py: expected 5 disassembler range calls in _create_entries, found %d' % count)
    # the while loop advances by the chunk length and is bounded by sub_block.end
    whiles = [n for n in ast.walk(loop) if isinstance(n, ast.While)]
    if not whiles or ast.unparse(whiles[0].test) != 'address < sub_block.end':
        ctx.violation('chunk loop', 'skoolkit/snaskool.py:%d' % loop.lineno, 'chunk loop is not bounded by `address < sub_block.end`')
    else:
        ctx.ok({'loop': 'while address < sub_block.end'})

def run(ctx):
    repo = pyfacts.Repo(ctx.repo_root)
    dis = tabfacts.DisTables(repo)
    extent_rule(ctx, repo, dis)
    variant_rule(ctx, repo, dis)
    base_rule(ctx, repo)
    bounding_rule(ctx, repo)
    from sa.rules import C02
    C02.number_syntax(ctx, repo)
    C02.injectivity(ctx, repo, dis)
    from sa.rules import C02round
    C02round.run(ctx, repo)
    C02round.data_rule(ctx, repo)
    C02round.ignored_gap_rule(ctx, repo)
    from sa.rules import C01pipe
    C01pipe.run(ctx, repo)
    C01pipe.rst_rule(ctx, repo)
    from sa.rules import memo
    memo.run_for(ctx, repo, 'C01')
    return report.finish(ctx, EXPLANATION)
