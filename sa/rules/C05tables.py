"""C05.T* - lookup-table definitions: constant-folded Python comprehensions and C init_* loops compared, entry by entry,
with each other and with an independent reference model (sa/rules/z80ref.py)."""
import ast, itertools
from sa.core import tabulate, cfacts
from sa.core.pyfacts import FactError
from sa.rules import z80ref

def _get(tab, idx):
    v = tab
    for i in idx:
        v = v[i]
    return tuple(v) if isinstance(v, (tuple, list)) else v

def _shape(tab):
    dims = []
    v = tab
    while isinstance(v, (tuple, list)):
        dims.append(len(v))
        v = v[0]
    return dims

def c_order(unit):
    names = [n[5:] for n in unit.funcs if n.startswith('init_') and n[5:] in unit.vars and n[5:] in z80ref.TABLES]
    deps = {}
    def calls(n, out):
        if n.get('kind') == 'CallExpr':
            c = cfacts.strip(n['inner'][0])
            if c.get('ref', '').startswith('init_'):
                out.append(c['ref'][5:])
        for c in n.get('inner', []):
            calls(c, out)
    for nm in names:
        o = []
        calls(unit.funcs['init_' + nm], o)
        deps[nm] = [d for d in o if d in names]
    order = []
    def visit(n, stack=()):
        if n in order:
            return
        if n in stack:
            raise FactError('c/csimulator.c: cyclic init_ dependencies at %s' % n)
        for d in deps[n]:
            visit(d, stack + (n,))
        order.append(n)
    for n in names:
        visit(n)
    return names, order

def compare_with_reference(ctx, label, tabs, where, rule):
    total = 0
    for name, (dims, fn) in z80ref.TABLES.items():
        if name not in tabs:
            ctx.violation('%s %s' % (label, name), where, 'table %s is not defined' % name, rule=rule)
            continue
        tab = tabs[name]
        shape = _shape(tab)
        if shape[:len(dims)] != list(dims):
            ctx.violation('%s %s' % (label, name), where, 'table %s has shape %s, expected leading dimensions %s' % (name, shape, list(dims)), rule=rule)
            continue
        bad = 0
        first = None
        for idx in itertools.product(*[range(d) for d in dims]):
            v = _get(tab, idx)
            w = fn(*idx)
            total += 1
            if v != w:
                bad += 1
                if first is None:
                    first = (idx, v, w)
        if bad:
            ctx.violation('%s %s' % (label, name), where,
                          '%s table %s: %d of its entries differ from the Z80 reference; first: %s%s = %s, reference %s' %
                          (label, name, bad, name, list(first[0]), first[1], first[2]), rule=rule)
        else:
            ctx.ok({'table': '%s %s' % (label, name), 'entries': 1 if not dims else eval('*'.join(map(str, dims)))}, rule=rule)
    return total

def run(ctx, repo, m):
    mod = repo.mod('simtables')
    ctx.rule('C05.T1-python-tables', 'every entry of every simtables.py lookup table (constant-folded) == independent Z80 reference model', floor=32)
    try:
        pt = tabulate.python_tables(mod)
    except tabulate.TabError as e:
        raise FactError('skoolkit/simtables.py: table definitions are not foldable: %s' % e)
    n1 = compare_with_reference(ctx, 'Python', pt, 'skoolkit/simtables.py', 'C05.T1-python-tables')
    ctx.rule('C05.T2-c-tables', 'every entry of every C lookup table (init_* loops constant-folded) == independent Z80 reference model', floor=32)
    n2 = 0
    for cfg in (('plain',) if ctx.tier == 'quick' else ('plain', 'cont')):
        u = m.c.units[cfg]
        names, order = c_order(u)
        try:
            ct = tabulate.c_tables(u, names, order)
        except tabulate.TabError as e:
            raise FactError('c/csimulator.c: init_* functions are not foldable: %s' % e)
        n2 += compare_with_reference(ctx, 'C(%s)' % cfg, ct, 'c/csimulator.c', 'C05.T2-c-tables')
    # the tables the simulator imports must be the ones checked
    ctx.rule('C05.T3-table-use', 'every lookup table a dispatch slot passes to a handler is one of the reference-checked tables', floor=1)
    used = set()
    for s in m.slots():
        for a in s.argnodes:
            v = m.py.argvalue(a)
            if v[0] == 'table' and v[1] not in ('R1', 'R2'):
                used.add(v[1])
    for t in sorted(used):
        if t not in z80ref.TABLES:
            ctx.violation('table ' + t, m.py.mod.relpath, 'dispatch slots use lookup table %s, which has no reference model' % t, rule='C05.T3-table-use')
        else:
            ctx.ok({'table': t}, rule='C05.T3-table-use')
    # R / offset helper tables of simulator.py
    ctx.rule('C05.T4-helpers', 'R1, R2, OFFSETS, JR_OFFSETS of simulator.py == their defining formulas (7-bit R increment, signed displacement)', floor=4)
    sim = repo.mod('simulator')
    want = {'R1': [(r & 0x80) | ((r + 1) & 0x7F) for r in range(256)], 'R2': [(r & 0x80) | ((r + 2) & 0x7F) for r in range(256)],
            'OFFSETS': [d if d < 128 else d - 256 for d in range(256)], 'JR_OFFSETS': [(d if d < 128 else d - 256) + 2 for d in range(256)]}
    for name, w in want.items():
        if name not in sim.assigns:
            raise FactError('skoolkit/simulator.py: %s not found' % name)
        try:
            got = list(tabulate._py(sim.assigns[name][-1], None)({}))
        except tabulate.TabError as e:
            raise FactError('skoolkit/simulator.py: %s not foldable: %s' % (name, e))
        if got != w:
            i = next(i for i in range(min(len(got), 256)) if i >= len(got) or got[i] != w[i]) if len(got) == 256 else 0
            ctx.violation('simulator.' + name, 'skoolkit/simulator.py', '%s[%d] = %s, expected %s' % (name, i, got[i] if i < len(got) else None, w[i]), rule='C05.T4-helpers')
        else:
            ctx.ok({'table': name, 'entries': 256}, rule='C05.T4-helpers')
    ctx.note('reference comparison covered %d Python and %d C table entries' % (n1, n2))
