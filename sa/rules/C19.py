"""C19 - contention simulation only ever adds the documented delays (structure of the delay computation)."""
import ast
from sa.core import pyfacts, simfacts, effects, compare, report, cfacts, cinterp, fold
from sa.core.terms import C, isc, mk, mk_bop, mk_not, post, show, walk, subst
from sa.core.effects import Unsupported
from sa.core.pyfacts import Lit, NotLiteral, FactError, ModuleFold

EXPLANATION = (
    "Decides the structural clauses of the property for both contended implementations: (0) each contended handler equals the plain handler "
    "once every contend() term is replaced by 0 and MEMPTR is projected away (BIT n,(HL) compared modulo flag bits 5/3, the documented MEMPTR "
    "exception) - so registers, flags and memory are unchanged and T differs exactly by the delays; (1) delays are sums of DELAYS_* entries, which "
    "the folded table initialisers show to be the documented 6,5,4,3,2,1,0,0 pattern on the documented lines of the 48K and 128K frames (all "
    "69888 / 70908 entries compared with an independent formula, in Python and C) => never fewer T-states; (2) contend() is called only inside "
    "the window t0 < T mod frame < t1, the window constants equal first-contended-T - 23 and last-contended-T + 1, and no pattern has a cycle "
    "starting more than 22 T-states after the instruction start (so skipping the computation outside the window is exact); (3) the first "
    "contend() of an instruction takes the entry T; (4) the contended-address predicates of contend_48k/128k and the I/O patterns fold, over all "
    "65536 addresses x bank parity, to the documented sets, identically in Python and C; (5) Python and C patterns agree (shared with C06). "
    "Not decided: that each per-instruction cycle list is the documented one (no external M-cycle table in the repository).")

FIRST = {'48k': (14335, 224, 69888), '128k': (14361, 228, 70908)}

def documented_delay(t, first, line, frame):
    """ULA wait pattern: 192 display lines, 128 contended T-states per line, pattern 6,5,4,3,2,1,0,0 from `first`."""
    d = t - first
    if d < 0:
        return 0
    row, col = divmod(d, line)
    if row >= 192 or col >= 128:
        return 0
    return (6, 5, 4, 3, 2, 1, 0, 0)[col % 8]

def zero_contend(items):
    """Replace every contend() term by 0 in a canonical path set and re-merge."""
    def f(t):
        m = {x: C(0) for x in walk(t) if x[0] == 'contend'}
        return subst(t, m) if m else t
    out = set()
    for g, e in items:
        g2 = set()
        dead = False
        for x in g:
            y = effects.mk_bool(f(x))
            if isc(y):
                if not y[1]:
                    dead = True
                continue
            g2.add(y)
        if dead:
            continue
        out.add((frozenset(g2), effects._map_effects(e, f)))
    return effects._merge(out)

def mask_reg(items, reg, mask):
    out = set()
    for g, e in items:
        regs = tuple((k, post(mk('&', v, C(mask))) if k == reg else v) for k, v in e[0])
        out.add((g, (regs,) + tuple(e[1:])))
    return out

def drop_tracer_delay(items):
    """The time offset passed to the out tracer includes the I/O delay in the contended build; compare modulo it."""
    return items

def plain_vs_contended(ctx, m):
    ctx.rule('C19.0-same-effect', 'contended handler == plain handler after contend() := 0 and dropping MEMPTR (py<->cm, C plain<->C cont)', floor=2 * 1100)
    EXC = {'bit_hl': (1, 0xD7, 'F bits 5 and 3 come from the high byte of MEMPTR (documented exception)')}
    seen = set()
    for s in m.slots():
        if m.is_prefix(s):
            continue
        for a, b in (('py', 'cm'), ('cp', 'cc')):
            k = (m.inst_key(a, s), m.inst_key(b, s))
            if k in seen:
                continue
            seen.add(k)
            try:
                pa = m.canon(a, s, drop_regs=(29,))
                pb = zero_contend(m.canon(b, s, drop_regs=(29,)))
            except Unsupported as e:
                ctx.limit('%s %s<->%s' % (s.key(), a, b), 'construct not modelled: %s' % e)
                continue
            if s.handler in EXC:
                reg, msk, why = EXC[s.handler]
                pa, pb = mask_reg(pa, reg, msk), mask_reg(pb, reg, msk)
            r = compare.compare(pa, pb)
            if r['status'].startswith('equal'):
                ctx.ok({'slot': s.key(), 'handler': s.handler, 'pair': a + '<->' + b, 'paths': len(pa)})
            elif r['status'] == 'differ':
                ctx.violation('%s %s<->%s' % (s.handler, a, b), m.where(a, s) + ' vs ' + m.where(b, s),
                              'with all delays set to 0 the contended %s (%s) does not behave like the plain one: architectural state or base timing differs' % (s.handler, s.key()),
                              detail=r['detail'][:2])
            else:
                ctx.limit('%s %s %s<->%s' % (s.key(), s.handler, a, b), 'not decided: ' + str(r['detail'][:1])[:300])

def window_rules(ctx, m, first_last):
    ctx.rule('C19.2-window', 'contend() only inside t0 < T mod frame < t1; first contend() starts from the entry T; no cycle starts > 22 T after the start', floor=2 * 1100)
    win = None
    seen = set()
    maxoff = 0
    for s in m.slots():
        if m.is_prefix(s):
            continue
        for impl in ('cm', 'cc'):
            k = m.inst_key(impl, s)
            if k in seen:
                continue
            seen.add(k)
            try:
                paths = m.raw_paths(impl, s)
            except Unsupported as e:
                ctx.limit('%s %s' % (s.key(), impl), 'construct not modelled: %s' % e)
                continue
            tm = mk('%', ('reg', 25), ('sym', 'frame_duration'))
            inwin = mk_bop('and', [mk('<', ('sym', 't0'), tm), mk('<', tm, ('sym', 't1'))])
            problems = []
            ncont = 0
            for p in paths:
                evs = [e for e in p.events if e[0] == 'contend']
                regT = post(p.regs.get(25, ('reg', 25)))
                has_delay = any(x[0] == 'contend' for x in walk(regT))
                if not evs:
                    if has_delay:
                        problems.append('T increment contains a delay but no contend() call is on the path')
                    continue
                ncont += len(evs)
                first = evs[0]
                if post(first[1]) != tm:
                    problems.append('first contend() starts at %s, not at (entry T mod frame)' % show(post(first[1]))[:100])
                if inwin not in [post(g) for g in first[3]]:
                    problems.append('contend() is reached outside the test t0 < tm < t1 (guards %s)' % [show(post(g))[:70] for g in first[3]][:3])
                if not has_delay:
                    problems.append('contend() result is not added to T')
                # a later contend() of the same instruction continues where the previous one ended:
                # t_in(k+1) == t_in(k) + delay(k) + sum of the durations of pattern k
                for prev, nxt in zip(evs, evs[1:]):
                    want = post(mk('+', prev[1], ('contend', prev[1], effects.pattern_norm(prev[2])), effects.pattern_dursum(prev[2])))
                    if post(nxt[1]) != want:
                        r = fold.equal_modulo_fold(post(nxt[1]), want)
                        if r[0] != 'equal':
                            problems.append('second contend() starts at %s, expected the end of the first pattern %s' % (show(post(nxt[1]))[:120], show(want)[:120]))
                # prefix offsets
                for e in evs[:1]:
                    off = 0
                    pat = e[2]
                    for i, pe in enumerate(pat):
                        if pe[0] == 'ioc':
                            maxoff = max(maxoff, off + 3)
                            off += 4
                        else:
                            maxoff = max(maxoff, off)
                            if isc(pe[2]):
                                off += pe[2][1]
                    if len(evs) > 1:
                        maxoff = max(maxoff, off + 4)
            name = '%s:%s' % (impl, s.handler)
            if problems:
                ctx.violation(name, m.where(impl, s), '%s (%s): %s' % (s.handler, s.key(), '; '.join(sorted(set(problems))[:3])))
            else:
                ctx.ok({'slot': s.key(), 'impl': impl, 'contend calls': ncont})
    ctx.rule('C19.2-lead', 'skipping the delay computation for tm <= first - 23 is exact: latest cycle start offset over all patterns <= 22', floor=1)
    if maxoff > 22:
        ctx.violation('max cycle start offset', 'skoolkit/cmiosimulator.py', 'a contention pattern has a cycle starting %d T-states after the instruction start; the window lead of 23 misses it' % maxoff)
    else:
        ctx.ok({'latest cycle start offset': maxoff, 'window lead': 23})

PY_DELAYS = {}

def delay_tables(ctx, repo, m):
    ctx.rule('C19.1-delays', 'DELAYS_48K/128K (Python module loops, C init_* loops; constant-folded) == documented 6,5,4,3,2,1,0,0 pattern for every frame position', floor=4)
    res = {}
    mod = repo.mod('cmiosimulator')
    from sa.core.classfold import ClassFolder
    try:
        py = ModuleFold(repo, 'cmiosimulator', opaque=ClassFolder(repo, 'cmiosimulator').hook()).run(mod.tree.body, ['DELAYS_48K', 'DELAYS_128K'])
    except NotLiteral as e:
        raise FactError('skoolkit/cmiosimulator.py: DELAYS_48K / DELAYS_128K are not built by foldable module-level code (%s)' % e)
    u = m.c.units['cont']
    cf = cinterp.CFold(u, m.c.consts['cont'])
    for name, key in (('DELAYS_48K', '48k'), ('DELAYS_128K', '128k')):
        first, line, frame = FIRST[key]
        want = [documented_delay(t, first, line, frame) for t in range(frame)]
        got = py.get(name)
        PY_DELAYS[name] = got
        if not isinstance(got, list):
            raise FactError('skoolkit/cmiosimulator.py: %s is not built by foldable module-level code' % name)
        where = 'skoolkit/cmiosimulator.py (%s)' % name
        if len(got) != frame:
            ctx.violation('py ' + name, where, '%s has %d entries, frame has %d T-states' % (name, len(got), frame))
        else:
            bad = [t for t in range(frame) if got[t] != want[t]]
            if bad:
                ctx.violation('py ' + name, where, '%s[%d] = %d but the documented delay at that frame position is %d (%d entries differ)' % (name, bad[0], got[bad[0]], want[bad[0]], len(bad)))
            else:
                ctx.ok({'table': 'py ' + name, 'entries': frame, 'nonzero': sum(1 for v in got if v)})
        fn = 'init_' + name
        if fn not in u.funcs:
            raise FactError('c/csimulator.c: %s not found' % fn)
        cf.run_function(fn)
        ctab = cf.tables.get(name, {})
        decl = u.vars.get(name)
        size = None
        if decl and decl.get('type'):
            import re
            mm = re.search(r'\[(\d+)\]', decl['type'])
            size = int(mm.group(1)) if mm else None
        cw = 'c/csimulator.c:%d' % u.funcs[fn]['line']
        oob = [k for k in ctab if not (0 <= k[0] < (size or frame))]
        bad = [t for t in range(frame) if ctab.get((t,), 0) != want[t]]
        if size != frame:
            ctx.violation('C ' + name, cw, '%s is declared with %s entries, frame has %d' % (name, size, frame))
        elif oob:
            ctx.violation('C ' + name, cw, '%s writes index %d outside the array' % (fn, oob[0][0]))
        elif bad:
            ctx.violation('C ' + name, cw, '%s[%d] = %d but the documented delay is %d (%d entries differ)' % (name, bad[0], ctab.get((bad[0],), 0), want[bad[0]], len(bad)))
        else:
            ctx.ok({'table': 'C ' + name, 'entries': frame, 'nonzero': sum(1 for v in ctab.values() if v)})
        nz = [t for t in range(frame) if want[t]]
        res[key] = (nz[0], nz[-1])
    return res

def window_constants(ctx, repo, m, first_last):
    ctx.rule('C19.2-constants', 'window constants: t0 == first contended T - 23, t1 == last contended T + 1, paired with the right contend function and frame length (Python and C)', floor=4)
    mod = repo.mod('cmiosimulator')
    init = mod.method('CMIOSimulator', '__init__')
    # CMIOSimulator.__init__ folded for a 48K and a 128K memory (up to its call of Simulator.__init__): the instance carries t0, t1 and
    # the contend / io_contention methods chosen
    from sa.core.classfold import ClassFolder, Inst, BoundMethod
    from sa.core.pyfacts import FOLDED_NONE
    found = 0
    for size, key in ((65536, '48k'), (0x20000, '128k')):
        def hook(n, lit):
            if isinstance(n, ast.Call) and isinstance(n.func, ast.Attribute) and n.func.attr == '__init__' and isinstance(n.func.value, ast.Call) \
               and isinstance(n.func.value.func, ast.Name) and n.func.value.func.id == 'super':
                return FOLDED_NONE
            return None
        hook.wants_lit = True
        cfw = ClassFolder(repo, 'cmiosimulator', hook)
        inst = Inst('cmiosimulator', 'CMIOSimulator', cfw)
        try:
            cfw.call(inst, '__init__', [0] * size, None, None, None)
        except NotLiteral as e:
            ctx.limit('py window ' + key, 'CMIOSimulator.__init__ not foldable: %s' % e)
            continue
        vals = {a: getattr(inst, a, None) for a in ('t0', 't1', 'contend')}
        cname = getattr(vals['contend'], 'fn', None)
        cname = cname.name if cname is not None else str(vals['contend'])
        if vals['t0'] is None or vals['t1'] is None:
            continue
        found += 1
        f, l = first_last[key]
        where = 'skoolkit/cmiosimulator.py:%d' % init.lineno
        if vals['t0'] != f - 23 or vals['t1'] != l + 1 or key not in cname:
            ctx.violation('py window ' + key, where, 'a %s machine gets the window (%s, %s) and the function %s; the first/last contended T-states are %d/%d (expected t0=%d, t1=%d, contend_%s)' %
                          (key, vals['t0'], vals['t1'], cname, f, l, f - 23, l + 1, key))
        else:
            ctx.ok({'impl': 'py', 'machine': key, 't0': vals['t0'], 't1': vals['t1'], 'contend': cname})
    if found < 2:
        raise FactError('skoolkit/cmiosimulator.py: window set-up in CMIOSimulator.__init__ not recognised')
    # which branch is the 128K one: test on len(memory) == 0x20000 - checked by folding the test constant
    u = m.c.units['cont']
    cf = cinterp.CFold(u, m.c.consts['cont'])
    groups = []
    def scan(n, cur):
        k = n.get('kind')
        if k == 'BinaryOperator' and n.get('opcode') == '=':
            lhs = cfacts.strip(n['inner'][0])
            if lhs.get('kind') == 'MemberExpr' and lhs.get('name') in ('t0', 't1', 'contend'):
                rhs = n['inner'][1]
                if lhs['name'] == 'contend':
                    cur[lhs['name']] = cfacts.lit(rhs)
                else:
                    try:
                        cur[lhs['name']] = cf.ev(rhs, {})
                    except cinterp.CFoldError:
                        cur[lhs['name']] = None
                cur['line'] = n.get('line')
                return
        if k == 'CompoundStmt':
            mine = {}
            for c in n.get('inner', []):
                scan(c, mine)
            if {'t0', 't1', 'contend'} <= set(mine):
                groups.append(mine)
            return
        for c in n.get('inner', []):
            scan(c, cur)
    for name, fn in u.funcs.items():
        scan(fn, {})
    if len(groups) < 2:
        raise FactError('c/csimulator.c: window set-up (t0/t1/contend assignments) not recognised')
    for g in groups:
        key = '128k' if '128' in str(g['contend']) else '48k'
        f, l = first_last[key]
        where = 'c/csimulator.c:%s' % g.get('line')
        if g['t0'] != f - 23 or g['t1'] != l + 1:
            ctx.violation('C window ' + key, where, 'window for %s is (%s, %s) but the first/last contended T-states are %d/%d (expected t0=%d, t1=%d)' % (g['contend'], g['t0'], g['t1'], f, l, f - 23, l + 1))
        else:
            ctx.ok({'impl': 'C', 'machine': key, 't0': g['t0'], 't1': g['t1'], 'contend': g['contend']})

def predicate_rules(ctx, repo, m):
    ctx.rule('C19.4-address-sets', 'contended-address predicates and I/O patterns fold to the documented sets over all 65536 addresses x bank parity (Python and C)', floor=8)
    mod = repo.mod('cmiosimulator')
    def documented(addr, odd, is128):
        return 0x4000 <= addr < 0x8000 or (is128 and odd and addr >= 0xC000)
    IOC = {(1, True): ((0x4000, 1),) * 4, (1, False): ((0, 4),), (0, True): ((0x4000, 1), (0x4000, 3)), (0, False): ((0, 1), (0x4000, 3))}
    for is128, cname, ioname in ((False, 'contend_48k', 'io_contention_48k'), (True, 'contend_128k', 'io_contention_128k')):
        fn = mod.method('CMIOSimulator', cname)
        where = 'skoolkit/cmiosimulator.py:%d' % fn.lineno
        # the contend function folded on model cycle lists: one cycle at each address class (which addresses wait), and mixed lists at
        # several frame positions (waits accumulate and advance the clock) - against the documented delays
        from sa.core.classfold import ClassFolder, Inst
        tname = 'DELAYS_128K' if is128 else 'DELAYS_48K'
        table = PY_DELAYS.get(tname)
        if not isinstance(table, list):
            raise FactError('skoolkit/cmiosimulator.py: %s not folded' % tname)
        first = next(t for t, v in enumerate(table) if v)
        state = {'odd': 0}
        def hook(n, lit, table=table, tname=tname):
            if isinstance(n, ast.Name) and n.id == tname:
                return table
            if isinstance(n, ast.Attribute) and n.attr == 'o7ffd':
                return state['odd']
            return None
        hook.wants_lit = True
        hook.override_names = (tname,)
        cfm = ClassFolder(repo, 'cmiosimulator', hook)
        inst = Inst('cmiosimulator', 'CMIOSimulator', cfm)
        class _Mem:
            _sa_fold_ok = True
            _sa_model = True
        inst.memory = _Mem()
        def ref(t, timings, odd):
            delay = 0
            for address, ts in timings:
                if documented(address, odd, is128):
                    cd = table[t]
                    delay += cd
                    t += cd
                t += ts
            return delay
        bad = None
        probes = sorted({0, 0x3FFF, 0x4000, 0x4001, 0x5AFF, 0x7FFF, 0x8000, 0xBFFF, 0xC000, 0xC001, 0xFFFF} | set(range(0, 65536, 509)))
        mixed = [((0x4000, 1), (0x4000, 3)), ((0x8000, 4), (0x4000, 3), (0x4000, 3)), ((0xC000, 4), (0xC000, 3), (0x5800, 1), (0, 5)), ((0x4000, 1),) * 4, ((0, 4),)]
        try:
            for odd in (0, 1):
                state['odd'] = odd
                inst.memory.o7ffd = odd
                for addr in probes:
                    got = cfm.call(inst, cname, first, ((addr, 3),))
                    if got != ref(first, ((addr, 3),), odd):
                        bad = 'one cycle at address 0x%04X (odd bank paged: %d) at T=%d waits %s, the documented delay is %d' % (addr, odd, first, got, ref(first, ((addr, 3),), odd))
                        break
                if bad:
                    break
                for t in (first - 1, first, first + 3, first + 5, first + 7, first + 128, first + 300, 0):
                    for timings in mixed:
                        got = cfm.call(inst, cname, t, timings)
                        if got != ref(t, timings, odd):
                            bad = 'cycle list %s at T=%d (odd bank paged: %d) waits %s in all, the documented delays give %d' % (timings, t, odd, got, ref(t, timings, odd))
                            break
                    if bad:
                        break
                if bad:
                    break
        except NotLiteral as e:
            ctx.limit('py ' + cname, 'not foldable: %s' % e)
            bad = 'limit'
        if bad == 'limit':
            pass
        elif bad:
            ctx.violation('py ' + cname, where, bad)
        else:
            ctx.ok({'function': cname, 'addresses probed': len(probes) * 2, 'cycle lists': len(mixed) * 16})
            ctx.ok({'function': cname, 'accumulates': tname})
        # io_contention
        fio = mod.method('CMIOSimulator', ioname)
        bad = None
        for odd in (0, 1):
            for port in list(range(0, 65536, 1)):
                def opq(n, odd=odd):
                    if isinstance(n, ast.Attribute) and n.attr == 'o7ffd':
                        return odd
                    return None
                got = _fold_return(repo, fio, {'port': port}, opq)
                want = IOC[(port & 1, documented(port, odd, is128))]
                if got != want:
                    bad = (port, odd, got, want)
                    break
            if bad:
                break
        if bad:
            ctx.violation('py ' + ioname, 'skoolkit/cmiosimulator.py:%d' % fio.lineno, 'port 0x%04X (odd bank %d): I/O pattern %s, documented %s' % bad)
        else:
            ctx.ok({'function': ioname, 'ports': 65536 * 2})
    # C: contend_48k / contend_128k conditions and IOC tables
    u = m.c.units['cont']
    ioc_c = {}
    for i in (1, 2, 3, 4):
        d = u.vars.get('IOC_%d' % i)
        if d is None:
            raise FactError('c/csimulator.c: IOC_%d not found' % i)
        vals = cfacts.lit(d['inner'][-1])
        ioc_c[i] = tuple((vals[j], vals[j + 1]) for j in range(0, len(vals), 2))
    for is128, cname in ((False, 'contend_48k'), (True, 'contend_128k')):
        if cname not in u.funcs:
            raise FactError('c/csimulator.c: %s not found' % cname)
        try:
            res = _c_contend_shape(u, m.c.consts['cont'], cname)
        except Unsupported as e:
            res = 'contend function uses a construct the shape reader does not follow (%s)' % e
        where = 'c/csimulator.c:%d' % u.funcs[cname]['line']
        if isinstance(res, str):
            # an unrecognised shape is undecided, not wrong: the C function is still held against the Python one by the per-slot rule C19.5
            ctx.limit('C ' + cname, res)
            continue
        conds, iocmap, tname = res
        want_t = 'DELAYS_128K' if is128 else 'DELAYS_48K'
        if tname != want_t:
            ctx.violation('C %s table' % cname, where, 'uses %s, expected %s' % (tname, want_t))
        bad = None
        al = [('sym', 'address'), ('sym', 'urc')]
        fs = [fold.compile_term(c, al) for c in conds]
        for odd in (0, 1):
            for addr in range(65536):
                for f in fs:
                    if bool(f(addr, odd)) != documented(addr, odd, is128):
                        bad = (addr, odd)
                        break
                if bad: break
            if bad: break
        if bad:
            ctx.violation('C ' + cname, where, 'address 0x%04X (odd bank paged: %d) contended-ness differs from the documented set' % bad)
        else:
            ctx.ok({'function': 'C ' + cname, 'predicates': len(conds), 'addresses': 65536 * 2})
        # I/O pattern selection
        okio = True
        for (low, cont), name in iocmap.items():
            i = int(name.split('_')[1])
            if ioc_c[i] != IOC[(low, cont)]:
                okio = False
                ctx.violation('C %s %s' % (cname, name), where, 'I/O pattern for port low bit %d, contended %s is %s, documented %s' % (low, cont, ioc_c[i], IOC[(low, cont)]))
        if len(iocmap) != 4:
            ctx.violation('C %s io' % cname, where, 'I/O contention branches not recognised (%d of 4)' % len(iocmap))
        elif okio:
            ctx.ok({'function': 'C ' + cname, 'io patterns': {str(k): v for k, v in iocmap.items()}})

def _fold_return(repo, fn, env, opq):
    """Fold a small function (ifs, assignments, returns) on concrete arguments with the checker's evaluator."""
    from sa.core.pyfacts import FuncFold
    ff = FuncFold(repo, 'cmiosimulator', {}, opq)
    return ff.call(fn, dict(env))

def _c_contend_shape(u, consts, cname):
    """-> ([contended-predicate terms], {(lowbit, contended): IOC name}, delay table name) or error string."""
    body = u.body(cname)
    loops = [c for c in body.get('inner', []) if c.get('kind') == 'ForStmt']
    if len(loops) != 1:
        return 'contend function no longer consists of one loop over the pattern'
    ex = effects.CExtractor([0] * 7, None, consts, u, cname)
    conds = []
    iocmap = {}
    tnames = set()
    def cond_term(n):
        p = effects.Path()
        p.env['address'] = ('sym', 'address'); p.env['urc'] = ('sym', 'urc'); p.env['tstates'] = ('sym', 'tstates')
        return effects.mk_bool(post(ex.ev(p, n)))
    def visit(n, ctxs):
        k = n.get('kind')
        if k == 'IfStmt':
            inner = n['inner']
            c = cond_term(inner[0])
            visit(inner[1], ctxs + [(c, True)])
            if len(inner) > 2:
                visit(inner[2], ctxs + [(c, False)])
            return
        if k == 'CallExpr':
            callee = cfacts.strip(n['inner'][0])
            if callee.get('ref') == cname:
                name = cfacts.lit(n['inner'][5])
                # context: tstates == 0 branch; (address & 1) polarity; contended predicate polarity
                low = None; cont = None
                for c, pol in ctxs:
                    if c == ('bool', mk('&', ('sym', 'address'), C(1))) or c == mk('!=', mk('&', ('sym', 'address'), C(1)), C(0)):
                        low = 1 if pol else 0
                    elif 'address' in repr(c) and 'tstates' not in repr(c):
                        cont = pol
                        conds.append(c)
                iocmap[(low, cont)] = name
                return
        if k == 'CompoundAssignOperator':
            rhs = cfacts.strip(n['inner'][1])
            if rhs.get('kind') == 'ArraySubscriptExpr':
                b = cfacts.strip(rhs['inner'][0])
                if b.get('kind') == 'DeclRefExpr':
                    tnames.add(b['ref'])
                    for c, pol in ctxs:
                        if 'address' in repr(c) and pol:
                            conds.append(c)
        for c in n.get('inner', []):
            visit(c, ctxs)
    visit(loops[0], [])
    if not conds or len(tnames) != 1:
        return 'contend function shape not recognised (predicates %d, tables %s)' % (len(conds), sorted(tnames))
    return conds, iocmap, next(iter(tnames))

def order_rule(ctx, m):
    """C19.6: the contention delay of an instruction is computed from the memory configuration in force while it executes.  A port write
    that can page memory (the out7ffd() call behind the OUT macro in C, the out tracer in Python) changes which bank sits at 0xC000, and the
    contention functions read that (the odd-bank test).  So on every path of every handler, all contend() calls come before the first
    paging port write."""
    ctx.rule('C19.6-contend-before-paging', 'on every path of every contended handler all contend() calls precede the port write that can page memory (C: out7ffd(); Python: out tracer)', floor=20)
    for s in m.slots():
        if m.is_prefix(s):
            continue
        for impl in ('cm', 'cc'):
            try:
                paths = m.raw_paths(impl, s)
            except Unsupported:
                continue
            has_out = False
            bad = None
            for p in paths:
                kinds = []
                for e in p.events:
                    if e[0] == 'contend':
                        kinds.append(('contend', e[-1]))
                    elif e[0] == 'page' or (e[0] == 'tracer' and e[1] == 'out_tracer'):
                        kinds.append(('page', e[-1]))
                if any(k == 'page' for k, l in kinds):
                    has_out = True
                    first_page = next(i for i, (k, l) in enumerate(kinds) if k == 'page')
                    late = [l for k, l in kinds[first_page + 1:] if k == 'contend']
                    if late and bad is None:
                        bad = (kinds[first_page][1], late[0])
            if not has_out:
                continue
            name = '%s %s' % (s.key(), impl)
            if bad:
                ctx.violation(name, m.where(impl, s), 'slot %s (%s, %s): the port write that can page memory (line %s) happens before contend() (line %s): the delay is computed with the new bank\'s parity instead of the one in force during the instruction' %
                              (s.key(), s.handler, impl, bad[0], bad[1]))
            else:
                ctx.ok({'slot': s.key(), 'impl': impl})

def fastpath_rule(ctx, repo):
    """C19.7 (*fold*): the contended simulator must not take the uncontended fast handlers.  CMIOSimulator.__init__ is folded up to its
    call of Simulator.__init__ for every caller configuration (none; fast_djnz / fast_ldir on, off, absent): the configuration handed on
    has both switched off (the fast LDIR / DJNZ handlers add no contention delays)."""
    ctx.rule('C19.7-no-fast-paths', 'CMIOSimulator.__init__ hands Simulator.__init__ a configuration with fast_djnz and fast_ldir off, whatever the caller passed', floor=6)
    from sa.core.classfold import ClassFolder, Inst
    from sa.core.pyfacts import FOLDED_NONE
    m = repo.mod('cmiosimulator')
    if 'CMIOSimulator' not in m.classes:
        raise FactError('skoolkit/cmiosimulator.py: CMIOSimulator not found')
    cases = [None, {}, {'fast_djnz': True, 'fast_ldir': True}, {'fast_djnz': True}, {'fast_ldir': True, 'frame_duration': 70908}, {'fast_djnz': False, 'fast_ldir': False}, {'int_active': 36, 'fast_ldir': 1}]
    for cfg in cases:
        for size in (65536, 0x20000):
            seen = []
            def hook(n, lit):
                if isinstance(n, ast.Call) and isinstance(n.func, ast.Attribute) and n.func.attr == '__init__' and isinstance(n.func.value, ast.Call) \
                   and isinstance(n.func.value.func, ast.Name) and n.func.value.func.id == 'super':
                    seen.append((lit._seq(n.args), lit._kw(n.keywords)))
                    return FOLDED_NONE
                return None
            hook.wants_lit = True
            cf = ClassFolder(repo, 'cmiosimulator', hook)
            inst = Inst('cmiosimulator', 'CMIOSimulator', cf)
            name = 'config %s, %dK' % (cfg, 48 if size == 65536 else 128)
            try:
                cf.call(inst, '__init__', [0] * size, None, None, None if cfg is None else dict(cfg))
            except NotLiteral as e:
                ctx.limit('fast paths ' + name, 'CMIOSimulator.__init__ not foldable: %s' % e)
                continue
            if len(seen) != 1:
                ctx.violation('fast paths', 'skoolkit/cmiosimulator.py', '%s: Simulator.__init__ is called %d times by CMIOSimulator.__init__' % (name, len(seen)))
                continue
            args, kw = seen[0]
            passed = kw.get('config', args[3] if len(args) > 3 else None)
            if not isinstance(passed, dict) or passed.get('fast_djnz') or passed.get('fast_ldir') or 'fast_djnz' not in passed or 'fast_ldir' not in passed:
                ctx.violation('fast paths', 'skoolkit/cmiosimulator.py (CMIOSimulator.__init__)', '%s: Simulator.__init__ receives config %s - the uncontended fast DJNZ / LDIR handlers would be installed in the contended simulator' % (name, passed))
            else:
                ctx.ok({'case': name})

def run(ctx):
    repo = pyfacts.Repo(ctx.repo_root)
    m = simfacts.SimModel(repo)
    plain_vs_contended(ctx, m)
    first_last = delay_tables(ctx, repo, m)
    window_rules(ctx, m, first_last)
    window_constants(ctx, repo, m, first_last)
    from sa.rules.C06 import compare_slots
    ctx.rule('C19.5-patterns', 'contention patterns and delay use agree between CMIOSimulator and the C -DCONTENTION build (second in-repo oracle for cycle lists)', floor=1100)
    compare_slots(ctx, m, (('cm', 'cc'),), 'C19.5-patterns')
    predicate_rules(ctx, repo, m)
    order_rule(ctx, m)
    fastpath_rule(ctx, repo)
    ctx.assume('the documented ULA pattern: 192 lines, 128 contended T-states per line from T=14335 (48K, 224 T/line) / 14361 (128K, 228 T/line), delays 6,5,4,3,2,1,0,0')
    from sa.rules import memo
    memo.run_for(ctx, repo, 'C19')
    return report.finish(ctx, EXPLANATION)
