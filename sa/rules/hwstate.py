"""Who-may-write rule for the hardware state a tracer carries between instructions (border, last OUT to 0xFE, 0x7FFD latch,
selected AY register, AY registers).  That state must follow the OUT instructions the program executed: it is seeded once
when the tracer is built (from the snapshot or from values handed in by the caller) and afterwards changes only in the
port-write handlers.  A method that re-seeds it at any other time (per recording block, per frame, per run() call on a
live tracer) makes the final state, and every snapshot written from it, depend on how the run was cut up."""
import ast

HW = ('border', 'out7ffd', 'outfffd', 'ay', 'outfe')

def _writes(fn):
    """-> {attr: lineno} for stores to self.<HW attr> (whole attribute, element, or .append)."""
    out = {}
    for n in ast.walk(fn):
        tgs = []
        if isinstance(n, ast.Assign):
            tgs = n.targets
        elif isinstance(n, ast.AugAssign):
            tgs = [n.target]
        elif isinstance(n, ast.Call) and isinstance(n.func, ast.Attribute) and n.func.attr in ('append', 'extend', 'clear', 'insert', 'pop'):
            tgs = [n.func.value]
        for t in tgs:
            for x in (t.elts if isinstance(t, ast.Tuple) else [t]):
                if isinstance(x, ast.Subscript):
                    x = x.value
                if isinstance(x, ast.Attribute) and isinstance(x.value, ast.Name) and x.value.id == 'self' and x.attr in HW:
                    out.setdefault(x.attr, n.lineno)
    return out

def _from_params_only(fn):
    """Every whole-attribute store of a HW attribute takes its value from the method's own parameters (state handed in)."""
    params = {a.arg for a in fn.args.args} - {'self'}
    for n in ast.walk(fn):
        if isinstance(n, ast.Assign):
            for t in n.targets:
                if isinstance(t, ast.Attribute) and isinstance(t.value, ast.Name) and t.value.id == 'self' and t.attr in HW:
                    names = {x.id for x in ast.walk(n.value) if isinstance(x, ast.Name)}
                    if not names <= params:          # parameters and constants only
                        return False
    return True

def run(ctx, repo, rule_id, floor=12):
    ctx.rule(rule_id, 'tracer hardware state (border, outfe, out7ffd, outfffd, ay) is seeded only when the tracer is built (or handed in as parameters) and otherwise written only by port-write handlers', floor=floor)
    classes = []
    for mod in repo.all_modules():
        for cname, c in mod.classes.items():
            meths = {f.name: f for f in c.body if isinstance(f, ast.FunctionDef)}
            bases = [ast.unparse(b) for b in c.bases]
            if any('write_port' in m for m in meths) or any(b.endswith('Tracer') for b in bases):
                classes.append((mod, cname, meths))
    if len(classes) < 5:
        from sa.core.pyfacts import FactError
        raise FactError('expected at least 5 tracer classes with a port-write handler, found %d' % len(classes))
    # call sites of every method name, repository wide: (module, class or None, function name)
    calls = {}
    for mod in repo.all_modules():
        def visit(body, cls, fn):
            for st in body:
                if isinstance(st, ast.ClassDef):
                    visit(st.body, st.name, None)
                elif isinstance(st, ast.FunctionDef):
                    for n in ast.walk(st):
                        if isinstance(n, ast.Call) and isinstance(n.func, ast.Attribute):
                            calls.setdefault(n.func.attr, []).append((mod.name, cls, st.name, n.lineno))
                        if isinstance(n, ast.Attribute) and not isinstance(getattr(n, 'ctx', None), ast.Store):
                            pass
        visit(mod.tree.body, None, None)
    for mod, cname, meths in classes:
        for mname, fn in sorted(meths.items()):
            w = _writes(fn)
            if not w:
                continue
            name = '%s.%s.%s' % (mod.name, cname, mname)
            where = '%s:%d' % (mod.relpath, min(w.values()))
            if mname == '__init__':
                ctx.ok({'writer': name, 'kind': 'constructor', 'attributes': sorted(w)})
            elif 'write_port' in mname:
                ctx.ok({'writer': name, 'kind': 'port-write handler', 'attributes': sorted(w)})
            elif _from_params_only(fn):
                ctx.ok({'writer': name, 'kind': 'state handed in as parameters by the caller', 'attributes': sorted(w)})
            else:
                sites = [s for s in calls.get(mname, [])]
                outside = [s for s in sites if not (s[0] == mod.name and s[1] == cname and s[2] == '__init__')]
                if sites and not outside:
                    ctx.ok({'writer': name, 'kind': 'helper called only from the constructor', 'attributes': sorted(w)})
                else:
                    ctx.violation(name, where, '%s re-seeds the tracer\'s hardware state (%s) and is called from %s: port writes made before that call are forgotten, so the final state depends on how the run is divided' %
                                  (name, ', '.join(sorted(w)), ', '.join(sorted({'%s.%s' % (s[0], s[2]) for s in outside})) or 'unknown callers'))
