"""C11 - tapes (constants, length fields, monotonic edges)."""
import ast
from sa.core import pyfacts, report
from sa.core.pyfacts import Lit, NotLiteral, FactError, ModFolder, FuncFold

EXPLANATION = (
    "Decides: (1) the ROM loader timing constants agree across their copies - the TAP/TZX-0x10 timing function, the byte literals write_pzx emits "
    "(folded through the PZX block parser) and the PZX 'rom pilot'/'standard data' recognisers - for every flag byte 0..255; (2) the files "
    "write_tap and write_pzx produce are consumed exactly by the readers: block-length words equal the bytes that follow, the parser's "
    "running index ends at the end of the file and returns the original data (folded on blocks of several lengths); (3) the edge list is "
    "non-decreasing: get_edges appends only the running clock, the clock only grows by pulse/bit/tail/pause durations, and every value that "
    "reaches a TapeBlockTimings duration field is proven non-negative by a sign analysis of the TZX/PZX block parsers; (4) the data-block start "
    "index is taken after the last polarity adjustment. Not decided: that edges decode back to the block bits, edge equality across formats, "
    "data-block index ranges in general (numeric results of loops over data).")

class FakeFile:
    _sa_fold_ok = True
    def __init__(self):
        self.data = bytearray()
    def write(self, b):
        self.data.extend(b)
    def __enter__(self):
        return self
    def __exit__(self, *a):
        return False

class TapeFolder(ModFolder):
    """ModFolder for tape.py with open() -> FakeFile and class constructors -> records."""
    def __init__(self, repo):
        super().__init__(repo, 'tape')
        self.files = []

    def hook(self):
        base = super().hook()
        def f(n, lit):
            if isinstance(n, ast.Call) and isinstance(n.func, ast.Name):
                if n.func.id == 'open':
                    ff = FakeFile()
                    self.files.append(ff)
                    return ff
                if n.func.id in ('TapeBlockTimings', 'TapeBlock', 'Tape', 'DataBlock'):
                    cls = self.mod.classes[n.func.id]
                    init = [x for x in cls.body if isinstance(x, ast.FunctionDef) and x.name == '__init__'][0]
                    params = [a.arg for a in init.args.args][1:]
                    rec = {'__class__': n.func.id}
                    defaults = init.args.defaults
                    for p_, d_ in zip(params[len(params) - len(defaults):], defaults):
                        rec[p_] = Lit(self.repo, 'tape').ev(d_)
                    for p_, a_ in zip(params, n.args):
                        rec[p_] = lit.ev(a_)
                    for k in n.keywords:
                        rec[k.arg] = lit.ev(k.value)
                    return rec
            return base(n, lit)
        f.wants_lit = True
        return f

def parse_pzx_file(tf, data):
    """Fold _get_pzx_block over a whole file. -> list of block records, final index"""
    i = 0
    blocks = []
    prev = False
    n = 0
    data = list(data)
    while i < len(data):
        r = tf.call('_get_pzx_block', [data, i, n + 1, prev])
        i, block, prev = r
        blocks.append(block)
        n += 1
        if n > 50:
            raise FactError('PZX parse does not advance')
    return blocks, i

def constants_rule(ctx, repo):
    ctx.rule('C11.1-rom-timings', 'TAP timing function == PZX writer bytes (through the PZX parser) == PZX recognisers, for every flag byte', floor=256)
    tf = TapeFolder(repo)
    bad_shown = 0
    for flag in range(256):
        want = tf.call('_get_tape_block_timings', [flag])
        tf.files = []
        tf.call('write_pzx', ['x.pzx', [[flag, 1, 2, 3], [flag ^ 0xFF, 9]]])
        out = bytes(tf.files[0].data)
        blocks, end = parse_pzx_file(tf, out)
        ids = [b['block_id'] for b in blocks]
        problems = []
        if ids != ['PZXT', 'PULS', 'DATA', 'PAUS', 'PULS', 'DATA'] or end != len(out):
            problems.append('blocks read back as %s, parser stops at %d of %d bytes' % (ids, end, len(out)))
        else:
            puls, data, paus = blocks[1]['timings'], blocks[2]['timings'], blocks[3]['timings']
            if tuple(map(tuple, puls['pulses'])) != tuple(map(tuple, want['pulses'])):
                problems.append('pilot/sync pulses: TAP %s, PZX %s' % (list(want['pulses']), list(puls['pulses'])))
            if tuple(data['zero']) != tuple(want['zero']) or tuple(data['one']) != tuple(want['one']):
                problems.append('bit pulses: TAP %s/%s, PZX %s/%s' % (want['zero'], want['one'], data['zero'], data['one']))
            if paus['pause'] != want['pause']:
                problems.append('pause: TAP %s, PZX %s' % (want['pause'], paus['pause']))
            if blocks[2]['tape_data'] != [flag, 1, 2, 3] or blocks[5]['tape_data'] != [flag ^ 0xFF, 9]:
                problems.append('data read back as %s' % blocks[2]['tape_data'])
            if not blocks[2]['standard'] or not blocks[5]['standard']:
                problems.append('the block skoolkit wrote is not recognised as a standard-speed (ROM) block by its own PZX parser')
        if problems:
            if bad_shown < 3:
                ctx.violation('flag %d' % flag, 'skoolkit/tape.py (write_pzx / _get_pzx_block / _get_tape_block_timings)', 'first byte %d: %s' % (flag, '; '.join(problems)))
            else:
                ctx.violation('flag %d' % flag, 'skoolkit/tape.py', 'first byte %d: %s' % (flag, problems[0]))
            bad_shown += 1
        else:
            ctx.ok({'flag byte': flag, 'pilot': list(want['pulses'][0]), 'bits': [list(want['zero']), list(want['one'])]})

def lengths_rule(ctx, repo):
    ctx.rule('C11.2-lengths', 'write_tap / write_pzx output is consumed exactly by parse_tap-style length words and the PZX block parser (several data lengths)', floor=8)
    tf = TapeFolder(repo)
    for n in (1, 2, 19, 255, 256, 257, 6914):
        data = [(i * 7 + 3) & 0xFF for i in range(n)]
        tf.files = []
        tf.call('write_tap', ['x.tap', [data, [0xFF, 1]]])
        out = bytes(tf.files[0].data)
        want = bytes([n % 256, n // 256]) + bytes(data) + bytes([2, 0, 0xFF, 1])
        if out != want:
            ctx.violation('write_tap len %d' % n, 'skoolkit/tape.py (write_tap)', 'a %d-byte block is written as %d bytes with length word %s' % (n, len(out) - 6, list(out[:2])))
        else:
            ctx.ok({'writer': 'write_tap', 'block length': n})
        tf.files = []
        tf.call('write_pzx', ['x.pzx', [data]])
        out = bytes(tf.files[0].data)
        blocks, end = parse_pzx_file(tf, out)
        if end != len(out) or [b['block_id'] for b in blocks] != ['PZXT', 'PULS', 'DATA'] or blocks[2]['tape_data'] != data:
            ctx.violation('write_pzx len %d' % n, 'skoolkit/tape.py (write_pzx)', 'a %d-byte block does not read back: blocks %s, parser index %d of %d' % (n, [b['block_id'] for b in blocks], end, len(out)))
        else:
            ctx.ok({'writer': 'write_pzx', 'block length': n})
    # parse_tap reads the same length word
    pt = repo.mod('tape').func('parse_tap')
    src = ast.unparse(pt)
    if 'get_word(tap, i)' in src or 'tap[i] + 256 * tap[i + 1]' in src:
        ctx.ok({'reader': 'parse_tap', 'length word': '2 bytes little endian'})
    else:
        ctx.violation('parse_tap length', 'skoolkit/tape.py:%d' % pt.lineno, 'parse_tap no longer reads a 2-byte little-endian block length')

NONNEG_CALLS = {'get_word', 'get_word3', 'get_dword', 'len', 'abs'}

class Sign:
    """Flow-insensitive sign analysis: a name is non-negative if every assignment to it is."""
    def __init__(self, fn, const=None):
        self.fn = fn
        self.const = const or (lambda name: None)          # value of a module-level constant, or None
        self.assigns = {}
        for n in ast.walk(fn):
            if isinstance(n, ast.Assign):
                for t in n.targets:
                    self.bind(t, n.value)
            elif isinstance(n, ast.AugAssign) and isinstance(n.target, ast.Name):
                self.assigns.setdefault(n.target.id, []).append(('aug', n.op, n.value))
            elif isinstance(n, (ast.For, ast.comprehension)):
                self.bind_iter(n.target, n.iter)
        self.nonneg = set()
        changed = True
        while changed:
            changed = False
            for name, vals in self.assigns.items():
                if name in self.nonneg:
                    continue
                if all(self.ok_assign(v) for v in vals):
                    self.nonneg.add(name)
                    changed = True

    def bind(self, t, v):
        if isinstance(t, ast.Name):
            self.assigns.setdefault(t.id, []).append(('val', v))
        elif isinstance(t, (ast.Tuple, ast.List)):
            if isinstance(v, (ast.Tuple, ast.List)) and len(v.elts) == len(t.elts):
                for a, b in zip(t.elts, v.elts):
                    self.bind(a, b)
            else:
                for a in t.elts:
                    self.bind(a, ast.Subscript(value=v, slice=ast.Constant(0), ctx=ast.Load()))

    def bind_iter(self, t, it):
        # elements of the iterable
        if isinstance(t, ast.Name):
            self.assigns.setdefault(t.id, []).append(('elem', it))
        elif isinstance(t, (ast.Tuple, ast.List)):
            for a in t.elts:
                self.bind_iter(a, it)

    def ok_assign(self, v):
        if v[0] == 'val':
            return self.nn(v[1])
        if v[0] == 'elem':
            return self.nn_elems(v[1])
        if v[0] == 'aug':
            return isinstance(v[1], (ast.Add, ast.Mult, ast.FloorDiv, ast.Mod, ast.BitAnd, ast.BitOr, ast.RShift)) and self.nn(v[2])
        return False

    def nn_elems(self, it):
        if isinstance(it, ast.Call) and isinstance(it.func, ast.Name) and it.func.id == 'range':
            return all(self.nn(a) for a in it.args[:2])
        if isinstance(it, ast.Call) and isinstance(it.func, ast.Name) and it.func.id == 'enumerate':
            return self.nn_elems(it.args[0])
        return self.nn(it)

    def nn(self, e):
        if isinstance(e, ast.Constant):
            return isinstance(e.value, (int, float)) and e.value >= 0 or e.value is None or isinstance(e.value, (str, bytes))
        if isinstance(e, ast.Name):
            if e.id in self.nonneg or e.id in ('data', 'True', 'False', 'None'):
                return True
            if e.id not in self.assigns:
                def nonneg_value(v):
                    if isinstance(v, bool) or v is None or isinstance(v, (str, bytes)):
                        return True
                    if isinstance(v, (int, float)):
                        return v >= 0
                    if isinstance(v, (tuple, list)):
                        return all(nonneg_value(x) for x in v)
                    return False
                v = self.const(e.id)
                return v is not None and nonneg_value(v)
            return False
        if isinstance(e, ast.Starred):
            return self.nn(e.value)
        if isinstance(e, ast.BinOp):
            if isinstance(e.op, (ast.Add, ast.Mult, ast.FloorDiv, ast.BitAnd, ast.BitOr, ast.BitXor, ast.RShift, ast.LShift)):
                return self.nn(e.left) and self.nn(e.right)
            if isinstance(e.op, ast.Mod):
                return self.nn(e.right)
            return False
        if isinstance(e, ast.BoolOp):
            return all(self.nn(v) for v in e.values)
        if isinstance(e, ast.Compare):
            return True
        if isinstance(e, ast.IfExp):
            return self.nn(e.body) and self.nn(e.orelse)
        if isinstance(e, ast.Subscript):
            return self.nn(e.value)
        if isinstance(e, (ast.Tuple, ast.List)):
            return all(self.nn(x) for x in e.elts)
        if isinstance(e, (ast.GeneratorExp, ast.ListComp)):
            sub = Sign.__new__(Sign)
            return self.nn_with(e)
        if isinstance(e, ast.Call):
            if isinstance(e.func, ast.Name) and e.func.id in NONNEG_CALLS:
                return True
            if isinstance(e.func, ast.Name) and e.func.id in ('tuple', 'list', 'int', 'max', 'sorted', 'min', 'sum'):
                return all(self.nn(a) for a in e.args)
            return False
        if isinstance(e, ast.UnaryOp) and isinstance(e.op, ast.Not):
            return True
        return False

    def nn_with(self, comp):
        # generator: element expression over loop variables that range over non-negative iterables
        if self.nn(comp.elt):
            return True          # non-negative whatever the loop variables are (e.g. get_word(data, k))
        for g in comp.generators:
            if not self.nn_elems(g.iter):
                return False
            for t in ([g.target] if isinstance(g.target, ast.Name) else g.target.elts):
                if isinstance(t, ast.Name):
                    self.nonneg.add(t.id)
        return self.nn(comp.elt)

def monotonic_rule(ctx, repo):
    ctx.rule('C11.3-monotonic', 'edges are non-decreasing: only the running clock is appended; the clock grows only by durations proven non-negative', floor=10)
    mod = repo.mod('tape')
    ge = mod.func('get_edges')
    where = 'skoolkit/tape.py'
    ok_appends = 0
    for n in ast.walk(ge):
        if isinstance(n, ast.Call) and isinstance(n.func, ast.Attribute) and n.func.attr in ('append', 'extend', 'insert') and ast.unparse(n.func.value) == 'edges':
            arg = ast.unparse(n.args[-1])
            if n.func.attr == 'append' and arg in ('tstates', 'first_edge'):
                ctx.ok({'site': 'edges.append(%s)' % arg, 'line': n.lineno})
                ok_appends += 1
            else:
                ctx.violation('edges.%s(%s)' % (n.func.attr, arg), '%s:%d' % (where, n.lineno), 'edge list receives %s, which is not the running clock' % arg)
    durations = {'duration', 'd', 'timings.tail', 'timings.pause'}
    for n in ast.walk(ge):
        if isinstance(n, ast.AugAssign) and ast.unparse(n.target) == 'tstates':
            v = ast.unparse(n.value)
            if isinstance(n.op, ast.Add) and v in durations:
                ctx.ok({'site': 'tstates += ' + v, 'line': n.lineno})
            else:
                ctx.violation('tstates %s= %s' % (type(n.op).__name__, v), '%s:%d' % (where, n.lineno), 'the running clock is changed by `%s`, not by adding a pulse/bit/tail/pause duration' % ast.unparse(n))
        if isinstance(n, ast.Assign) and any(ast.unparse(t) == 'tstates' for t in n.targets) and ast.unparse(n.value) != 'first_edge':
            ctx.violation('tstates = ' + ast.unparse(n.value), '%s:%d' % (where, n.lineno), 'the running clock is re-assigned')
        if isinstance(n, ast.AugAssign) and ast.unparse(n.target) == 'edges[-1]':
            # in-place extension of the last edge: allowed only by +d next to tstates += d under `if d:`
            ctx.ok({'site': 'edges[-1] += ' + ast.unparse(n.value), 'line': n.lineno}) if (isinstance(n.op, ast.Add) and ast.unparse(n.value) == 'd') else \
                ctx.violation('edges[-1] update', '%s:%d' % (where, n.lineno), 'last edge is modified by `%s`' % ast.unparse(n))
    # loop variables of get_edges draw durations from timings fields only
    for n in ast.walk(ge):
        if isinstance(n, ast.For):
            tg = ast.unparse(n.target)
            it = ast.unparse(n.iter)
            if tg in ('d', 'count, duration'):
                allowed = ('timings.pulses', 'timings.one', 'timings.zero', 'b_timings[', 'bt[')
                src_ok = any(x in it for x in allowed)
                if not src_ok and isinstance(n.iter, ast.Name):
                    # a local that holds one of those sequences
                    vals = [ast.unparse(a.value) for a in ast.walk(ge) if isinstance(a, ast.Assign) and any(isinstance(t, ast.Name) and t.id == n.iter.id for t in a.targets)]
                    src_ok = bool(vals) and all(any(x in v for x in allowed) for v in vals)
                if src_ok:
                    ctx.ok({'loop': 'for %s in %s' % (tg, it[:50])})
                else:
                    ctx.violation('duration source', '%s:%d' % (where, n.lineno), 'durations are drawn from %s' % it)
    if ok_appends < 5:
        raise FactError('skoolkit/tape.py: expected at least 5 edges.append(tstates) sites, found %d' % ok_appends)
    # every TapeBlockTimings(...) argument is non-negative
    for fname in ('_get_tzx_block', '_get_pzx_block', '_get_tape_block_timings'):
        fn = mod.func(fname)
        sg = Sign(fn, lambda name: repo.const('tape', name))
        for p_ in fn.args.args:
            if p_.arg in ('pause', 'i', 'block_num', 'first_byte'):
                sg.nonneg.add(p_.arg)
        # re-run the fixpoint after seeding parameters
        sg.__init__.__func__ if False else None
        changed = True
        while changed:
            changed = False
            for name, vals in sg.assigns.items():
                if name not in sg.nonneg and all(sg.ok_assign(v) for v in vals):
                    sg.nonneg.add(name)
                    changed = True
        for n in ast.walk(fn):
            if isinstance(n, ast.Call) and isinstance(n.func, ast.Name) and n.func.id == 'TapeBlockTimings':
                items = [(None, a) for a in n.args] + [(k.arg, k.value) for k in n.keywords]
                for kw, a in items:
                    if kw in ('polarity', 'error', 'data'):
                        continue
                    if sg.nn(a):
                        ctx.ok({'function': fname, 'argument': (kw or 'positional') + '=' + ast.unparse(a)[:40]})
                    else:
                        ctx.violation('%s TapeBlockTimings %s' % (fname, ast.unparse(a)[:40]), '%s:%d' % (where, n.lineno),
                                      'duration argument %s=%s is not provably non-negative: a negative duration makes the edge list decrease' % (kw or 'positional', ast.unparse(a)[:80]))

def start_index_rule(ctx, repo):
    ctx.rule('C11.4-start-index', 'the data-block start index is taken after the last polarity adjustment (no edge is appended between it and the first data edge)', floor=1)
    ge = repo.mod('tape').func('get_edges')
    found = False
    for n in ast.walk(ge):
        if isinstance(n, ast.If) and ast.unparse(n.test) == 'data':
            body = n.body
            idx = [i for i, st in enumerate(body) if isinstance(st, ast.Assign) and ast.unparse(st.targets[0]) == 'start' and 'len(edges)' in ast.unparse(st.value)]
            if not idx:
                continue
            found = True
            i0 = idx[0]
            # statements after `start = ...` until the first loop / if that appends data edges
            bad = False
            for st in body[i0 + 1:]:
                if isinstance(st, (ast.If, ast.For, ast.While)):
                    break
                if any(isinstance(x, ast.Call) and (ast.unparse(x.func) == '_check_polarity' or (isinstance(x.func, ast.Attribute) and x.func.attr == 'append' and ast.unparse(x.func.value) == 'edges')) for x in ast.walk(st)):
                    bad = True
            before = any(isinstance(x, ast.Call) and ast.unparse(x.func) == '_check_polarity' for st in body[:i0] for x in ast.walk(st))
            if bad or not before:
                ctx.violation('start index', 'skoolkit/tape.py:%d' % body[i0].lineno, 'the start index of the data block is recorded before the polarity-adjustment edge may be appended: the block range starts one edge early')
            else:
                ctx.ok({'start index': 'after _check_polarity'})
    if not found:
        raise FactError('skoolkit/tape.py: data-block start index assignment not found in get_edges')

class Rec:
    _sa_fold_ok = True
    def __init__(self, **kw):
        self.__dict__.update(kw)

def pulses_rule(ctx, repo):
    ctx.rule('C11.5-pulse-shape', 'data edges == the pulses the block specifies, for every bit-pulse-sequence length 1..4 x used bits 1..8 (get_edges folded against a reference)', floor=32)
    tf = TapeFolder(repo)
    data = [0xA5, 0x3C, 0xF0]
    for np in (1, 2, 3, 4):
        zero = tuple(100 + 10 * i for i in range(np))
        one = tuple(300 + 10 * i for i in range(np))
        for used in range(1, 9):
            timings = Rec(pulses=((2, 1000),), zero=zero, one=one, pause=0, used_bits=used, data=False, tail=0, polarity=None, error=None)
            block = Rec(timings=timings, data=data, keys=None)
            try:
                edges, dblocks = tf.call('get_edges', [[block]])
            except NotLiteral as e:
                ctx.limit('np=%d used=%d' % (np, used), 'get_edges not foldable: %s' % e)
                continue
            want = [0, 1000, 2000]
            t = 2000
            for k, b in enumerate(data):
                nbits = 8 if k < len(data) - 1 else used
                for j in range(nbits):
                    for d in (one if b & (0x80 >> j) else zero):
                        t += d
                        want.append(t)
            st = dblocks[0].start if hasattr(dblocks[0], 'start') else dblocks[0]['start']
            en = dblocks[0].end if hasattr(dblocks[0], 'end') else dblocks[0]['end']
            if list(edges) != want or (st, en) != (2, len(want) - 1):
                ctx.violation('pulses per bit %d, used bits %d' % (np, used), 'skoolkit/tape.py (get_edges)',
                              'a data block with %d pulse(s) per bit and %d used bit(s) in the last byte yields %d edges (data range %s..%s), the block specifies %d (range 2..%d)' % (np, used, len(edges), st, en, len(want), len(want) - 1))
            else:
                ctx.ok({'pulses per bit': np, 'used bits': used, 'edges': len(want)})

def composition_rule(ctx, repo):
    """C11.6: what a block contributes to the edge list depends only on the block and on (time, signal level) where it starts - not on
    which blocks came before.  get_edges([A, B]) is folded against get_edges([P, B]) for a plain pulse block P that ends at the same time
    and level as A: the edges after the first block, and B's reported data range relative to them, must be identical.  Catches state carried
    across blocks (decoder variables, timing tables cached under an incomplete key, indices taken before an adjustment edge)."""
    from sa.core.classfold import ClassFolder
    ctx.rule('C11.6-composition', 'edges and data range contributed by a block depend only on the block and on the (time, level) at which it starts: get_edges([A, B]) tail == get_edges([P, B]) tail for an equivalent plain prefix P', floor=40)
    cf = ClassFolder(repo, 'tape')
    def timings(**kw):
        return cf.new('TapeBlockTimings', **kw)
    def block(n, data, t):
        b = cf.new('TapeBlock', n, data, t)
        b.keys = None          # tap2sna attaches the key presses for the block before get_edges is called
        return b
    def family():
        fam = []
        fam.append(('bytes 1 pulse/bit', lambda: block(1, [0xA5, 0x0F], timings(pulses=((3, 500), (1, 120), (1, 130)), zero=(100,), one=(200,), used_bits=8))))
        fam.append(('bytes 2 pulses/bit', lambda: block(1, [0x5A, 0xC3], timings(pulses=((2, 400),), zero=(100, 110), one=(100, 310), used_bits=6))))
        fam.append(('bytes same first pulse, longer sequences', lambda: block(1, [0x5A, 0xC3], timings(zero=(100, 110, 120), one=(100, 310, 320), used_bits=8))))
        fam.append(('samples leaving an even number of edges', lambda: block(1, [0b10100000], timings(zero=(70, 0), one=(0, 70), used_bits=4))))
        fam.append(('samples leaving an odd number of edges', lambda: block(1, [0b10000000], timings(zero=(70, 0), one=(0, 70), used_bits=3))))
        fam.append(('samples all ones', lambda: block(1, [0xFF], timings(zero=(90, 0), one=(0, 90), used_bits=8))))
        fam.append(('pure tone', lambda: block(1, [], timings(pulses=((5, 300),)))))
        fam.append(('bytes with polarity 0', lambda: block(1, [0x81], timings(pulses=((2, 400),), zero=(100,), one=(200,), polarity=0))))
        fam.append(('bytes with polarity 1', lambda: block(1, [0x81], timings(pulses=((1, 400),), zero=(100,), one=(200,), polarity=1))))
        return fam
    fam = family()
    def fold(blocks):
        r = cf.call_func('tape', 'get_edges', [blocks])
        edges, dbs = r[0], r[1]
        return list(edges), [(d.start, d.end, list(d.data), d.fast_load) for d in dbs]
    for an, amk in fam:
        for bn, bmk in fam:
            name = '[%s] then [%s]' % (an, bn)
            try:
                ea, da = fold([amk()])
                eab, dab = fold([amk(), bmk()])
                t_end, parity = ea[-1], (len(ea) - 1) % 2
                if t_end < 2:
                    ctx.limit(name, 'prefix too short to mimic')
                    continue
                # plain prefix with the same end time and level: one pulse (odd parity) or two pulses (even parity)
                pp = ((1, t_end),) if parity else ((1, 1), (1, t_end - 1))
                P = block(1, [], timings(pulses=pp))
                ep, dp_ = fold([P])
                epb, dpb = fold([P, bmk()])
            except NotLiteral as e:
                ctx.limit(name, 'get_edges not foldable: %s' % e)
                continue
            except (KeyError, IndexError, ValueError, TypeError, AttributeError) as e:
                ctx.violation(name, 'skoolkit/tape.py (get_edges)', 'get_edges fails on the tape %s with %s: %s' % (name, type(e).__name__, e))
                continue
            if ep[-1] != t_end or (len(ep) - 1) % 2 != parity:
                ctx.limit(name, 'could not build an equivalent plain prefix')
                continue
            # a block that starts with a zero-length pulse extends the last edge of the block before it, so that edge belongs to the tail
            tail_ab, tail_pb = eab[len(ea) - 1:], epb[len(ep) - 1:]
            pre_ok = eab[:len(ea) - 1] == ea[:-1]
            db_ab = [(s_ - len(ea), e_ - len(ea), d_, f_) for s_, e_, d_, f_ in dab[-1:]]
            db_pb = [(s_ - len(ep), e_ - len(ep), d_, f_) for s_, e_, d_, f_ in dpb[-1:]]
            if not pre_ok:
                ctx.violation(name, 'skoolkit/tape.py (get_edges)', 'the edges of the first block change when another block follows it: alone %s, followed %s' % (ea[-6:], eab[:len(ea)][-6:]))
            elif tail_ab != tail_pb:
                k = next((i for i, (x, y) in enumerate(zip(tail_ab, tail_pb)) if x != y), min(len(tail_ab), len(tail_pb)))
                ctx.violation(name, 'skoolkit/tape.py (get_edges)', 'block [%s] starting at T=%d, level %d yields different edges after [%s] than after a plain pulse block ending at the same time and level: edge %d of the block is %s vs %s (%d vs %d edges): state leaks from the previous block' %
                              (bn, t_end, parity, an, k, tail_ab[k:k + 3], tail_pb[k:k + 3], len(tail_ab), len(tail_pb)))
            elif db_ab != db_pb:
                ctx.violation(name, 'skoolkit/tape.py (get_edges)', 'data range reported for block [%s] differs by what precedes it: %s after [%s], %s after a plain pulse block' %
                              (bn, [(x[0], x[1]) for x in db_ab], an, [(x[0], x[1]) for x in db_pb]))
            else:
                ctx.ok({'first': an, 'second': bn, 'edges of second': len(tail_ab)})

def formats_rule(ctx, repo):
    """C11.7 (*fold*): one logical tape, written by the checker in three container formats from their specifications (TAP; TZX 1.20 with
    standard-speed 0x10, turbo 0x11 carrying the ROM timings, and pure tone 0x12 + pulse sequence 0x13 + pure data 0x14; PZX 1.0 PULS/DATA/PAUS),
    is folded through parse_tap / parse_tzx / parse_pzx and get_edges: all must give the edge list the ROM loader timings define
    (pilot 8063 or 3223 x 2168, sync 667 + 735, bits 855 / 1710 twice, one second between blocks) and report the same data ranges."""
    from sa.core.classfold import ClassFolder
    ctx.rule('C11.7-formats', 'the same logical tape as TAP, TZX (0x10 / 0x11 / 0x12+0x13+0x14) and PZX, built from the format specifications and folded through the parsers and get_edges, yields the reference edge list and the same data ranges; PZX DATA / TZX pure data with other bit encodings and partly used last bytes yield the edges their definitions give', floor=24)
    cf = ClassFolder(repo, 'tape')
    where = 'skoolkit/tape.py'
    def w16(v): return [v & 255, (v >> 8) & 255]
    def w24(v): return [v & 255, (v >> 8) & 255, (v >> 16) & 255]
    def w32(v): return [v & 255, (v >> 8) & 255, (v >> 16) & 255, (v >> 24) & 255]
    PILOT, S1, S2, ZERO, ONE, PAUSE_MS = 2168, 667, 735, 855, 1710, 1000
    def npilot(flag): return 8063 if flag < 128 else 3223
    def tap(blocks):
        out = []
        for b in blocks:
            out += w16(len(b)) + list(b)
        return bytes(out)
    def tzx(blocks, style):
        out = list(b'ZXTape!\x1a') + [1, 20]
        for b in blocks:
            if style == 'standard':
                out += [0x10] + w16(PAUSE_MS) + w16(len(b)) + list(b)
            elif style == 'turbo':
                out += [0x11] + w16(PILOT) + w16(S1) + w16(S2) + w16(ZERO) + w16(ONE) + w16(npilot(b[0])) + [8] + w16(PAUSE_MS) + w24(len(b)) + list(b)
            else:
                out += [0x12] + w16(PILOT) + w16(npilot(b[0]))
                out += [0x13, 2] + w16(S1) + w16(S2)
                out += [0x14] + w16(ZERO) + w16(ONE) + [8] + w16(PAUSE_MS) + w24(len(b)) + list(b)
        return bytes(out)
    def pzx(blocks):
        out = list(b'PZXT') + w32(2) + [1, 0]
        for k, b in enumerate(blocks):
            if k:
                out += list(b'PAUS') + w32(4) + w32(PAUSE_MS * 3500)
            puls = w16(0x8000 | npilot(b[0])) + w16(PILOT) + w16(S1) + w16(S2)
            out += list(b'PULS') + w32(len(puls)) + puls
            data = w32(0x80000000 | (8 * len(b))) + w16(945) + [2, 2] + w16(ZERO) + w16(ZERO) + w16(ONE) + w16(ONE) + list(b)
            out += list(b'DATA') + w32(len(data)) + data
        return bytes(out)
    def reference(blocks, tail=0):
        edges = [0]
        t = 0
        ranges = []
        for k, b in enumerate(blocks):
            for _ in range(npilot(b[0])):
                t += PILOT; edges.append(t)
            for d in (S1, S2):
                t += d; edges.append(t)
            start = len(edges) - 1
            for byte in b:
                for bit in range(8):
                    d = ONE if byte & (0x80 >> bit) else ZERO
                    for _ in range(2):
                        t += d; edges.append(t)
            if tail:
                t += tail; edges.append(t)        # the tail pulse belongs to the PZX DATA block
            ranges.append((start, len(edges) - 1))
            if k + 1 < len(blocks):
                t += PAUSE_MS * 3500
        return edges, ranges
    tapes = {
        'header + data': [[0x00, 3, 65, 66, 67, 0x55], [0xFF, 1, 2, 3, 0x81, 0x7E]],
        'single data block': [[0xFF, 0xA5]],
        'three blocks': [[0x00, 0x00], [0xFF, 0xFF], [0x7F, 0x80, 0x01]],
    }
    for tname, blocks in tapes.items():
        want_edges, want_ranges = reference(blocks)
        variants = [('TAP', 'parse_tap', tap(blocks), 0), ('TZX standard speed', 'parse_tzx', tzx(blocks, 'standard'), 0), ('TZX turbo', 'parse_tzx', tzx(blocks, 'turbo'), 0),
                    ('TZX tone+pulses+pure data', 'parse_tzx', tzx(blocks, 'pure'), 0), ('PZX', 'parse_pzx', pzx(blocks), 945)]
        for vname, parser, data, tail in variants:
            name = '%s as %s' % (tname, vname)
            try:
                if parser == 'parse_tzx':
                    tp = cf.call_func('tape', parser, [data], {'info': False, 'timings': True})
                else:
                    tp = cf.call_func('tape', parser, [data])
                blks = [b for b in tp.blocks if b.timings]          # as tap2sna does before building the edge list
                for b in blks:
                    if not hasattr(b, 'keys'):
                        b.keys = None
                r = cf.call_func('tape', 'get_edges', [blks])
                edges, dbs = list(r[0]), [(d.start, d.end) for d in r[1] if list(d.data)]
            except NotLiteral as e:
                ctx.limit(name, 'not foldable: %s' % e)
                continue
            except (KeyError, IndexError, ValueError, TypeError, AttributeError) as e:
                ctx.violation(name, where, '%s: parsing or get_edges fails with %s: %s' % (name, type(e).__name__, e))
                continue
            we, wr = reference(blocks, tail) if tail else (want_edges, want_ranges)
            if tail and we[-1] == edges[-1] + tail:
                we = we[:-1]          # a final tail pulse is dropped at the end of the tape
                wr = wr[:-1] + [(wr[-1][0], wr[-1][1] - 1)]
            if edges != we:
                k = next((i for i, (x, y) in enumerate(zip(edges, we)) if x != y), min(len(edges), len(we)))
                ctx.violation(name, where, '%s: edge %d is %s, the ROM timings give %s (%d edges vs %d)' % (name, k, edges[k:k + 3], we[k:k + 3], len(edges), len(we)))
            elif dbs != wr:
                ctx.violation(name, where, '%s: data ranges %s, expected %s' % (name, dbs, wr))
            else:
                ctx.ok({'tape': tname, 'format': vname, 'edges': len(edges)})

    # bit encodings other than the ROM's: PZX DATA with 0- and 1-bit pulse sequences of different lengths and a partly used last byte;
    # TZX pure data with a partly used last byte
    def custom_reference(pulses, s0, s1, data, bits, tail):
        edges, t = [0], 0
        for count, d in pulses:
            for _ in range(count):
                t += d; edges.append(t)
        start = len(edges) - 1
        n = 0
        for byte in data:
            for bit in range(8):
                if n == bits:
                    break
                n += 1
                for d in (s1 if byte & (0x80 >> bit) else s0):
                    t += d; edges.append(t)
        if tail:
            t += tail; edges.append(t)
        return edges, [(start, len(edges) - 1)]
    customs = []
    for s0, s1 in (((600,), (500, 700, 900)), ((400, 450, 500), (1000,)), ((855, 855), (1710, 1710)), ((300, 300, 300, 300), (650, 650))):
        for used in (8, 5, 1):
            data = [0xA5, 0x0F, 0xF0, 0x81]
            bits = 8 * (len(data) - 1) + used
            pulses = [(5, 1000), (1, 300), (1, 400)]
            puls = []
            for count, d in pulses:
                puls += (w16(0x8000 | count) if count > 1 else []) + w16(d)
            body = w32(0x80000000 | bits) + w16(0) + [len(s0), len(s1)]
            for d in s0 + s1:
                body += w16(d)
            body += data
            blob = list(b'PZXT') + w32(2) + [1, 0] + list(b'PULS') + w32(len(puls)) + puls + list(b'DATA') + w32(len(body)) + body
            customs.append(('PZX DATA, 0-bit pulses %s, 1-bit pulses %s, %d bits used in the last byte' % (s0, s1, used), 'parse_pzx', bytes(blob), custom_reference(pulses, s0, s1, data, bits, 0)))
    for used in (8, 3):
        data = [0x5A, 0xC3, 0xFF]
        blob = list(b'ZXTape!\x1a') + [1, 20] + [0x12] + w16(1000) + w16(4) + [0x14] + w16(700) + w16(1400) + [used] + w16(0) + w24(len(data)) + data
        customs.append(('TZX pure data, %d bits used in the last byte' % used, 'parse_tzx', bytes(blob), custom_reference([(4, 1000)], (700, 700), (1400, 1400), data, 8 * (len(data) - 1) + used, 0)))
    for name, parser, data, (we, wr) in customs:
        try:
            if parser == 'parse_tzx':
                tp = cf.call_func('tape', parser, [data], {'info': False, 'timings': True})
            else:
                tp = cf.call_func('tape', parser, [data])
            blks = [b for b in tp.blocks if b.timings]
            for b in blks:
                if not hasattr(b, 'keys'):
                    b.keys = None
            r = cf.call_func('tape', 'get_edges', [blks])
            edges, dbs = list(r[0]), [(d.start, d.end) for d in r[1] if list(d.data)]
        except NotLiteral as e:
            ctx.limit(name, 'not foldable: %s' % e)
            continue
        except (KeyError, IndexError, ValueError, TypeError, AttributeError) as e:
            ctx.violation(name, where, '%s: parsing or get_edges fails with %s: %s' % (name, type(e).__name__, e))
            continue
        if edges != we:
            k = next((i for i, (x, y) in enumerate(zip(edges, we)) if x != y), min(len(edges), len(we)))
            ctx.violation(name, where, '%s: edge %d is %s, the block definition gives %s (%d edges vs %d)' % (name, k, edges[k:k + 3], we[k:k + 3], len(edges), len(we)))
        elif dbs != wr:
            ctx.violation(name, where, '%s: data ranges %s, expected %s' % (name, dbs, wr))
        else:
            ctx.ok({'block': name, 'edges': len(edges)})

def run(ctx):
    repo = pyfacts.Repo(ctx.repo_root)
    pulses_rule(ctx, repo)
    constants_rule(ctx, repo)
    lengths_rule(ctx, repo)
    monotonic_rule(ctx, repo)
    start_index_rule(ctx, repo)
    composition_rule(ctx, repo)
    formats_rule(ctx, repo)
    from sa.rules import memo
    memo.run_for(ctx, repo, 'C11')
    return report.finish(ctx, EXPLANATION)
