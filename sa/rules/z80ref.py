"""Independent reference model of the Z80 8-bit ALU / rotate / bit / DAA flag semantics (documented behaviour plus the
agreed undocumented bits 5 and 3), written from the instruction-set description, not from the repository.
Each function returns the value a lookup table entry must hold for the given indices."""
S, Z, F5, H, F3, PV, N, CF = 0x80, 0x40, 0x20, 0x10, 0x08, 0x04, 0x02, 0x01

def parity(r):
    return PV if bin(r).count('1') % 2 == 0 else 0

def sz53(r):
    return (r & (S | F5 | F3)) | (Z if r == 0 else 0)

def add8(a, n, c):
    r = a + n + c
    res = r & 0xFF
    f = sz53(res)
    if ((a & 15) + (n & 15) + c) > 15: f |= H
    if (~(a ^ n) & (a ^ res)) & 0x80: f |= PV
    if r > 0xFF: f |= CF
    return res, f

def sub8(a, n, c):
    r = a - n - c
    res = r & 0xFF
    f = sz53(res) | N
    if ((a & 15) - (n & 15) - c) < 0: f |= H
    if ((a ^ n) & (a ^ res)) & 0x80: f |= PV
    if r < 0: f |= CF
    return res, f

def cp8(a, n):
    res, f = sub8(a, n, 0)
    f = (f & ~(F5 | F3)) | (n & (F5 | F3))     # bits 5/3 come from the operand
    return a, f

def and8(a, n):
    r = a & n
    return r, sz53(r) | parity(r) | H

def or8(a, n):
    r = a | n
    return r, sz53(r) | parity(r)

def xor8(a, n):
    r = a ^ n
    return r, sz53(r) | parity(r)

def inc8(c, v):
    res = (v + 1) & 0xFF
    f = sz53(res) | c
    if (v & 15) == 15: f |= H
    if v == 0x7F: f |= PV
    return res, f

def dec8(c, v):
    res = (v - 1) & 0xFF
    f = sz53(res) | N | c
    if (v & 15) == 0: f |= H
    if v == 0x80: f |= PV
    return res, f

def neg8(a):
    return sub8(0, a, 0)

def _shift(res, carry):
    return res, sz53(res) | parity(res) | carry

def rlc(v): return _shift(((v << 1) | (v >> 7)) & 0xFF, v >> 7)
def rrc(v): return _shift((v >> 1) | ((v & 1) << 7), v & 1)
def rl(c, v): return _shift(((v << 1) | c) & 0xFF, v >> 7)
def rr(c, v): return _shift((v >> 1) | (c << 7), v & 1)
def sla(v): return _shift((v << 1) & 0xFF, v >> 7)
def sll(v): return _shift(((v << 1) | 1) & 0xFF, v >> 7)
def sra(v): return _shift((v >> 1) | (v & 0x80), v & 1)
def srl(v): return _shift(v >> 1, v & 1)

def _acc_rot(a2, carry, f):
    return a2, (f & (S | Z | PV)) | (a2 & (F5 | F3)) | carry

def rlca(a, f): return _acc_rot(((a << 1) | (a >> 7)) & 0xFF, a >> 7, f)
def rrca(a, f): return _acc_rot((a >> 1) | ((a & 1) << 7), a & 1, f)
def rla(a, f): return _acc_rot(((a << 1) | (f & 1)) & 0xFF, a >> 7, f)
def rra(a, f): return _acc_rot((a >> 1) | ((f & 1) << 7), a & 1, f)

def cpl(a, f):
    r = a ^ 0xFF
    return r, (f & (S | Z | PV | CF)) | (r & (F5 | F3)) | H | N

def scf(f, a):
    return (f & (S | Z | PV)) | (a & (F5 | F3)) | CF

def ccf(f, a):
    return (f & (S | Z | PV)) | (a & (F5 | F3)) | (H if f & CF else 0) | ((f & CF) ^ CF)

def daa(a, f):
    c, h, n = f & CF, f & H, f & N
    corr = 0
    newc = c
    if h or (a & 15) > 9:
        corr |= 0x06
    if c or a > 0x99:
        corr |= 0x60
        newc = CF
    if n:
        res = (a - corr) & 0xFF
        newh = H if (h and (a & 15) < 6) else 0
    else:
        res = (a + corr) & 0xFF
        newh = H if (a & 15) > 9 else 0
    return res, sz53(res) | parity(res) | newh | n | newc

def bit(c, b, v):
    f = H | c | (v & (F5 | F3))
    if v & (1 << b) == 0:
        f |= Z | PV
    elif b == 7:
        f |= S
    return f

# table name -> (index ranges, reference function of the indices)
TABLES = {
    'PARITY': ((256,), lambda r: parity(r)),
    'SZ53P': ((256,), lambda r: sz53(r) | parity(r)),
    'ADC': ((2, 256, 256), lambda c, a, n: add8(a, n, c)),
    'SBC': ((2, 256, 256), lambda c, a, n: sub8(a, n, c)),
    'ADC_A_A': ((2, 256), lambda c, a: add8(a, a, c)),
    'SBC_A_A': ((2, 256), lambda c, a: sub8(a, a, c)),
    'ADD': ((256, 256), lambda a, n: add8(a, n, 0)),
    'SUB': ((256, 256), lambda a, n: sub8(a, n, 0)),
    'AND': ((256, 256), and8),
    'OR': ((256, 256), or8),
    'XOR': ((256, 256), xor8),
    'CP': ((256, 256), cp8),
    'INC': ((2, 256), inc8),
    'DEC': ((2, 256), dec8),
    'NEG': ((256,), neg8),
    'RLC': ((256,), rlc), 'RRC': ((256,), rrc), 'SLA': ((256,), sla), 'SLL': ((256,), sll), 'SRA': ((256,), sra), 'SRL': ((256,), srl),
    'RL': ((2, 256), rl), 'RR': ((2, 256), rr),
    'RLCA': ((256, 256), rlca), 'RRCA': ((256, 256), rrca), 'RLA': ((256, 256), rla), 'RRA': ((256, 256), rra),
    'CPL': ((256, 256), cpl),
    'DAA': ((256, 256), daa),
    'SCF': ((256, 256), scf),
    'CCF': ((256, 256), ccf),
    'BIT': ((2, 8, 256), bit),
}
