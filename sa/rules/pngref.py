"""Independent PNG / APNG decoder (PNG 1.2 specification + APNG 1.0) and Spectrum display reference model for the C15 image rules.
Written from the specifications and the SkoolKit manual (masks, palette, flash), not from skoolkit/image.py or pngwriter.py."""
import zlib

class PngError(Exception):
    pass

def _crc_table():
    t = []
    for n in range(256):
        c = n
        for _ in range(8):
            c = (c >> 1) ^ 0xEDB88320 if c & 1 else c >> 1
        t.append(c)
    return t
_CRC = _crc_table()

def crc32(data):
    c = 0xFFFFFFFF
    for b in data:
        c = _CRC[(c ^ b) & 0xFF] ^ (c >> 8)
    return c ^ 0xFFFFFFFF

def chunks(data):
    if bytes(data[:8]) != b'\x89PNG\r\n\x1a\n':
        raise PngError('bad PNG signature')
    i = 8
    out = []
    while i < len(data):
        if i + 12 > len(data):
            raise PngError('truncated chunk header at offset %d' % i)
        ln = int.from_bytes(data[i:i + 4], 'big')
        typ = bytes(data[i + 4:i + 8])
        body = bytes(data[i + 8:i + 8 + ln])
        if len(body) != ln:
            raise PngError('chunk %r is shorter than its length word %d' % (typ, ln))
        crc = int.from_bytes(data[i + 8 + ln:i + 12 + ln], 'big')
        if crc != crc32(typ + body):
            raise PngError('chunk %r has CRC %08X, computed %08X' % (typ, crc, crc32(typ + body)))
        out.append((typ, body))
        i += 12 + ln
    if not out or out[-1][0] != b'IEND' or out[-1][1]:
        raise PngError('file does not end with an empty IEND chunk')
    return out

def _unfilter(raw, width, height, depth):
    stride = (width * depth + 7) // 8
    if len(raw) != (stride + 1) * height:
        raise PngError('image data is %d bytes, %d x %d at depth %d needs %d' % (len(raw), width, height, depth, (stride + 1) * height))
    rows = []
    prev = bytes(stride)
    bpp = 1
    for y in range(height):
        ft = raw[y * (stride + 1)]
        line = bytearray(raw[y * (stride + 1) + 1:(y + 1) * (stride + 1)])
        for i in range(stride):
            a = line[i - bpp] if i >= bpp else 0
            b = prev[i]
            c = prev[i - bpp] if i >= bpp else 0
            if ft == 0: pass
            elif ft == 1: line[i] = (line[i] + a) & 255
            elif ft == 2: line[i] = (line[i] + b) & 255
            elif ft == 3: line[i] = (line[i] + (a + b) // 2) & 255
            elif ft == 4:
                p = a + b - c
                pa, pb, pc = abs(p - a), abs(p - b), abs(p - c)
                pr = a if pa <= pb and pa <= pc else b if pb <= pc else c
                line[i] = (line[i] + pr) & 255
            else:
                raise PngError('filter type %d' % ft)
        prev = bytes(line)
        px = []
        for x in range(width):
            bit = x * depth
            byte = line[bit // 8]
            px.append((byte >> (8 - depth - bit % 8)) & ((1 << depth) - 1))
        rows.append(px)
    return rows

def decode(data):
    """-> dict(width, height, frames=[dict(x, y, width, height, pixels=[[ (r,g,b,a) ]], delay)], animated)"""
    ch = chunks(data)
    if ch[0][0] != b'IHDR' or len(ch[0][1]) != 13:
        raise PngError('first chunk is not a 13-byte IHDR')
    ih = ch[0][1]
    width, height = int.from_bytes(ih[0:4], 'big'), int.from_bytes(ih[4:8], 'big')
    depth, ctype, comp, filt, inter = ih[8], ih[9], ih[10], ih[11], ih[12]
    if ctype != 3 or depth not in (1, 2, 4, 8) or comp or filt or inter:
        raise PngError('IHDR: colour type %d, depth %d, compression %d, filter %d, interlace %d' % (ctype, depth, comp, filt, inter))
    if width == 0 or height == 0:
        raise PngError('zero image dimension')
    plte = trns = None
    idat = b''
    actl = None
    frames = []
    cur = None
    seq = 0
    seen_idat = False
    for typ, body in ch[1:]:
        if typ == b'PLTE':
            if len(body) % 3 or not body or len(body) // 3 > (1 << depth):
                raise PngError('PLTE of %d bytes at depth %d' % (len(body), depth))
            if seen_idat:
                raise PngError('PLTE after IDAT')
            plte = [tuple(body[i:i + 3]) for i in range(0, len(body), 3)]
        elif typ == b'tRNS':
            if plte is None or len(body) > len(plte) or seen_idat:
                raise PngError('tRNS misplaced or longer than the palette')
            trns = list(body)
        elif typ == b'acTL':
            if seen_idat:
                raise PngError('acTL after IDAT')
            actl = (int.from_bytes(body[0:4], 'big'), int.from_bytes(body[4:8], 'big'))
        elif typ == b'fcTL':
            if len(body) != 26:
                raise PngError('fcTL of %d bytes' % len(body))
            s = int.from_bytes(body[0:4], 'big')
            if s != seq:
                raise PngError('fcTL sequence number %d, expected %d' % (s, seq))
            seq += 1
            cur = dict(width=int.from_bytes(body[4:8], 'big'), height=int.from_bytes(body[8:12], 'big'), x=int.from_bytes(body[12:16], 'big'),
                       y=int.from_bytes(body[16:20], 'big'), delay=(int.from_bytes(body[20:22], 'big'), int.from_bytes(body[22:24], 'big')),
                       dispose=body[24], blend=body[25], data=b'', default=not seen_idat)
            if cur['x'] + cur['width'] > width or cur['y'] + cur['height'] > height or not cur['width'] or not cur['height']:
                raise PngError('fcTL region %dx%d at (%d,%d) does not fit the %dx%d image' % (cur['width'], cur['height'], cur['x'], cur['y'], width, height))
            frames.append(cur)
        elif typ == b'IDAT':
            seen_idat = True
            idat += body
        elif typ == b'fdAT':
            s = int.from_bytes(body[0:4], 'big')
            if s != seq:
                raise PngError('fdAT sequence number %d, expected %d' % (s, seq))
            seq += 1
            if cur is None or cur['default']:
                raise PngError('fdAT without its own fcTL')
            cur['data'] += body[4:]
        elif typ == b'IEND':
            pass
        elif typ[0] & 0x20:
            pass              # ancillary chunk
        else:
            raise PngError('unknown critical chunk %r' % typ)
    if plte is None:
        raise PngError('no PLTE chunk')
    if not idat:
        raise PngError('no IDAT chunk')
    def rgba(rows):
        out = []
        for r in rows:
            line = []
            for v in r:
                if v >= len(plte):
                    raise PngError('pixel value %d beyond the %d-entry palette' % (v, len(plte)))
                a = trns[v] if trns is not None and v < len(trns) else 255
                line.append(plte[v] + (a,))
            out.append(line)
        return out
    try:
        base = rgba(_unfilter(zlib.decompress(idat), width, height, depth))
    except zlib.error as e:
        raise PngError('IDAT stream: %s' % e)
    result = {'width': width, 'height': height, 'depth': depth, 'palette': plte, 'trns': trns, 'animated': actl is not None, 'frames': []}
    if actl is None:
        if frames:
            raise PngError('fcTL without acTL')
        result['frames'].append(dict(x=0, y=0, width=width, height=height, pixels=base, delay=None))
        return result
    if actl[0] != len(frames):
        raise PngError('acTL announces %d frames, %d fcTL chunks present' % (actl[0], len(frames)))
    for k, f in enumerate(frames):
        if f['default']:
            if k != 0 or (f['x'], f['y'], f['width'], f['height']) != (0, 0, width, height):
                raise PngError('the fcTL of the default image must be first and cover the whole image')
            px = base
        else:
            try:
                px = rgba(_unfilter(zlib.decompress(f['data']), f['width'], f['height'], depth))
            except zlib.error as e:
                raise PngError('fdAT stream of frame %d: %s' % (k, e))
        result['frames'].append(dict(x=f['x'], y=f['y'], width=f['width'], height=f['height'], pixels=px, delay=f['delay']))
    return result

# ---------------------------------------------------------------------------------------------------- display reference model
TRANS = 'T'

def cell_colours(attr):
    """Palette indices (1..15) of (ink, paper) for an attribute byte: colours 0-7 at normal or bright intensity; bright black is black."""
    ink, paper = attr & 7, (attr >> 3) & 7
    if attr & 64:
        ink = 1 if ink == 0 else 8 + ink
        paper = 1 if paper == 0 else 8 + paper
    else:
        ink, paper = ink + 1, paper + 1
    return ink, paper

def tile_pixel(data, mask, mtype, row, col):
    """'I' ink, 'P' paper or 'T' transparent for one pixel of a tile (manual: Masks)."""
    u = (data[row] >> (7 - col)) & 1
    if mtype == 0:
        return 'I' if u else 'P'
    m = ((mask[row] if mask else data[row]) >> (7 - col)) & 1
    if mtype == 1:          # OR-AND
        return ('I' if m else 'P') if u else ('T' if m else 'P')
    return 'I' if u else ('T' if m else 'P')      # AND-OR

def render(tiles, scale, mtype, x, y, width, height, swap_flash=False):
    """tiles: rows of (attr, data[8], mask[8] or None).  -> rows of palette indices or TRANS for the cropped, scaled image."""
    out = []
    for py in range(y, y + height):
        line = []
        sy = py // scale
        for px in range(x, x + width):
            sx = px // scale
            attr, data, mask = tiles[sy // 8][sx // 8]
            ink, paper = cell_colours(attr)
            if swap_flash and attr & 128:
                ink, paper = paper, ink
            k = tile_pixel(data, mask, mtype, sy % 8, sx % 8)
            line.append(ink if k == 'I' else paper if k == 'P' else TRANS)
        out.append(line)
    return out

def flip_tiles(tiles, flip):
    def fl(t, f):
        attr, data, mask = t
        def one(b):
            if f & 1:
                b = [int('{:08b}'.format(v)[::-1], 2) for v in b]
            if f & 2:
                b = b[::-1]
            return b
        return (attr, one(list(data)), one(list(mask)) if mask else None)
    rows = [[fl(t, flip) for t in r] for r in tiles]
    if flip & 1:
        rows = [r[::-1] for r in rows]
    if flip & 2:
        rows = rows[::-1]
    return rows

def rotate_tiles(tiles, rotate):
    """rotate x 90 degrees clockwise"""
    def rot(t):
        attr, data, mask = t
        def one(b):
            # new[row r][col c] = old[row 7-c][col r]
            out = []
            for r in range(8):
                v = 0
                for c in range(8):
                    v = (v << 1) | ((b[7 - c] >> (7 - r)) & 1)
                out.append(v)
            return out
        return (attr, one(list(data)), one(list(mask)) if mask else None)
    for _ in range(rotate & 3):
        h, w = len(tiles), len(tiles[0])
        tiles = [[rot(tiles[h - 1 - r][c]) for r in range(h)] for c in range(w)]
    return tiles
