"""C04 - skool2asm / skool2bin / #PEEK agree (mode tables only)."""
import ast
from sa.core import pyfacts, report
from sa.core.pyfacts import Lit, NotLiteral, FactError, ModuleFold

EXPLANATION = (
    "Decides only the mode-selection clauses: the substitution/fix weight tables of skoolparser.Mode (used by skool2asm, skool2html and the "
    "macro-visible snapshot) and skool2bin.BinWriter fold to the same function of (asm_mode, fix_mode) on 0..3 x 0..3; the mode normalisation "
    "blocks of skool2asm.main and BinWriter.__init__ fold to the same map on their common domain; both parsers recognise the same set of "
    "@*sub/@*fix directive prefixes and skip a directive under the same weight test; the numeric-literal patterns used when converting "
    "operand bases accept both digit cases (shared with C02). Declined: label substitution, base conversion of arbitrary operands, the "
    "assembled images themselves - behaviour of text-processing code over unbounded inputs.")

def weights_of(repo, modname, fn):
    for n in ast.walk(fn):
        if isinstance(n, ast.Assign) and isinstance(n.targets[0], ast.Attribute) and n.targets[0].attr == 'weights' and isinstance(n.value, ast.Dict):
            return n.value
    raise FactError('skoolkit/%s.py: weights table not found' % modname)

def add_instructions_rule(ctx, repo):
    """C04.4 (*fold*): BinWriter._add_instructions on every combination of 0-2 prepended (`>`), an optional replacing (plain or `|`) and 0-2
    appended (`+` / chained, plain or `|`) instructions of sizes 1-3, at an unmoved and at a relocated address, against the manual's
    semantics (asm.rst, @bfix): prepends go before the instruction, whose new address is recorded in the address map; the first other
    directive replaces it unless it carries `+`; the rest follow it; an instruction marked `|` removes exactly the original instructions
    whose *skool* addresses it overlaps - counted from the current instruction's own skool address, wherever prepends have pushed it."""
    import itertools
    from sa.core.classfold import ClassFolder, Inst
    ctx.rule('C04.4-add-instructions', 'BinWriter._add_instructions (folded) == manual semantics of >, |, + and chained @*sub/@*fix directives: addresses, removed skool addresses, address map (all combinations of 0-2 prepends, replacement, 0-2 appends; sizes 1-3; relocated or not)', floor=150)
    cf = ClassFolder(repo, 'skool2bin')
    SIZES = {'NOP': 1, 'XOR A': 1, 'LD A,1': 2, 'LD BC,0': 3}
    class Asm:
        _sa_fold_ok = True
        _sa_model = True
        def get_size(self, op, addr):
            return SIZES[op]
    where = 'skoolkit/skool2bin.py (BinWriter._add_instructions)'
    ops = ['NOP', 'LD A,1', 'LD BC,0']
    n = 0
    reported = 0
    for shift in (0, 7):
        for pre in ([], ['NOP'], ['LD A,1', 'NOP'], ['LD BC,0']):
            for rep in (None, ('', 'LD A,1'), ('|', 'LD BC,0'), ('|', 'NOP'), ('', 'LD BC,0')):
                for app in ([], [('+', 'NOP')], [('', 'LD A,1')], [('|', 'LD A,1')], [('+', 'NOP'), ('|', 'LD BC,0')], [('', 'NOP'), ('', 'LD A,1')]):
                    if rep is None and app and app[0][0] != '+' and '+' not in app[0][0]:
                        # with no replacement the first non-prepend directive *is* the replacement; covered by the rep cases
                        continue
                    original = 'XOR A'
                    skool, address = 40000, 40000 + shift
                    directives = ['>' + p for p in pre]
                    if rep is not None:
                        directives.append(rep[0] + rep[1])
                    for k, (m, o) in enumerate(app):
                        mk = m
                        if rep is None and k == 0 and '+' not in mk:
                            mk = '+' + mk
                        directives.append(mk + o)
                    # reference
                    real = address
                    want_ins = []
                    for p in pre:
                        want_ins.append((None, real, p, '>'))
                        real += SIZES[p]
                    base = real
                    want_removed = set()
                    seq = []
                    rest = list(app)
                    if rep is not None:
                        seq.append((rep[1], '|' in rep[0], True))
                    else:
                        seq.append((original, False, True))
                    for m, o in rest:
                        seq.append((o, '|' in m, False))
                    for o, ow, main in seq:
                        if ow:
                            want_removed |= set(range(skool + (real - base), skool + (real - base) + SIZES[o]))
                        want_ins.append((skool if main else None, real, o, '|' if ow else (' ' if main else '+')))
                        real += SIZES[o]
                    bw = Inst('skool2bin', 'BinWriter', cf)
                    bw.assembler = Asm(); bw.instructions = []; bw.start = -1; bw.end = 65537
                    bw.keep = None; bw.nowarn = None; bw.data = None; bw.bvalues = None; bw.address_map = {}
                    removed = set()
                    name = 'directives %s on `%05d XOR A` assembled at %d' % (directives, skool, address)
                    try:
                        ret = cf.call(bw, '_add_instructions', address, skool, list(directives), original, removed)
                    except NotLiteral as e:
                        ctx.limit('_add_instructions', 'not foldable: %s' % e)
                        return
                    except (KeyError, IndexError, ValueError, TypeError, AttributeError) as e:
                        ctx.violation('_add_instructions', where, '%s: fails with %s: %s' % (name, type(e).__name__, e))
                        continue
                    got_ins = [(i.address, i.real_address, i.operation, i.marker) for i in bw.instructions]
                    problems = []
                    if ret != real:
                        problems.append('next address %s, expected %d' % (ret, real))
                    if removed != want_removed:
                        problems.append('removes skool addresses %s, expected %s' % (sorted(removed), sorted(want_removed)))
                    if got_ins != want_ins:
                        problems.append('lays down %s, expected %s' % (got_ins, want_ins))
                    if bw.address_map.get(skool) != str(base):
                        problems.append('address map sends %d to %s, expected %d' % (skool, bw.address_map.get(skool), base))
                    n += 1
                    if problems:
                        reported += 1
                        if reported <= 4:
                            ctx.violation('_add_instructions', where, '%s: %s' % (name, '; '.join(problems[:2])))
                    else:
                        ctx.ok({'case': name} if n % 40 == 1 else None)
    if reported > 4:
        ctx.note('C04.4: %d further directive combinations fail' % (reported - 4))

def run(ctx):
    repo = pyfacts.Repo(ctx.repo_root)
    sp = repo.mod('skoolparser'); sb = repo.mod('skool2bin'); sa_ = repo.mod('skool2asm')
    ctx.rule('C04.1-weights', 'weights tables of skoolparser.Mode and skool2bin.BinWriter are the same function of (asm_mode, fix_mode)', floor=16)
    w1 = weights_of(repo, 'skoolparser', sp.method('Mode', '__init__'))
    w2 = weights_of(repo, 'skool2bin', sb.method('BinWriter', '__init__'))
    for a in range(4):
        for f in range(4):
            env = {'asm_mode': a, 'fix_mode': f}
            t1 = Lit(repo, 'skoolparser', env).ev(w1)
            t2 = Lit(repo, 'skool2bin', env).ev(w2)
            if t1 != t2:
                ctx.violation('weights asm=%d fix=%d' % (a, f), 'skoolkit/skool2bin.py:%d' % w2.lineno, 'for asm_mode=%d fix_mode=%d skool2asm weights %s but skool2bin weights %s' % (a, f, t1, t2))
            else:
                ctx.ok({'asm_mode': a, 'fix_mode': f, 'weights': {k: list(v) for k, v in t1.items()}})
    ctx.rule('C04.2-normalisation', 'mode normalisation (rfix implies rsub, rsub implies ofix) is the same map in skool2asm.main and BinWriter.__init__', floor=12)
    main = sa_.func('main')
    blk1 = [n for n in main.body if isinstance(n, ast.If) and 'fix_mode' in ast.unparse(n.test)]
    init = sb.method('BinWriter', '__init__')
    blk2 = [n for n in init.body if isinstance(n, ast.If) and 'fix_mode' in ast.unparse(n.test)]
    if len(blk1) != 1 or len(blk2) != 1:
        raise FactError('mode normalisation blocks not found (skool2asm %d, skool2bin %d)' % (len(blk1), len(blk2)))
    class NS(ast.NodeTransformer):
        def visit_Attribute(self, node):
            if isinstance(node.value, ast.Name) and node.value.id == 'namespace':
                return ast.copy_location(ast.Name(id=node.attr, ctx=node.ctx), node)
            return node
    b1 = NS().visit(ast.parse(ast.unparse(blk1[0])).body[0])
    ast.fix_missing_locations(b1)
    for a in range(1, 4):
        for f in range(4):
            m1 = ModuleFold(repo, 'skool2asm', {'asm_mode': a, 'fix_mode': f}); m1.exec([b1])
            m2 = ModuleFold(repo, 'skool2bin', {'asm_mode': a, 'fix_mode': f}); m2.exec([blk2[0]])
            r1 = (m1.env['asm_mode'], m1.env['fix_mode']); r2 = (m2.env['asm_mode'], m2.env['fix_mode'])
            if r1 != r2:
                ctx.violation('normalise asm=%d fix=%d' % (a, f), 'skoolkit/skool2bin.py:%d' % blk2[0].lineno, 'options asm_mode=%d fix_mode=%d become %s in skool2asm but %s in skool2bin' % (a, f, r1, r2))
            else:
                ctx.ok({'in': [a, f], 'out': list(r1)})
    ctx.rule('C04.3-directives', 'both parsers recognise the same @*sub/@*fix prefixes and apply the same weight test', floor=2)
    def prefixes(fn):
        out = []
        for n in ast.walk(fn):
            if isinstance(n, ast.Call) and isinstance(n.func, ast.Attribute) and n.func.attr == 'startswith' and n.args and isinstance(n.args[0], ast.Tuple):
                vals = [e.value for e in n.args[0].elts if isinstance(e, ast.Constant)]
                if 'isub=' in vals:
                    out.append(tuple(sorted(vals)))
        return out
    p1 = prefixes(sp.cls('SkoolParser')); p2 = prefixes(sb.cls('BinWriter'))
    if not p1 or not p2:
        raise FactError('sub/fix directive prefix tuples not found')
    if set(p1) != set(p2):
        ctx.violation('directive prefixes', 'skoolkit/skool2bin.py', 'skool2asm recognises %s, skool2bin %s' % (p1, p2))
    else:
        ctx.ok({'prefixes': list(p1[0])})
    def weight_tests(node):
        return sorted({ast.unparse(n.test).replace('self.mode.', 'self.').replace('directive[:4]', 'D').replace('directive', 'D') for n in ast.walk(node)
                       if isinstance(n, ast.If) and isinstance(n.test, ast.Compare) and 'weight' in ast.unparse(n.test) and '(0, 0)' in ast.unparse(n.test)})
    t1 = weight_tests(sp.tree); t2 = weight_tests(sb.tree)
    ops1 = {ast.unparse(n.test.ops[0]) if False else type(n.test.ops[0]).__name__ for n in ast.walk(sp.tree) if isinstance(n, ast.If) and isinstance(n.test, ast.Compare) and '(0, 0)' in ast.unparse(n.test) and 'weight' in ast.unparse(n.test)}
    ops2 = {type(n.test.ops[0]).__name__ for n in ast.walk(sb.tree) if isinstance(n, ast.If) and isinstance(n.test, ast.Compare) and '(0, 0)' in ast.unparse(n.test) and 'weight' in ast.unparse(n.test)}
    if ops1 != ops2 or not ops1:
        ctx.violation('weight test', 'skoolkit/skool2bin.py', 'a directive is applied when weight %s (0, 0) in skool2asm but %s in skool2bin' % (sorted(ops1), sorted(ops2)))
    else:
        ctx.ok({'weight test': sorted(ops1)})
    # shared literal-pattern rule (hex digits in either case survive base conversion)
    from sa.rules.C02 import number_syntax
    number_syntax(ctx, repo)
    add_instructions_rule(ctx, repo)
    from sa.rules import C04pipe
    C04pipe.run(ctx, repo)
    from sa.rules import memo
    memo.run_for(ctx, repo, 'C04')
    return report.finish(ctx, EXPLANATION)
