"""C07.6 - operand decoding agrees: the operand text the skool-file disassembler and the trace disassembler produce for
every instruction is compared over all values of each operand byte, by folding both decoders (finite domain)."""
import ast
from sa.core import pyfacts, tabfacts
from sa.core.pyfacts import FuncFold, Lit, NotLiteral, FactError

class DisFolder:
    def __init__(self, repo, dis, tables):
        self.repo, self.dis, self.tables = repo, dis, tables
        self.mem = None

    def hook(self):
        def f(n, lit):
            if isinstance(n, ast.Attribute) and isinstance(n.value, ast.Name) and n.value.id == 'self':
                if n.attr == 'snapshot':
                    return self.mem
                if n.attr in self.tables:
                    return self.tables[n.attr]
                if n.attr in self.dis.methods:
                    return ('m', n.attr)
                return None
            if isinstance(n, ast.Call):
                fn = n.func
                if isinstance(fn, ast.Attribute) and ast.unparse(fn.value) == 'self.op_formatter':
                    v = lit.ev(n.args[0])
                    return str(v)                      # decimal rendering of the operand value
                if isinstance(fn, ast.Attribute) and isinstance(fn.value, ast.Name) and fn.value.id == 'self' and fn.attr == '_defb':
                    return ('DEFB', lit.ev(n.args[1]))
                target = None
                if isinstance(fn, ast.Name):
                    try:
                        target = lit.ev(fn)
                    except NotLiteral:
                        target = None
                elif isinstance(fn, ast.Attribute) and isinstance(fn.value, ast.Name) and fn.value.id == 'self' and fn.attr in self.dis.methods:
                    target = ('m', fn.attr)
                if isinstance(target, tuple) and len(target) == 2 and target[0] == 'm':
                    return self.call(target[1], [lit.ev(a) for a in n.args])
            return None
        f.wants_lit = True
        return f

    def call(self, name, args):
        fn = self.dis.methods[name]
        params = [a.arg for a in fn.args.args][1:]
        ff = FuncFold(self.repo, 'disassembler', {}, self.hook())
        return ff.call(fn, dict(zip(params, args)))

    def decode(self, mem, address):
        self.mem = mem
        dec, tmpl = self.tables['ops'][mem[address]]
        if tmpl == '':
            r = self.call(dec[1], [address, 'n'])
        else:
            r = self.call(dec[1], [tmpl, address, 'n'])
        return r

class TraceFolder:
    def __init__(self, repo, tr):
        self.repo, self.tr = repo, tr
        self.mod = tr.mod
        self.mem = None

    def hook(self):
        def f(n, lit):
            if isinstance(n, ast.Name) and n.id in self.mod.funcs:
                return ('f', n.id)
            if isinstance(n, ast.Call) and isinstance(n.func, ast.Name):
                try:
                    target = lit.ev(n.func)
                except NotLiteral:
                    return None
                if isinstance(target, tuple) and len(target) == 2 and target[0] == 'f':
                    return self.call(target[1], [lit.ev(a) for a in n.args])
            return None
        f.wants_lit = True
        return f

    def call(self, name, args):
        fn = self.mod.funcs[name]
        params = [a.arg for a in fn.args.args]
        defaults = fn.args.defaults
        env = dict(zip(params, args))
        for p, d in zip(params[len(params) - len(defaults):], defaults):
            if p not in env:
                env[p] = Lit(self.repo, 'traceutils').ev(d)
        ff = FuncFold(self.repo, 'traceutils', {}, self.hook())
        return ff.call(fn, env)

    def decode(self, mem, address):
        return self.call('disassemble', [mem, address, '', 'd', 'd'])

def operand_layout(length, kind):
    """operand byte offsets (relative to the first byte) to vary"""
    return list(range(1, length))

def run(ctx, repo, dis, tr):
    ctx.rule('C07.6-operands', 'operand text of the two disassemblers agrees for every value of every operand byte (both decoders folded)', floor=600)
    allopts = tuple(dis.all_options)
    tables = dis.tables(allopts)
    full = dis.decode_all(allopts)
    df = DisFolder(repo, dis, tables)
    tf = TraceFolder(repo, tr)
    PFX = {'ops': [], 'after_CB': [0xCB], 'after_ED': [0xED], 'after_DD': [0xDD], 'after_FD': [0xFD], 'after_DDCB': [0xDD, 0xCB, None], 'after_FDCB': [0xFD, 0xCB, None]}
    checked = 0
    seen_kinds = set()
    EDGE = (0, 1, 0x7F, 0x80, 0x81, 0xFE, 0xFF, 0x3C)
    for fam, pre in PFX.items():
        for b in range(256):
            d = full[(fam, b)]
            if d['kind'] != 'op':
                continue
            seq = [x for x in pre]
            if fam in ('after_DDCB', 'after_FDCB'):
                seq = pre[:2] + [None, b]
                var = [2]
            else:
                seq = pre + [b]
                var = list(range(len(seq), d['length']))
                seq += [None] * (d['length'] - len(seq))
            if not var:
                continue
            name = ''.join('%02X' % x if x is not None else '..' for x in seq)
            addrs = [0x8000]
            if d['decoder'] == 'jr_arg':
                addrs += [0x0010, 0xFF00]
            kind = (fam, d['decoder'], tr.entry(fam, b)['func'])
            exhaustive = ctx.tier == 'thorough' or kind not in seen_kinds
            seen_kinds.add(kind)
            values = range(256) if exhaustive else EDGE
            bad = None
            try:
                for address in addrs:
                    for vi in var:
                        others = [0x12, 0xFE] if len(var) > 1 else [0]
                        for other in others:
                            for v in values:
                                mem = [0] * 65536
                                for i, x in enumerate(seq):
                                    mem[(address + i) & 65535] = x if x is not None else other
                                mem[(address + vi) & 65535] = v
                                a = df.decode(mem, address)
                                t = tf.decode(mem, address)
                                if isinstance(a, tuple) and a and (a[0] == 'DEFB' or (isinstance(a[0], tuple) and a[0] and a[0][0] == 'DEFB')):
                                    continue      # the skool-file disassembler declines (e.g. jump target outside 0..65535)
                                atext, alen = a[0], a[1]
                                if (atext, alen) != (t[0], t[1]):
                                    bad = (address, vi, v, atext, alen, t)
                                    raise StopIteration
            except StopIteration:
                pass
            except NotLiteral as e:
                ctx.limit(name, 'decoder not foldable: %s' % e)
                continue
            checked += 1
            if bad:
                ctx.violation(name, 'skoolkit/traceutils.py:%d' % tr.lines.get((fam, b), 0),
                              'operand decoding of %s differs when byte +%d = 0x%02X at address 0x%04X: disassembler %r (length %d), traceutils %r (length %s)' %
                              (name, bad[1], bad[2], bad[0], bad[3], bad[4], bad[5][0], bad[5][1]))
            else:
                ctx.ok({'seq': name, 'operand bytes': len(var), 'values per byte': len(values)})
    return checked

def boundary_rule(ctx, repo, dis):
    """C07.7 - at the top of memory the control-file decoder truncates an instruction exactly when the skool-file disassembler does."""
    ctx.rule('C07.7-boundary', 'opcodes.py and disassembler.py agree on instruction size at addresses 65530..65535 (no wrap): full size iff address + size <= 65536', floor=1700)
    from sa.core.pyfacts import ModFolder
    from sa.core import tabfacts
    oc = tabfacts.OpcodeTables(repo)
    full = dis.decode_all(())
    PFX = {'ops': [], 'after_CB': [0xCB], 'after_ED': [0xED], 'after_DD': [0xDD], 'after_FD': [0xFD], 'after_DDCB': [0xDD, 0xCB, 0], 'after_FDCB': [0xFD, 0xCB, 0]}
    disfn = dis.methods['disassemble']
    src = ast.unparse(disfn)
    if 'if address + length <= 65536:' not in src or 'self._defb_line(address, self.snapshot[address:65536])' not in src:
        raise FactError('skoolkit/disassembler.py: boundary handling in Disassembler.disassemble not recognised')
    for fam, pre in PFX.items():
        for b in range(256):
            d = full[(fam, b)]
            if d['kind'] == 'prefix':
                continue
            seq = pre + [b]
            length = d['length']
            name = ''.join('%02X' % x for x in seq)
            bad = None
            for address in range(65530, 65536):
                # (when the opcode bytes themselves are cut off by the top of memory, only those below 65536 exist: the disassembler then
                # writes the remaining bytes as data, and so must opcodes.py)
                want = length if address + length <= 65536 else 65536 - address
                try:
                    got = oc.size(fam, b, address)
                except NotLiteral as e2:
                    ctx.limit(name, 'opcodes.py decoder not foldable: %s' % e2)
                    bad = 'limit'
                    break
                except (IndexError, KeyError) as e2:
                    bad = (address, '%s: %s' % (type(e2).__name__, e2), want)
                    break
                if got != want:
                    bad = (address, got, want)
                    break
            if bad == 'limit':
                continue
            if bad:
                ctx.violation(name, 'skoolkit/opcodes.py', '%s at address %d: opcodes.py decodes %s byte(s) [or fails], the disassembler %d (instruction length %d)' % (name, bad[0], bad[1], bad[2], length))
            else:
                ctx.ok({'seq': name, 'addresses': '65530..65535'})
