"""C16.7-r-links (*fold*): HtmlWriter.expand_r folded (through skoolmacro.expand_macros, so the RAW wrapper of the anchor is resolved the
way the real writer resolves it) on #R macros of every form - decimal and $hex addresses, entry starts and addresses inside an entry,
other-code ids, explicit anchors (decimal, $hex, textual), link text - under several AddressAnchor / CodeFiles templates, one-page and
multi-page layouts and several current directories, with model parser objects that hold the instructions.

Oracle (written down from the property and the manual, not computed from the code): the file part of the href is the relative path from
the current directory to the page that holds the target (CodePath/<CodeFiles formatted with the entry address>, or the single page of
that disassembly), and the fragment - when the link has one that stands for an address - is the AddressAnchor template formatted with
that address, which is the id the entry page gives the instruction (skoolhtml._get_asm_entry / _get_entry_dict: C16.3 decides that they
go through the same template)."""
import ast, posixpath, html as _html
from sa.core.pyfacts import NotLiteral, FactError
from sa.core.classfold import ClassFolder, Inst

class Holder:
    _sa_fold_ok = True
    _sa_model = True

class Instr(Holder):
    def get_addr_str(self):
        return self.addr_str

class Mode(Holder):
    def get_addr_str(self, address, default):
        return default

class Parser(Holder):
    def __init__(self, table, remote):
        self.table, self.remote = table, remote
        self.mode = Mode()
    def get_instruction(self, address, asm_id=''):
        if asm_id:
            return self.remote.get((asm_id.lower(), address))
        return self.table.get(address)
    def get_container(self, address, code_id):
        i = self.get_instruction(address, code_id)
        return i.container if i else None
    def get_asm_label(self, address):
        i = self.get_instruction(address)
        return i.asm_label if i else None
    def get_instruction_addr_str(self, address, default, asm_id=''):
        i = self.get_instruction(address, asm_id)
        return i.get_addr_str() if i else default
    def get_entry(self, address):
        i = self.table.get(address)
        return i.container if i and i.container.address == address else None

class Formatter(Holder):
    def format_template(self, page_id, name, fields):
        if name != 'link':
            raise NotLiteral('template %s' % name)
        return '<a href="%s">%s</a>' % (fields['href'], fields['link_text'])

def _hook(n, lit):
    if isinstance(n, ast.Call) and isinstance(n.func, ast.Attribute) and isinstance(n.func.value, ast.Name):
        m, a = n.func.value.id, n.func.attr
        if m == 'posixpath' and m not in lit.env and a in ('relpath', 'normpath', 'join', 'dirname', 'basename'):
            return getattr(posixpath, a)(*lit._seq(n.args))
        if m == 'html' and a in ('escape', 'unescape') and 'html' not in lit.env:
            return getattr(_html, a)(*lit._seq(n.args))
    return None

MAIN = {32768: (32768, 32770, 32773), 32784: (32784, 32785), 65520: (65520, 65535), 40000: (40000, 40001)}
IGNORED = (40000,)          # an `i` block: HtmlWriter writes no page for it (memory_map leaves it out)
LOAD = {24576: (24576, 24579)}
PATHS = {'CodePath': 'asm', 'load-CodePath': 'load', 'AsmSinglePage': 'asm.html', 'load-AsmSinglePage': 'load/load.html'}

def make_writer(cf, anchor_t, fname_t, single):
    w = Inst('skoolhtml', 'HtmlWriter', cf)
    w.fields = {'asm': 0, 'base': 0, 'case': 0, 'fix': 0, 'html': 1, 'vars': {}}
    w.fields['mode'] = dict(w.fields)
    w.case = w.base = 0
    table, remote = {}, {}
    for src, dst, key in ((MAIN, table, None), (LOAD, remote, 'load')):
        for e, addrs in src.items():
            ent = Holder()
            ent.address = e
            ent.asm_id = key or ''
            ent.ctl = 'i' if e in IGNORED else 'c'
            for a in addrs:
                i = Instr()
                i.address, i.container, i.asm_label, i.addr_str = a, ent, None, str(a)
                dst[(key, a) if key else a] = i
    w.parser = Parser(table, remote)
    w.asm_single_page = single
    w.asm_anchor_template = anchor_t
    w.asm_fname_template = fname_t
    w.asm_address_template = ''
    w.code_id = 'main'
    w.other_code = [('load', {'CodePathId': 'load-CodePath'})]
    w.paths = dict(PATHS)
    w.snapshot = [0] * 65536
    w.get_reg = lambda r: r
    w.template_subs = {}
    w.skoolkit = {'page_id': 'Asm-c'}
    w.formatter = Formatter()
    w.macros = cf.call_func('skoolmacro', 'get_macros', [w])
    if '#R' not in w.macros:
        raise FactError('get_macros does not register HtmlWriter.expand_r')
    return w

def ignored_rule(ctx, cf, where):
    """#R naming an address inside an `i` block: whatever expand_r does, it must not hand out a link to the page of that entry - none
    is written."""
    for text, a in (('#R40000', 40000), ('#R40001(x)', 40001)):
        w = make_writer(cf, '{address}', '{address}.html', False)
        try:
            got = cf.call_func('skoolmacro', 'expand_macros', [w, text, 'asm'])
        except NotLiteral as e:
            ctx.limit(text, 'expand_r not foldable on this text: %s' % str(e)[:120])
            continue
        except Exception:
            ctx.ok()            # an error message is a resolution of its own
            continue
        if 'href="40000.html' in got:
            ctx.violation('HtmlWriter.expand_r `%s` into an ignored entry' % text.split('(')[0], where, '%s, where %d lies in an `i` block, expands to %s: no page is written for an `i` block (HtmlWriter.memory_map leaves it out), so the link names a file that does not exist' % (text, a, got[:80]))
        else:
            ctx.ok()

# (macro text, address, code id, explicit anchor or None)
def texts():
    out = []
    for a in (32768, 32770, 32773, 32784, 32785, 65520, 65535):
        for s in (str(a), '$%04X' % a, '$%04x' % a):
            out.append(('#R' + s, a, '', None))
        out.append(('#R%d(text)' % a, a, '', None))
    for e in (32768, 32784, 65520):
        for s in (str(e), '$%04X' % e, '$%04x' % e):
            out.append(('#R%d#%s' % (e, s), e, '', s))
            out.append(('#R$%04X#%s(x)' % (e, s), e, '', s))
        out.append(('#R%d#foo' % MAIN[e][1], MAIN[e][1], '', 'foo'))
    for a in (24576, 24579):
        for s in (str(a), '$%04X' % a):
            out.append(('#R%s@load' % s, a, 'load', None))
            out.append(('#R%s@LOAD(t)' % s, a, 'load', None))
    out.append(('#R24576@load#24576', 24576, 'load', '24576'))
    out.append(('#R$6000@load#$6000', 24576, 'load', '$6000'))
    out.append(('#R24579@load#bar', 24579, 'load', 'bar'))
    return out

def _num(s):
    try:
        return int(s[1:], 16) if s.startswith('$') else int(s)
    except ValueError:
        return None

def expected(text, a, code_id, anchor, anchor_t, fname_t, single, cwd):
    src = LOAD if code_id else MAIN
    e = [k for k, v in src.items() if a in v][0]
    if single:
        page = PATHS['load-AsmSinglePage' if code_id else 'AsmSinglePage']
        return posixpath.relpath(page, cwd) + '#' + anchor_t.format(address=a)
    page = posixpath.join(PATHS['load-CodePath' if code_id else 'CodePath'], fname_t.format(address=e))
    href = posixpath.relpath(page, cwd)
    if anchor is not None:
        return href + '#' + (anchor_t.format(address=e) if _num(anchor) == e else anchor)
    if a != e:
        return href + '#' + anchor_t.format(address=a)
    return href

def run(ctx, repo, quick=True):
    confs = [('{address}', '{address}.html'), ('{address:04x}', '{address}.html'), ('a{address:04X}', '{address:04x}.html'), ('{address:04X}', '{address:04X}.html')]
    cwds = ['asm', 'load', '.', 'reference/x']
    tx = texts()
    n = len(tx) * len(confs) * 2 * len(cwds)
    ctx.rule('C16.7-r-links', 'HtmlWriter.expand_r folded on %d #R forms x %d AddressAnchor/CodeFiles templates x {multi-page, single-page} x %d current directories (%d links): the href names the page of the target entry relative to the current directory and its fragment is the id that page gives the address' % (len(tx), len(confs), len(cwds), n), floor=n - 40)
    where = 'skoolkit/skoolhtml.py'
    cf = ClassFolder(repo, 'skoolhtml', _hook)
    reported = set()
    for anchor_t, fname_t in confs:
        for single in (False, True):
            try:
                w = make_writer(cf, anchor_t, fname_t, single)
            except (NotLiteral, FactError) as e:
                ctx.limit('writer', 'HtmlWriter model not constructible: %s' % str(e)[:120])
                continue
            for cwd in cwds:
                for text, a, code_id, anchor in tx:
                    want = expected(text, a, code_id, anchor, anchor_t, fname_t, single, cwd)
                    try:
                        got = cf.call_func('skoolmacro', 'expand_macros', [w, text, cwd])
                    except NotLiteral as e:
                        ctx.limit(text, 'expand_r not foldable on this text: %s' % str(e)[:120])
                        continue
                    except Exception as e:
                        got = '%s: %s' % (type(e).__name__, str(e)[:100])
                    ok = got.startswith('<a href="%s">' % want)
                    if ok:
                        ctx.ok({'text': text, 'AddressAnchor': anchor_t, 'cwd': cwd, 'href': want})
                        continue
                    key = (text.split('(')[0], single)
                    if key in reported:
                        continue
                    reported.add(key)
                    ctx.violation('HtmlWriter.expand_r `%s` (%s)' % (text.split('(')[0], 'single page' if single else 'multi-page'), where,
                                  '%s with AddressAnchor=%s CodeFiles=%s AsmSinglePage=%d cwd=%s expands to %s; the target is href="%s" (file of the entry; fragment = AddressAnchor formatted with the address, the id the page carries)' % (text, anchor_t, fname_t, single, cwd, got[:90], want))

# ---------------------------------------------------------------------------------------------------------------------------------
# C16.8-operand-links (*fold*): HtmlWriter._get_asm_entry folded on a model memory map.  Both sides come out of the fold: the ids
# (the `anchor` field of every instruction dictionary, which Template:asm turns into id="...") and the operand hyperlinks (the <a> the
# function substitutes into `operation`).  Every link must name the page of the entry that owns the target and a fragment that is one
# of the ids produced for that entry; the ids themselves must be AddressAnchor formatted with the instruction's address.
import re as _re

class Ref(Holder):
    pass

def make_map(label_at=None):
    """Three main entries and one other-code entry; instructions refer to entry starts, inner addresses and each other."""
    ents = {}
    def entry(addr, ctl, asm_id, insts):
        e = Holder()
        e.address, e.ctl, e.addr_str, e.asm_id = addr, ctl, str(addr), asm_id
        e.details, e.description, e.registers, e.end_comment = [], 'Title', [], []
        e.instructions = []
        a = addr
        for size, op in insts:
            i = Instr()
            i.address, i.addr_str, i.bytes, i.operation, i.container = a, str(a), [0] * size, op, e
            i.reference, i.mid_block_comment, i.comment, i.ctl = None, None, None, ctl if a == addr else ' '
            i.asm_label = 'L%d' % a if label_at == a else None
            e.instructions.append(i)
            a += size
        e.size = a - addr
        ents[addr] = e
        return e
    entry(32768, 'c', '', [(3, 'CALL 32784'), (3, 'JP 32787'), (2, 'JR 32768'), (2, 'DJNZ 32771'), (3, 'LD HL,49152'), (3, 'CALL 24579'), (1, 'RET')])
    entry(32784, 'c', '', [(3, 'JP 32774'), (3, 'CALL 32768'), (2, 'JR 32784'), (1, 'RET')])
    entry(49152, 'w', '', [(2, 'DEFW 32771'), (2, 'DEFW 32784'), (2, 'DEFW 49152')])
    entry(24576, 'c', '', [(3, 'JP 24579'), (3, 'CALL 32787'), (1, 'RET')])
    for e in ents.values():
        e.home = 'load' if e.address == 24576 else 'main'
    # the stub entry @remote=load:24576,24579 creates in the main disassembly
    stub = entry(-1, 'c', 'load', [])
    del ents[-1]
    stub.address, stub.addr_str, stub.home = 24576, '24576', 'load'
    for a in (24576, 24579):
        i = Instr()
        i.address, i.addr_str, i.bytes, i.operation, i.container = a, str(a), [], '', stub
        i.reference, i.mid_block_comment, i.comment, i.ctl, i.asm_label = None, None, None, ' ', None
        stub.instructions.append(i)
    ents['stub'] = stub
    return ents

def run_ignored(ctx, repo):
    ctx.rule('C16.7-r-links', '')
    ignored_rule(ctx, ClassFolder(repo, 'skoolhtml', _hook), 'skoolkit/skoolhtml.py')

def run_operands(ctx, repo):
    confs = [('{address}', '{address}.html'), ('{address:04x}', '{address}.html'), ('a{address:04X}', '{address:04x}.html')]
    ctx.rule('C16.8-operand-links', 'HtmlWriter._get_asm_entry folded on a model memory map (3 entries + 1 other-code entry, CALL/JP/JR/DJNZ/DEFW/LD operands naming entry starts and inner addresses) x %d AddressAnchor/CodeFiles templates x {multi-page, -1} x LinkInternalOperands 0/1 x with/without a label: each instruction id is AddressAnchor formatted with its address, each operand link names the page of the owning entry and an id produced for it' % len(confs), floor=150)
    where = 'skoolkit/skoolhtml.py'
    cf = ClassFolder(repo, 'skoolhtml', _hook)
    reported = set()
    for anchor_t, fname_t in confs:
        for single in (False, True):
            for lio in (False, True):
                for label_at in (None, 32771):
                    try:
                        w = make_writer(cf, anchor_t, fname_t, single)
                        ents = make_map(label_at)
                        main = [ents[a] for a in (32768, 32784, 49152)]
                        other = [ents[24576]]
                        stub = {i.address: i for i in ents['stub'].instructions}
                        for group, remote in ((main, stub), (other, {})):
                            table = {}
                            for e in group:
                                for i in e.instructions:
                                    table[i.address] = i
                            for e in group:
                                for i in e.instructions:
                                    m = _re.search(r'(\d{5})$', i.operation)
                                    t = m and not i.operation.startswith('LD') and (table.get(int(m.group(1))) or remote.get(int(m.group(1))))
                                    if t:
                                        r = Ref()
                                        r.address, r.entry, r.addr_str, r.use_label = t.address, t.container, m.group(1), True
                                        i.reference = r
                        table = {i.address: i for e in main for i in e.instructions}
                        w.parser = Parser(table, {})
                        w.link_operands = ('CALL', 'DEFW', 'DJNZ', 'JP', 'JR')
                        w.link_internal_operands = lio
                        w.lio_min_distance = 0
                        w.game_vars = {'Length': '{size}', 'Bytes': ''}
                        pages = {}        # page path -> set of ids
                        links = []        # (instruction, cwd page, href)
                        for group, code_id, cwd in ((main, 'main', 'asm'), (other, 'load', 'load')):
                            w.memory_map = group
                            w.code_id = code_id
                            w.asm_entry_dicts = {}
                            for idx, e in enumerate(group):
                                if single:
                                    page = PATHS['AsmSinglePage' if code_id == 'main' else 'load-AsmSinglePage']
                                else:
                                    page = posixpath.join(PATHS['CodePath' if code_id == 'main' else 'load-CodePath'], fname_t.format(address=e.address))
                                cwd = posixpath.dirname(page)       # HtmlWriter._set_cwd
                                d = cf.call(w, '_get_asm_entry', cwd, idx, 'maps/all.html')
                                ids = pages.setdefault(page, set())
                                # the memory-map page gives each entry id="{entry[anchor]}" from the same dictionary builder
                                want_map = posixpath.relpath('maps/all.html', cwd) + '#' + anchor_t.format(address=e.address)
                                want_href = posixpath.relpath(page, cwd) + ('#' + anchor_t.format(address=e.address) if single else '')
                                for fld, want in (('map_href', want_map), ('href', want_href), ('anchor', anchor_t.format(address=e.address))):
                                    if d.get(fld) != want:
                                        key = (fld, single)
                                        if key not in reported:
                                            reported.add(key)
                                            ctx.violation('HtmlWriter._get_asm_entry_dict `%s` (%s)' % (fld, 'single page' if single else 'multi-page'), where, 'entry %d, cwd=%s, AddressAnchor=%s CodeFiles=%s: %s is %r; the target is %r' % (e.address, cwd, anchor_t, fname_t, fld, d.get(fld), want))
                                    else:
                                        ctx.ok()
                                # Template:asm / asm_single_page: id="{$instruction[anchor]}" once per instruction (C16.1)
                                for inst, di in zip(e.instructions, d['instructions']):
                                    want = anchor_t.format(address=inst.address)
                                    if di['anchor'] != want:
                                        key = ('id', single)
                                        if key not in reported:
                                            reported.add(key)
                                            ctx.violation('HtmlWriter._get_asm_entry instruction anchor', where, 'instruction %d gets id %r with AddressAnchor=%s; links to it use %r' % (inst.address, di['anchor'], anchor_t, want))
                                    else:
                                        ctx.ok()
                                    ids.add(di['anchor'])
                                    for m in _re.finditer(r'<a href="([^"]*)">([^<]*)</a>', di['operation']):
                                        links.append((inst, page, m.group(1), m.group(2)))
                                    if inst.reference is not None and (inst.reference.entry is not e or lio or (label_at == inst.reference.address)) and '<a href' not in di['operation']:
                                        key = ('nolink', inst.operation)
                                        if key not in reported:
                                            reported.add(key)
                                            ctx.violation('HtmlWriter._get_asm_entry `%s`' % inst.operation, where, '%d %s (LinkInternalOperands=%d): the operand names an instruction of %s and is not hyperlinked' % (inst.address, inst.operation, lio, 'another entry' if inst.reference.entry is not e else 'this entry'))
                        for inst, page, href, text in links:
                            path, _, frag = href.partition('#')
                            target = posixpath.normpath(posixpath.join(posixpath.dirname(page), path)) if path else page
                            ref = inst.reference
                            if single:
                                want_page = PATHS['AsmSinglePage' if ref.entry.home == 'main' else 'load-AsmSinglePage']
                            else:
                                want_page = posixpath.join(PATHS['CodePath' if ref.entry.home == 'main' else 'load-CodePath'], fname_t.format(address=ref.entry.address))
                            want_id = anchor_t.format(address=ref.address)
                            problem = None
                            if target != want_page:
                                problem = 'names the file %s; %d belongs to the entry at %d, whose page is %s' % (target, ref.address, ref.entry.address, want_page)
                            elif frag and (frag != want_id or frag not in pages.get(target, ())):
                                problem = 'carries the fragment #%s; the instruction at %d has id %s there' % (frag, ref.address, want_id)
                            elif not frag and (single or ref.address != ref.entry.address):
                                problem = 'has no fragment although %d is not at the top of its page' % ref.address
                            if problem:
                                key = (inst.operation, single)
                                if key in reported:
                                    continue
                                reported.add(key)
                                ctx.violation('HtmlWriter._get_asm_entry `%s` (%s)' % (inst.operation, 'single page' if single else 'multi-page'), where,
                                              '%d %s on %s with AddressAnchor=%s CodeFiles=%s LinkInternalOperands=%d: href="%s" %s' % (inst.address, inst.operation, page, anchor_t, fname_t, lio, href, problem))
                            else:
                                ctx.ok({'instruction': '%d %s' % (inst.address, inst.operation), 'page': page, 'href': href})
                    except NotLiteral as e:
                        ctx.limit('%s/%s/%s' % (anchor_t, single, lio), '_get_asm_entry not foldable: %s' % str(e)[:160])

# ---------------------------------------------------------------------------------------------------------------------------------
# C16.9-link-macro (*fold*): HtmlWriter.expand_link on #LINK macros naming memory-map pages (with decimal entry-address anchors, which the
# manual says are converted to the AddressAnchor format - the id the map gives the entry), box pages with textual anchors, and pages
# without anchors.
def run_link(ctx, repo):
    confs = ['{address}', '{address:04x}', 'a{address:04X}']
    cwds = ['asm', 'maps', '.', 'reference/x']
    paths = {'MemoryMap': 'maps/all.html', 'DataMap': 'maps/data.html', 'Facts': 'reference/facts.html', 'Custom': 'x/custom.html'}
    cases = [('#LINK(MemoryMap#32768)(x)', 'MemoryMap', 32768, None), ('#LINK(MemoryMap#32784)()', 'MemoryMap', 32784, None), ('#LINK(DataMap#65520)(d)', 'DataMap', 65520, None),
             ('#LINK(MemoryMap)(m)', 'MemoryMap', None, ''), ('#LINK(Facts#fact1)(f)', 'Facts', None, '#fact1'), ('#LINK(Facts#fact2)()', 'Facts', None, '#fact2'),
             ('#LINK(Custom#32768)(c)', 'Custom', None, '#32768'), ('#LINK(MemoryMap#32770)(x)', 'MemoryMap', None, '#32770'), ('#LINK(Custom)()', 'Custom', None, '')]
    n = len(confs) * len(cwds) * len(cases)
    ctx.rule('C16.9-link-macro', 'HtmlWriter.expand_link folded on %d #LINK forms x %d AddressAnchor templates x %d current directories: the href is the relative path of the page and, on a memory map, an entry-address anchor becomes the id the map gives the entry' % (len(cases), len(confs), len(cwds)), floor=n - 10)
    where = 'skoolkit/skoolhtml.py'
    cf = ClassFolder(repo, 'skoolhtml', _hook)
    reported = set()
    for anchor_t in confs:
        try:
            w = make_writer(cf, anchor_t, '{address}.html', False)
        except (NotLiteral, FactError) as e:
            ctx.limit('writer', 'HtmlWriter model not constructible: %s' % str(e)[:120])
            continue
        w.paths.update(paths)
        w.page_ids = ['Facts', 'Custom']
        w.box_pages = {'Facts': [('fact1', 'Fact one', ['p']), ('fact2', 'Fact two', ['p'])]}
        w.links = {k: (k + ' page', '') for k in paths}
        w.main_memory_maps = ['MemoryMap', 'DataMap']
        for cwd in cwds:
            for text, page, entry, frag in cases:
                want = posixpath.relpath(paths[page], cwd) + ('#' + anchor_t.format(address=entry) if entry is not None else frag)
                try:
                    got = cf.call_func('skoolmacro', 'expand_macros', [w, text, cwd])
                except NotLiteral as e:
                    ctx.limit(text, 'expand_link not foldable on this text: %s' % str(e)[:120])
                    continue
                except Exception as e:
                    got = '%s: %s' % (type(e).__name__, str(e)[:100])
                if got.startswith('<a href="%s">' % want):
                    ctx.ok({'text': text, 'cwd': cwd, 'href': want})
                elif text not in reported:
                    reported.add(text)
                    ctx.violation('HtmlWriter.expand_link `%s`' % text, where, '%s with AddressAnchor=%s cwd=%s expands to %s; the target is href="%s"' % (text, anchor_t, cwd, got[:90], want))
