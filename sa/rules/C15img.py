"""C15.7-pixels / C15.8-transform: the image writer folded on model tile arrays.

skoolkit's own ImageWriter.write_image (image.py, pngwriter.py - all seven specialised encoders and the generic one) is folded by the
checker's evaluator on sampled frames; the bytes it produces are decoded by the independent PNG/APNG decoder of pngref.py (signature, chunk
lengths and CRCs, IHDR/PLTE/tRNS consistency, zlib streams, fcTL/fdAT sequence) and every pixel is compared with the Spectrum display
reference model (ink where the bit is set, paper otherwise, bright from the attribute, transparent where the mask says so, scale, crop,
flash frame with ink and paper exchanged inside the reported rectangle)."""
import ast, random, zlib
from sa.core import pyfacts
from sa.core.pyfacts import NotLiteral, FactError
from sa.core.classfold import ClassFolder, Inst
from sa.rules import pngref

class Sink:
    _sa_fold_ok = True
    def __init__(self):
        self.data = bytearray()
    def write(self, b):
        self.data.extend(b)

def _hook(n, lit):
    if isinstance(n, ast.Call) and isinstance(n.func, ast.Attribute):
        f = n.func
        if isinstance(f.value, ast.Name) and f.value.id == 'zlib' and 'zlib' not in lit.env and f.attr in ('compress', 'compressobj', 'crc32', 'decompress'):
            return getattr(zlib, f.attr)(*[lit.ev(a) for a in n.args])       # standard-library primitive on literal arguments
        if f.attr in ('compress', 'flush'):
            try:
                base = lit.ev(f.value)
            except NotLiteral:
                return None
            if type(base).__name__ == 'Compress':
                return getattr(base, f.attr)(*[bytes(lit.ev(a)) for a in n.args])
    return None

class ImageFolder:
    def __init__(self, repo, config=None):
        self.cfi = ClassFolder(repo, 'image', _hook)
        self.cfg = ClassFolder(repo, 'graphics', _hook)
        self.iw = self.cfi.new('ImageWriter', config)
        self.colours = [tuple(c) for c in self.iw.colours]
        self.alpha_default = self.iw.options['PNGAlpha'] & 255

    def udgs(self, tiles):
        return [[self.cfg.new('Udg', attr, list(data), list(mask) if mask else None) for attr, data, mask in row] for row in tiles]

    def frame(self, tiles, scale=1, mask=0, x=0, y=0, width=None, height=None, tindex=0, alpha=-1, delay=32, x_offset=0, y_offset=0):
        return self.cfg.new('Frame', self.udgs(tiles), scale, mask, x, y, width, height, delay, '', tindex, alpha, x_offset, y_offset)

    def write(self, frames):
        s = Sink()
        self.cfi.call(self.iw, 'write_image', frames, s)
        return bytes(s.data)

def expected_rgba(img, colours, alpha, tindex):
    """Palette indices / TRANS -> RGBA under the manual's transparency rules."""
    has_trans = any(p == pngref.TRANS for row in img for p in row)
    out = []
    for row in img:
        line = []
        for p in row:
            if p == pngref.TRANS:
                line.append(colours[0] + (alpha,))
            elif not has_trans and tindex and p == tindex:
                line.append(colours[tindex] + (alpha,))
            else:
                line.append(colours[p] + (255,))
        out.append(line)
    return out

def first_diff(got, want):
    if len(got) != len(want) or (got and len(got[0]) != len(want[0])):
        return 'size %dx%d, expected %dx%d' % (len(got[0]) if got else 0, len(got), len(want[0]) if want else 0, len(want))
    for y, (a, b) in enumerate(zip(got, want)):
        for x, (p, q) in enumerate(zip(a, b)):
            if p != q:
                return 'pixel (%d,%d) is %s, expected %s' % (x, y, p, q)
    return None

def rand_tiles(rnd, w, h, style, flash_rows=None):
    rows = []
    for r in range(h):
        row = []
        for c in range(w):
            if style == 'mono':
                attr = 0x38
            elif style == 'two':
                attr = rnd.choice((0x38, 0x07))
            elif style == 'flash':
                attr = rnd.choice((0x87, 0xB8, 0x38, 0xC1, 0x80 | rnd.randrange(128)))
                if flash_rows is not None and r not in flash_rows:
                    attr &= 0x7F          # flashing cells only in some tile rows (the flash rectangle then starts below the top)
            else:
                attr = rnd.randrange(256)
            kind = rnd.randrange(6)
            if kind == 0:
                data = [0] * 8
            elif kind == 1:
                data = [255] * 8
            else:
                data = [rnd.randrange(256) for _ in range(8)]
            mask = [rnd.randrange(256) for _ in range(8)] if rnd.random() < 0.6 else None
            row.append((attr, data, mask))
        rows.append(row)
    return rows

def cases(rnd, n):
    out = []
    styles = ('mono', 'two', 'flash', 'any')
    for k in range(n):
        w, h = rnd.choice(((1, 1), (2, 1), (1, 2), (2, 2), (3, 2), (4, 1)))
        style = styles[k % 4]
        scale = rnd.choice((1, 1, 2, 3, 4))
        mtype = rnd.choice((0, 0, 1, 2))
        flash_rows = None
        if style == 'flash' and rnd.random() < 0.6:
            w, h = rnd.choice(((1, 2), (2, 2), (2, 3), (1, 3), (3, 2)))
            scale = rnd.choice((2, 3, 4, 1))
            flash_rows = set(rnd.sample(range(1, h), rnd.randrange(1, h)))
        tiles = rand_tiles(rnd, w, h, style, flash_rows)
        if mtype == 0 or rnd.random() < 0.3:
            tiles = [[(a, d, None) for a, d, m in row] for row in tiles]
        fw, fh = 8 * w * scale, 8 * h * scale
        crop = rnd.randrange(4) if flash_rows is None else rnd.choice((0, 0, 1, 2, 3))
        if crop == 0:
            x = y = 0
            cw, ch = None, None
        elif crop == 1:
            x, y = rnd.randrange(fw), rnd.randrange(fh)
            cw, ch = rnd.randrange(1, fw - x + 1), rnd.randrange(1, fh - y + 1)
        elif crop == 2:
            x, y = 8 * scale * rnd.randrange(w), 8 * scale * rnd.randrange(h)
            cw, ch = None, None
        else:
            x, y = rnd.randrange(min(fw, 5)), rnd.randrange(min(fh, 5))
            cw, ch = fw - x - rnd.randrange(min(3, fw - x)), fh - y - rnd.randrange(min(3, fh - y))
        tindex = rnd.choice((0, 0, 0, 1, 8, rnd.randrange(16)))
        alpha = rnd.choice((-1, -1, 0, 128, 255))
        out.append(dict(tiles=tiles, scale=scale, mask=mtype, x=x, y=y, width=cw, height=ch, tindex=tindex, alpha=alpha))
    return out

def describe(c):
    return '%dx%d tiles scale %d mask %d crop (%d,%d,%s,%s) tindex %d alpha %d attrs %s' % (
        len(c['tiles'][0]), len(c['tiles']), c['scale'], c['mask'], c['x'], c['y'], c['width'], c['height'], c['tindex'], c['alpha'],
        [[t[0] for t in row] for row in c['tiles']])

def pixels_rule(ctx, repo):
    n = 400 if ctx.tier == 'thorough' else 70
    ctx.rule('C15.7-pixels', 'folded ImageWriter.write_image -> bytes: valid PNG/APNG under an independent decoder, and every pixel of every frame == Spectrum display reference (ink/paper/bright, masks, scale, crop, transparency, flash frame)', floor=60)
    rnd = random.Random(1507 + ctx.seed)
    where = 'skoolkit/image.py, skoolkit/pngwriter.py'
    for animate in (1, 0):
        imf = ImageFolder(repo, {'PNGEnableAnimation': animate})
        for c in cases(rnd, n if animate else n // 4):
            tiles, scale, mtype = c['tiles'], c['scale'], c['mask']
            fw, fh = 8 * len(tiles[0]) * scale, 8 * len(tiles) * scale
            x, y = c['x'], c['y']
            w = min(c['width'] or fw, fw - x)
            h = min(c['height'] or fh, fh - y)
            name = describe(c)
            try:
                fr = imf.frame(tiles, scale, mtype, x, y, c['width'], c['height'], c['tindex'], c['alpha'])
                data = imf.write([fr])
            except NotLiteral as e:
                ctx.limit('image writer', 'write_image not foldable: %s' % e)
                return
            except (KeyError, IndexError, ValueError, TypeError, AttributeError, ZeroDivisionError) as e:
                ctx.violation('write_image', where, 'write_image fails with %s: %s for %s' % (type(e).__name__, e, name))
                continue
            try:
                img = pngref.decode(data)
            except (pngref.PngError, IndexError) as e:
                ctx.violation('png validity', where, 'the file written for %s is not a valid PNG/APNG: %s' % (name, e))
                continue
            alpha = c['alpha'] if c['alpha'] >= 0 else imf.alpha_default
            ref1 = pngref.render(tiles, scale, mtype, x, y, w, h)
            want1 = expected_rgba(ref1, imf.colours, alpha, c['tindex'])
            problems = []
            if (img['width'], img['height']) != (w, h):
                problems.append('image is %dx%d, expected %dx%d' % (img['width'], img['height'], w, h))
            else:
                d = first_diff(img['frames'][0]['pixels'], want1)
                if d:
                    problems.append('frame 1: ' + d)
                # flash
                ref2 = pngref.render(tiles, scale, mtype, x, y, w, h, swap_flash=True)
                flashing = animate and ref2 != ref1
                if flashing:
                    has_trans1 = any(p == pngref.TRANS for row in ref1 for p in row)
                    want2 = expected_rgba(ref2, imf.colours, alpha, c['tindex'])
                    if not has_trans1 and c['tindex']:
                        # the transparent-colour substitution is decided once for the image (manual: the first frame's values take effect)
                        want2 = [[imf.colours[c['tindex']] + (alpha,) if p == c['tindex'] else imf.colours[p] + (255,) if p != pngref.TRANS else imf.colours[0] + (alpha,) for p in row] for row in ref2]
                    if len(img['frames']) != 2:
                        problems.append('%d frame(s) written, the image has flashing cells and animation is enabled' % len(img['frames']))
                    else:
                        f2 = img['frames'][1]
                        sub = [row[f2['x']:f2['x'] + f2['width']] for row in want2[f2['y']:f2['y'] + f2['height']]]
                        d = first_diff(f2['pixels'], sub)
                        if d:
                            problems.append('flash frame (region %dx%d at %d,%d): %s' % (f2['width'], f2['height'], f2['x'], f2['y'], d))
                        else:
                            # outside the region nothing may change
                            for yy in range(h):
                                for xx in range(w):
                                    inside = f2['x'] <= xx < f2['x'] + f2['width'] and f2['y'] <= yy < f2['y'] + f2['height']
                                    if not inside and want2[yy][xx] != want1[yy][xx]:
                                        problems.append('flash frame region %dx%d at (%d,%d) leaves out pixel (%d,%d), which flashes' % (f2['width'], f2['height'], f2['x'], f2['y'], xx, yy))
                                        break
                                if problems:
                                    break
                elif len(img['frames']) != 1:
                    problems.append('%d frames written for an image without visible flashing cells%s' % (len(img['frames']), '' if animate else ' (animation disabled)'))
            if problems:
                ctx.violation('pixels depth %s %s' % (img.get('depth'), 'flash' if len(img['frames']) > 1 else 'still'), where, '%s: %s' % (name, '; '.join(problems[:2])))
            else:
                ctx.ok({'case': name[:80], 'bit depth': img['depth'], 'frames': len(img['frames'])})
    # multi-frame animation
    imf = ImageFolder(repo)
    for k in range(6 if ctx.tier != 'thorough' else 30):
        t1 = rand_tiles(rnd, 2, 1, 'any')
        t2 = rand_tiles(rnd, 2, 1, 'two')
        scale = rnd.choice((1, 2))
        try:
            f1 = imf.frame(t1, scale, 0, delay=10)
            f2 = imf.frame(t2, scale, 0, delay=20)
            data = imf.write([f1, f2])
            img = pngref.decode(data)
        except NotLiteral as e:
            ctx.limit('animation', 'not foldable: %s' % e)
            break
        except (pngref.PngError, KeyError, IndexError, ValueError, TypeError, AttributeError) as e:
            ctx.violation('animation', where, 'two-frame animation: %s: %s' % (type(e).__name__, e))
            continue
        want = [expected_rgba(pngref.render(t, scale, 0, 0, 0, 16 * scale, 8 * scale), imf.colours, 255, 0) for t in (t1, t2)]
        probs = []
        if len(img['frames']) != 2:
            probs.append('%d frames' % len(img['frames']))
        else:
            for i in (0, 1):
                d = first_diff(img['frames'][i]['pixels'], want[i])
                if d:
                    probs.append('frame %d: %s' % (i + 1, d))
            if [f['delay'] for f in img['frames']] != [(10, 100), (20, 100)]:
                probs.append('delays %s, expected 10/100 and 20/100' % [f['delay'] for f in img['frames']])
        if probs:
            ctx.violation('animation', where, 'two-frame animation (scale %d): %s' % (scale, '; '.join(probs[:2])))
        else:
            ctx.ok({'case': 'two-frame animation', 'scale': scale})

def transform_rule(ctx, repo):
    ctx.rule('C15.8-transform', 'flip / rotate: build_udg (the #UDG path) and adjust_udgs (the #UDGARRAY / #UDGS path) folded == flip first, then rotate clockwise, on graphic and mask bytes and on the tile grid', floor=40)
    rnd = random.Random(1508 + ctx.seed)
    cfg = ClassFolder(repo, 'graphics', _hook)
    where = 'skoolkit/graphics.py'
    n = 0
    for flip in range(4):
        for rotate in range(4):
            # single tile through build_udg
            data = [rnd.randrange(256) for _ in range(8)]
            mask = [rnd.randrange(256) for _ in range(8)]
            snap = [0] * 65536
            snap[40000:40008] = data
            snap[40100:40108] = mask
            name = 'flip=%d rotate=%d' % (flip, rotate)
            try:
                u = cfg.call_func('graphics', 'build_udg', [snap, 40000, 56, 1, 0, flip, rotate, 1, 40100, 1])
                got = (list(u.data), list(u.mask) if u.mask else None)
            except NotLiteral as e:
                ctx.limit('build_udg', 'not foldable: %s' % e)
                return
            want = pngref.rotate_tiles(pngref.flip_tiles([[(56, data, mask)]], flip), rotate)[0][0]
            if got != (want[1], want[2]):
                ctx.violation('build_udg ' + name, where, '#UDG with %s: tile bytes %s / mask %s, expected flip-then-rotate %s / %s' % (name, got[0], got[1], want[1], want[2]))
            else:
                ctx.ok({'path': 'build_udg', 'case': name})
            # array through adjust_udgs
            for (w, h) in ((2, 1), (2, 3)):
                tiles = rand_tiles(rnd, w, h, 'any')
                udgs = [[cfg.new('Udg', a, list(d), list(m) if m else None) for a, d, m in row] for row in tiles]
                try:
                    r = cfg.call_func('graphics', 'adjust_udgs', [udgs, flip, rotate])
                except NotLiteral as e:
                    ctx.limit('adjust_udgs', 'not foldable: %s' % e)
                    return
                arr = r if r is not None else udgs
                got = [[(u.attr, list(u.data), list(u.mask) if u.mask else None) for u in row] for row in arr]
                want = pngref.rotate_tiles(pngref.flip_tiles(tiles, flip), rotate)
                want = [[(a, list(d), list(m) if m else None) for a, d, m in row] for row in want]
                if got != want:
                    ctx.violation('adjust_udgs ' + name, where, '#UDGARRAY %dx%d with %s: result differs from flip-then-rotate of the tile grid' % (w, h, name))
                else:
                    ctx.ok({'path': 'adjust_udgs', 'case': name, 'grid': '%dx%d' % (w, h)})
