"""Stale-copy rule: a dictionary attribute B created as a copy of attribute A at construction (B = self.A.copy()) does not follow later
updates of A.  If some method other than __init__ assigns self.A[k] for a constant key k, then a read of self.B[k] anywhere in the class
sees the value from construction time - the update is lost.  (Reads of keys never reassigned in A are fine: both hold the same value.)"""
import ast

def analyse_class(cls):
    """-> list of (B, A, key, lineno of the stale read, method, writer method)"""
    copies = {}          # B -> A
    for f in cls.body:
        if isinstance(f, ast.FunctionDef) and f.name == '__init__':
            for n in ast.walk(f):
                if isinstance(n, ast.Assign) and len(n.targets) == 1 and _selfattr(n.targets[0]):
                    v = n.value
                    src = None
                    if isinstance(v, ast.Call) and isinstance(v.func, ast.Attribute) and v.func.attr == 'copy' and _selfattr(v.func.value):
                        src = v.func.value.attr
                    elif isinstance(v, ast.Call) and isinstance(v.func, ast.Name) and v.func.id == 'dict' and len(v.args) == 1 and _selfattr(v.args[0]):
                        src = v.args[0].attr
                    if src:
                        copies[n.targets[0].attr] = src
    if not copies:
        return []
    updated = {}         # (A, key) -> writer method
    for f in cls.body:
        if isinstance(f, ast.FunctionDef) and f.name != '__init__':
            for n in ast.walk(f):
                tgs = n.targets if isinstance(n, ast.Assign) else [n.target] if isinstance(n, ast.AugAssign) else []
                for t in tgs:
                    for x in (t.elts if isinstance(t, ast.Tuple) else [t]):
                        if isinstance(x, ast.Subscript) and _selfattr(x.value) and isinstance(x.slice, ast.Constant):
                            updated.setdefault((x.value.attr, x.slice.value), f.name)
    out = []
    for f in cls.body:
        if isinstance(f, ast.FunctionDef):
            for n in ast.walk(f):
                if isinstance(n, ast.Subscript) and isinstance(n.ctx, ast.Load) and _selfattr(n.value) and n.value.attr in copies and isinstance(n.slice, ast.Constant):
                    a = copies[n.value.attr]
                    if (a, n.slice.value) in updated and (n.value.attr, n.slice.value) not in updated:
                        out.append((n.value.attr, a, n.slice.value, n.lineno, f.name, updated[(a, n.slice.value)]))
    return out

def _selfattr(x):
    return isinstance(x, ast.Attribute) and isinstance(x.value, ast.Name) and x.value.id == 'self'

_POSITIVE = '''
class W:
    def __init__(self, v):
        self.vars = dict(v)
        self.game = self.vars.copy()
    def set_css(self, value):
        self.vars['CSS'] = value
    def clone(self):
        c = W(self.vars)
        c.set_css(self.game['CSS'])
        return c
    def title(self):
        return self.game['Title']
'''

def run(ctx, repo, rule_id, modules):
    got = [(b, a, k) for cls in ast.walk(ast.parse(_POSITIVE)) if isinstance(cls, ast.ClassDef) for b, a, k, ln, m, w in analyse_class(cls)]
    if got != [('game', 'vars', 'CSS')]:
        from sa.core.pyfacts import FactError
        raise FactError('stale-copy analysis self-check failed: %s' % got)
    ctx.rule(rule_id, 'no read of a construction-time copy (B = self.A.copy()) for a key that a later method updates in the original A', floor=1)
    for mod in repo.all_modules():
        if mod.name not in modules:
            continue
        for cname, cls in mod.classes.items():
            res = analyse_class(cls)
            n_copies = sum(1 for f in cls.body if isinstance(f, ast.FunctionDef) and f.name == '__init__' for n in ast.walk(f)
                           if isinstance(n, ast.Assign) and isinstance(n.value, ast.Call) and isinstance(n.value.func, ast.Attribute) and n.value.func.attr == 'copy' and _selfattr(n.value.func.value))
            for b, a, k, ln, meth, writer in res:
                ctx.violation('%s.%s.%s self.%s[%r]' % (mod.name, cname, meth, b, k), '%s:%d' % (mod.relpath, ln),
                              '%s.%s reads self.%s[%r], but self.%s is a copy of self.%s taken in __init__ and %s() later stores a new self.%s[%r]: the read returns the value from construction time' %
                              (cname, meth, b, k, b, a, writer, a, k))
            if n_copies and not res:
                ctx.ok({'class': '%s.%s' % (mod.name, cname), 'construction-time copies': n_copies, 'stale reads': 0})
