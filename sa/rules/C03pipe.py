"""C03.4-roundtrip (*fold*): skool -> ctl -> skool on skool files in the form sna2skool writes.

A model memory image and an annotated control file (C01pipe's generator plus titles, D/R/N/E paragraphs, instruction comments over one
or several instructions, M directives, blank and dots-only comments, dot/colon continuation lines, @ directives incl. @ignoreua variants,
'>' header and footer blocks) are built by the checker; the folded sna2skool gives skool file S1, the folded CtlWriter (base-preserving;
keep_lines 0/1; decimal / hexadecimal addresses) gives a control file, the folded sna2skool gives S2 from it and the same memory.
S1 == S2, and the control file of S2 equals that of S1 (fixed point)."""
import random
from sa.core.pyfacts import NotLiteral
from sa.rules import C01pipe

class Pipeline(C01pipe.Pipeline):
    def skool2ctl(self, skool_lines, write_hex=0, preserve_base=1, keep_lines=0, elements='abtdrmscn'):
        self.lines, self.warnings = [], []
        self.files['rt.skool'] = [l + '\n' for l in skool_lines]
        cfw = self.cf.sibling('skoolctl')
        w = cfw.new('CtlWriter', 'rt.skool', elements, write_hex, preserve_base, 0, 65536, keep_lines)
        cfw.call(w, 'write')
        return list(self.lines)

WORDS = 'alpha beta gamma delta the of and HL {braces} A=1; x. "q" #R32768 a-b-c supercalifragilisticexpialidocious 1,2,3 (paren) end. * ; :colon .125 ...or'.split()

PLAIN = """alpha beta gamma delta the of and HL A=1; x. "q" a-b-c supercalifragilisticexpialidocious 1,2,3 (paren) end. :colon it's 100% [sq] under_score""".split()

def text(rnd, lo=1, hi=14, words=WORDS):
    t = ' '.join(rnd.choice(words) for _ in range(rnd.randrange(lo, hi))).replace('{braces}', rnd.choice(('{braces}', 'braces')))
    return t.lstrip('.;* ') or 'word'

CODE = [c for c, v in C01pipe.CODE if not v and c[0] not in (0x18, 0x10, 0xC3, 0xCD, 0xCF, 0xFF)]
ASM_DIRS = ('keep', 'nowarn', 'rem=a remark', 'isub=LD A,1 ; replaced', 'ssub=XOR A', 'ofix=NOP', 'bfix=INC A', 'rsub=LD B,2', 'nolabel', 'refs=32768', 'keep=1,2')
ENTRY_DIRS = ('org', 'start', 'equ=NAME=5', 'set-tab=1', 'replace=/x/y', 'if({asm})(org)', 'writer=x.Y', 'end', 'expand=#LET(a=1)', 'assemble=2', 'defb=23296:1', 'bank=1')

BASES_C = [0]          # the base prefixes of C sub-blocks are taken in turn, so a short run meets them all

def gen_annotated(rnd, plain=False):
    """-> (memory, control file lines, start, end).  The entry / sub-block structure is chosen first (so every boundary is a statement
    boundary), the annotations are attached to it."""
    start = rnd.choice((32768, 40000, 24576, 60000))
    T = lambda lo, hi: text(rnd, lo, hi, PLAIN if plain else WORDS)
    entry_dirs = () if plain else ENTRY_DIRS
    asm_dirs = ('keep', 'nowarn', 'nolabel') if plain else ASM_DIRS
    snap = [0] * 65536
    ctl = []
    a = start
    nent = rnd.randrange(1, 4)
    for ei in range(nent):
        kind = rnd.choice('ccbbtswgu' if plain else 'ccbbtswgui')
        ea = a
        if ei == 0 and rnd.random() < 0.4:
            ctl.append('> %d ; header %s' % (ea, T(1, 4)))
            if rnd.random() < 0.5:
                ctl.append('> %d' % ea)
                ctl.append('> %d ; second header block' % ea)
                if rnd.random() < 0.5:
                    ctl.append('> %d @rem=in a header' % ea)
        elif ei and rnd.random() < 0.2:
            ctl.append('> %d ; header of entry %d' % (ea, ei))
        for d in rnd.sample(entry_dirs, rnd.choice((0, 0, 1, 2)) if entry_dirs else 0):
            ctl.append('@ %d %s' % (ea, d))
        if plain and ei == 0:
            ctl.append('@ %d start' % ea)
            ctl.append('@ %d org' % ea)
        if rnd.random() < 0.3:
            ctl.append('@ %d label=L%d' % (ea, ea))
        if rnd.random() < 0.15:
            ctl.append('@ %d ignoreua:t%s' % (ea, rnd.choice(('', '=32768,32770'))))
        ctl.append(('%s %d %s' % (kind, ea, T(1, 6) if plain or rnd.random() < 0.9 else '')).rstrip())
        nd = rnd.choice((0, 0, 1, 2, 3))
        if nd and rnd.random() < 0.2:
            ctl.append('@ %d ignoreua:d' % ea)
        for k in range(nd):
            ctl.append('D %d %s' % (ea, T(3, 30)))
        if rnd.random() < 0.35:
            if rnd.random() < 0.2:
                ctl.append('@ %d ignoreua:r' % ea)
            ctl.append('R %d A %s' % (ea, T(1, 8)))
            if rnd.random() < 0.6:
                desc = T(1, 20)
                if not plain and rnd.random() < 0.5:
                    desc = ' '.join(rnd.choice(('.125', '...or', 'alpha', 'the', 'delta', '.5')) for _ in range(rnd.randrange(12, 40))).lstrip('. ') or 'x'
                ctl.append('R %d %s %s' % (ea, rnd.choice(('O:HL', 'I:BC', 'HL', 'O:(DE)', "A'")), desc))
            if rnd.random() < 0.2 and not plain:
                ctl.append('R %d B' % ea)
        nsub = rnd.randrange(1, 6)
        subs = []                 # (ctl letter, address, length, spec, ninstr)
        # now and then: a commentless sub-block, one comment over two sub-blocks of different types, a commentless sub-block of the first type
        sandwich = None
        if rnd.random() < 0.3:
            x, y = rnd.sample('CBTSW', 2)
            sandwich = [x, rnd.choice((x, y)), y if rnd.random() < 0.7 else x, x]
            if sandwich[1] == sandwich[2]:
                sandwich[2] = y if sandwich[1] == x else x
            nsub = 4
        for si in range(nsub):
            sk = kind.upper() if kind in 'cbtsw' else 'B'
            if rnd.random() < 0.3:
                sk = rnd.choice('CBTSW')
            if sandwich:
                sk = sandwich[si]
            sa_ = a
            if sk == 'C':
                k = rnd.randrange(1, 5)
                for _ in range(k):
                    ins = rnd.choice(CODE)
                    for x in ins:
                        snap[a] = rnd.choice((0, 1, 33, 65, 127, 128, 200, 255)) if x is None else x
                        a += 1
                spec = ''
                if rnd.random() < 0.35:
                    BASES_C[0] += 1
                    spec = ',%s%d' % (('b', 'c', 'd', 'h', 'm', 'n', 'hb', 'dn', 'mm', 'bd')[BASES_C[0] % 10], a - sa_)
                subs.append(('C', sa_, a - sa_, spec, k))
            elif sk == 'B':
                n = rnd.randrange(1, 17)
                for i in range(n):
                    snap[a + i] = rnd.choice((0, 1, 34, 65, 92, 127, 128, 200, 255, rnd.randrange(256)))
                form = rnd.randrange(5)
                spec = ''
                if form == 1:
                    spec = ',%d' % rnd.randrange(1, 6)
                elif form == 2:
                    k1 = rnd.randrange(1, n + 1)
                    spec = ',%s%d' % (rnd.choice('bcdhmn'), k1)
                    if n - k1 >= 1:
                        spec += ',%s%d' % (rnd.choice('bdhmn'), rnd.randrange(1, min(3, n - k1) + 1))
                elif form == 3 and n >= 4:
                    spec = ',1*2,%s2' % rnd.choice('bdh')
                elif form == 4 and n >= 3:
                    spec = ',1:%s1,1' % rnd.choice('bdhc')
                a += n
                subs.append(('B', sa_, n, spec, 2))
            elif sk == 'T':
                n = rnd.randrange(1, 24)
                for i in range(n):
                    snap[a + i] = rnd.choice((32, 65, 66, 97, 34, 92, 59, 123, 125, 200, 13, rnd.randrange(32, 127)))
                spec = ',%d' % rnd.randrange(1, 9) if rnd.random() < 0.4 else ''
                a += n
                subs.append(('T', sa_, n, spec, 2))
            elif sk == 'S':
                n = rnd.randrange(1, 40)
                v = rnd.choice((0, 0, 255, 65))
                for i in range(n):
                    snap[a + i] = v
                spec = ''
                if rnd.random() < 0.3 and n >= 4 and n % 2 == 0:
                    spec = ',%d:%s' % (n // 2, rnd.choice('bcdhn'))
                a += n
                subs.append(('S', sa_, n, spec, 2 if spec else 1))
            else:
                n = 2 * rnd.randrange(1, 7)
                for i in range(n):
                    snap[a + i] = rnd.randrange(256)
                spec = ',%s%d' % (rnd.choice(('', 'b', 'd', 'h', 'm')), 2 * rnd.randrange(1, 3)) if rnd.random() < 0.5 else ''
                a += n
                subs.append(('W', sa_, n, spec, 2))
        m_until = -1
        for si, (sk, sa_, n, spec, ni) in enumerate(subs):
            if rnd.random() < (0.3 if si else 0.15):
                if rnd.random() < 0.25:
                    ctl.append('@ %d ignoreua:m' % sa_)
                for _ in range(rnd.choice((1, 1, 2))):
                    ctl.append('N %d %s' % (sa_, T(2, 25)))
            if si and rnd.random() < 0.25:
                for d in rnd.sample(asm_dirs, rnd.choice((1, 1, 2))):
                    ctl.append('@ %d %s' % (sa_, d))
            if rnd.random() < 0.1:
                ctl.append('@ %d ignoreua:i' % sa_)
            if sandwich and si == 1:
                m_until = 2
                mlen = subs[2][1] + subs[2][2] - sa_
                ctl.append('M %d,%d %s' % (sa_, mlen, T(2, 20)))
            elif not sandwich and si > m_until and si + 1 < len(subs) and rnd.random() < 0.3:
                m_until = rnd.randrange(si + 1, len(subs))
                mlen = subs[m_until][1] + subs[m_until][2] - sa_
                ctl.append('M %d,%d %s' % (sa_, mlen, T(2, 30) if plain else rnd.choice((T(2, 30), '.', '..'))))
            c = rnd.random()
            if si <= m_until or (sandwich and si in (0, 3)):
                cm = ''
            elif c < 0.45:
                cm = T(1, 25)
            elif c < 0.55 and not plain:
                cm = rnd.choice(('.', '..', '...', '{', '}', '{}', '{ unbalanced', 'closing }', '{{double}}'))
            else:
                cm = ''
            if sk == 'C' and not spec:
                spec = ',%d' % n
            elif sk != 'C':
                spec = ',%d%s' % (n, spec)
            ctl.append(('%s %d%s %s' % (sk, sa_, spec, cm)).rstrip())
        if rnd.random() < 0.3:
            if rnd.random() < 0.25:
                ctl.append('@ %d ignoreua:e' % ea)
            for _ in range(rnd.choice((1, 1, 2))):
                ctl.append('E %d %s' % (ea, T(2, 25)))
        if ei == nent - 1 and rnd.random() < 0.3:
            ctl.append('> %d,1 ; footer %s' % (ea, T(1, 4)))
    ctl.append('i %d' % a)
    return snap, ctl, start, a

def run(ctx, repo):
    n = 200 if ctx.tier == 'thorough' else 30
    ctx.rule('C03.4-roundtrip', 'skool -> ctl -> skool folded on %d generated annotated inputs: identical skool text, and the second control file equals the first' % n, floor=n - 5)
    rnd = random.Random(303 + ctx.seed)
    P = Pipeline(repo)
    where = 'skoolkit/skoolctl.py, skoolkit/ctlparser.py, skoolkit/snaskool.py, skoolkit/skoolutils.py'
    seen = set()
    for k in range(n):
        keep = k % 3 == 2
        snap, actl, start, end = gen_annotated(rnd)
        opts = dict(base=rnd.choice((10, 16)), case=rnd.choice((1, 2)), line_width=rnd.choice((79, 60, 120)))
        whex = rnd.choice((0, 1, 2))
        name = 'case %d: ctl %s, sna2skool %s, skool2ctl -b%s%s' % (k, actl, opts, ' -k' if keep else '', ('', ' -l', ' -h')[whex])
        try:
            s1 = P.sna2skool(snap, actl, start, end, ListRefs=0, ctl_range=(0, 65536), **opts)
            w1 = list(P.warnings)
            c1 = P.skool2ctl(s1, whex, 1, int(keep))
            s2 = P.sna2skool(snap, c1, start, end, ListRefs=0, ctl_range=(0, 65536), **opts)
            c2 = P.skool2ctl(s2, whex, 1, int(keep))
        except NotLiteral as e:
            ctx.limit('roundtrip', 'not foldable (%s): %s' % (name[:160], e))
            continue
        except (KeyError, IndexError, ValueError, TypeError, AttributeError) as e:
            key = 'failure %s' % type(e).__name__
            if key not in seen:
                seen.add(key)
                ctx.violation('roundtrip ' + key, where, 'sna2skool or skool2ctl fails with %s: %s; %s' % (type(e).__name__, e, name))
            continue
        if s1 != s2:
            i = next((i for i, (x, y) in enumerate(zip(s1, s2)) if x != y), min(len(s1), len(s2)))
            key = 'skool text'
            if key not in seen:
                seen.add(key)
                ctx.violation('roundtrip ' + key, where, 'the regenerated skool file differs from the original at line %d: original %r, regenerated %r; control file written by skool2ctl: %s; %s' % (i + 1, s1[i:i + 3], s2[i:i + 3], c1, name))
        elif c1 != c2:
            if 'ctl' not in seen:
                seen.add('ctl')
                ctx.violation('roundtrip fixed point', where, 'second control file differs: %s vs %s; %s' % (c1, c2, name))
        else:
            ctx.ok({'case': k, 'skool_lines': len(s1), 'ctl_lines': len(c1)} if k % 10 == 0 else None)
