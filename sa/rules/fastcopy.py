"""Fast block copy == stepwise block copy (*fold*).

Simulator.ldir_fast (the `fast_ldir` option) replaces LDIR / LDDR by a loop that copies until BC is 0 or the instruction has overwritten
its own opcode bytes (the run loop then fetches again).  It is folded on model machine states next to the stepwise handler (`ldi` with repeat=1, folded once per
iteration for as long as PC stays on the instruction and the two opcode bytes are still there): registers (all 30 slots) and memory must
be equal at the point where the stepwise execution leaves the instruction or meets changed opcode bytes."""
import ast
from sa.core.pyfacts import NotLiteral
from sa.core.classfold import ClassFolder, Inst

def scenarios():
    # (name, pc, hl, de, bc, a, iff, memory pokes)
    for inc, op in ((1, 0xB0), (-1, 0xB8)):
        d = 'LDIR' if inc > 0 else 'LDDR'
        yield ('%s plain' % d, inc, op, 32768, 40000, 41000, 5, 7, 0, {})
        yield ('%s one byte' % d, inc, op, 32768, 40000, 41000, 1, 0x28, 0, {})
        yield ('%s into ROM' % d, inc, op, 32768, 40000, 16382 if inc > 0 else 16386, 6, 1, 0, {})
        yield ('%s across the top of memory' % d, inc, op, 32768, 50000, 65533 if inc > 0 else 2, 6, 3, 0, {})
        yield ('%s source across the top of memory' % d, inc, op, 32768, 65534 if inc > 0 else 1, 45000, 5, 3, 0, {})
        yield ('%s with interrupts enabled' % d, inc, op, 32768, 40000, 41000, 4, 9, 1, {})
        yield ('%s overlapping source and destination' % d, inc, op, 32768, 40000, 40001 if inc > 0 else 39999, 8, 0, 0, {})
        # the copy runs over its own opcode bytes
        for target, what in ((0, 'first'), (1, 'second')):
            for newbyte in (0x00, 0xED, 0xA0, 0x44, op):
                k = 3
                de0 = (32768 + target - k * inc) % 65536
                hl0 = 45000
                pokes = {(hl0 + k * inc) % 65536: newbyte}
                yield ('%s overwrites its %s opcode byte with %02X after %d bytes' % (d, what, newbyte, k), inc, op, 32768, hl0, de0, 10, 5, 0, pokes)
        yield ('%s at 65535/0 overwriting its second byte' % d, inc, op, 65535, 45000, (0 - 2 * inc) % 65536, 6, 5, 0, {})

def run(ctx, repo, rule_id):
    ctx.rule(rule_id, 'Simulator.ldir_fast / djnz_fast (fast_ldir, fast_djnz) folded next to the stepwise LDIR / LDDR / DJNZ handlers on model states: same registers and memory where the stepwise execution leaves the instruction or finds its opcode bytes changed', floor=150)
    cf = ClassFolder(repo, 'simulator')
    sim = Inst('simulator', 'Simulator', cf)
    where = 'skoolkit/simulator.py (Simulator.ldir_fast)'
    m = repo.mod('simulator')
    if 'ldir_fast' not in {f.name for f in m.classes['Simulator'].body if isinstance(f, ast.FunctionDef)}:
        raise NotLiteral('Simulator.ldir_fast not found')
    for name, inc, op, pc, hl, de, bc, a, iff, pokes in scenarios():
        def machine():
            mem = [(i * 7 + 3) % 256 for i in range(65536)]
            mem[pc], mem[(pc + 1) % 65536] = 0xED, op
            for k, v in pokes.items():
                mem[k] = v
            regs = [0] * 30
            regs[0], regs[1] = a, 0xFF
            regs[24], regs[25], regs[26], regs[15] = pc, 1000, iff, 0x85
            regs[7], regs[6] = hl % 256, hl // 256
            regs[5], regs[4] = de % 256, de // 256
            regs[3], regs[2] = bc % 256, bc // 256
            return regs, mem
        try:
            r1, m1 = machine()
            fast = cf.call(sim, 'ldir_fast', r1, m1, inc)
            k = 0
            while True:
                fast()          # the run loop calls the handler again for as long as PC stays on an unchanged instruction
                k += 1
                if r1[24] != pc or m1[pc] != 0xED or m1[(pc + 1) % 65536] != op or k > 70000 or iff:
                    break
            r2, m2 = machine()
            step = cf.call(sim, 'ldi', r2, m2, inc, 1)
            n = 0
            while True:
                step()
                n += 1
                if r2[24] != pc or m2[pc] != 0xED or m2[(pc + 1) % 65536] != op or n > 70000:
                    break
                if iff:
                    break          # with interrupts enabled the fast handler does one iteration at a time
        except NotLiteral as e:
            ctx.limit(name, 'not foldable: %s' % e)
            continue
        if r1 != r2 or m1 != m2:
            diffs = [(i, r1[i], r2[i]) for i in range(30) if r1[i] != r2[i]]
            mdiff = [(i, m1[i], m2[i]) for i in range(65536) if m1[i] != m2[i]][:4]
            ctx.violation('fast copy ' + name.split(' after')[0], where, '%s (PC=%d HL=%d DE=%d BC=%d): after the fast handler and after %d stepwise iteration(s) the states differ: registers (slot, fast, stepwise) %s, memory (address, fast, stepwise) %s' % (name, pc, hl, de, bc, n, diffs, mdiff))
        else:
            ctx.ok({'scenario': name, 'iterations': n})
    # DJNZ to itself (fast_djnz)
    if 'djnz_fast' in {f.name for f in m.classes['Simulator'].body if isinstance(f, ast.FunctionDef)}:
        for b in (0, 1, 2, 100, 128, 255):
            for offset in (0xFE, 0xFD, 0x05, 0x00):
                for iff in (0, 1):
                    for pc in (32768, 65534, 65535):
                        name = 'DJNZ offset %02X, B=%d, IFF=%d, PC=%d' % (offset, b, iff, pc)
                        def machine():
                            mem = [0] * 65536
                            mem[pc], mem[(pc + 1) % 65536] = 0x10, offset
                            regs = [0] * 30
                            regs[2], regs[24], regs[25], regs[26], regs[15] = b, pc, 500, iff, 0xFE
                            return regs, mem
                        try:
                            r1, m1 = machine()
                            fast = cf.call(sim, 'djnz_fast', r1, m1)
                            k = 0
                            while True:
                                fast()
                                k += 1
                                if r1[24] != pc or k > 300 or iff:
                                    break
                            r2, m2 = machine()
                            step = cf.call(sim, 'djnz', r2, m2)
                            n = 0
                            while True:
                                step()
                                n += 1
                                if r2[24] != pc or n > 300 or iff:
                                    break
                        except NotLiteral as e:
                            ctx.limit(name, 'not foldable: %s' % e)
                            continue
                        if r1 != r2 or m1 != m2:
                            ctx.violation('fast DJNZ offset %02X' % offset, 'skoolkit/simulator.py (Simulator.djnz_fast)', '%s: after the fast handler and after %d stepwise iteration(s) the registers differ: (slot, fast, stepwise) %s' % (name, n, [(i, r1[i], r2[i]) for i in range(30) if r1[i] != r2[i]]))
                        else:
                            ctx.ok({'scenario': name} if b == 2 and pc == 32768 else None)
