"""C05 - the simulators implement documented Z80 semantics (decode/operand clause, R/M1 consistency, table definitions)."""
import re
from sa.core import pyfacts, simfacts, tabfacts, effects, report, semdiff
from sa.core.terms import C, isc, post, show, walk
from sa.core.effects import Unsupported

EXPLANATION = (
    "Decides, for every one of the 1786 non-prefix dispatch slots, that the slot executes the operation on the operands its mnemonic names: an "
    "independent mnemonic table (traceutils.py, all 7x256 entries) is translated by a frozen signature map into the expected handler, lookup "
    "table and operand arguments, and compared with the Python table (the C tables are tied to it by C06.1); the sense of every condition code "
    "is derived from the handler's paths (the path that loads PC non-sequentially must be the one on which the flag test of the mnemonic holds); "
    "RST targets equal the opcode's bits 3-5; the R increment of every slot equals the number of M1 fetches its table position implies, and in "
    "the contended builds the contention pattern starts with that many 4-T fetches at consecutive PC addresses; DD/FD and DDCB/FDCB tables are "
    "register-substitution images of each other. Table-definition rules (C05.T*) constant-fold every simtables.py comprehension and every C "
    "init_* loop nest and compare all entries with each other and with an independent reference model of the Z80 flag semantics. "
    "Rule C05.5 evaluates every slot's extracted value terms on sampled machine states against an independent one-instruction reference model of the Z80 (sa/rules/z80isa.py): registers, documented flags, PC/SP/R, IFF/IM/HALT, memory and port writes, T-states; it reports deviations all four implementations share. Not decided: equality with the reference for *all* states of the instructions whose arithmetic is written inline (16-bit ADD/ADC/SBC, block instructions) - the reference comparison samples them; undocumented flag bits of block I/O and of BIT n,(HL)/(IX+d) are not vouched for.")

REG8 = {'A': 0, 'F': 1, 'B': 2, 'C': 3, 'D': 4, 'E': 5, 'H': 6, 'L': 7, 'IXh': 8, 'IXl': 9, 'IYh': 10, 'IYl': 11, 'I': 14, 'R': 15}
PAIR = {'BC': (2, 3), 'DE': (4, 5), 'HL': (6, 7), 'IX': (8, 9), 'IY': (10, 11), 'AF': (0, 1), 'SP': (13, 12)}
CC = {'NZ': (64, 0), 'Z': (64, 1), 'NC': (1, 0), 'C': (1, 1), 'PO': (4, 0), 'PE': (4, 1), 'P': (128, 0), 'M': (128, 1)}

def norm(m):
    m = re.sub(r'\{p\}\{n:\{[bw]\}\}', 'N', m)
    m = re.sub(r'\{s\}\{p\}\{d:\{b\}\}', '+d', m)
    return m

def xy(op):
    mm = re.match(r'\((I[XY])\+d\)$', op)
    return PAIR[mm.group(1)] if mm else None

def expect(m):
    """Signature map: mnemonic shape -> (handler, {param: value}).  One line of reason per shape: the Z80 instruction named
    by the mnemonic operates on exactly these registers / tables."""
    if m == '':
        return None
    parts = m.split(' ', 1)
    op = parts[0]
    args = parts[1].split(',') if len(parts) > 1 else []
    alu = None
    if op in ('ADD', 'ADC', 'SBC') and args[0] == 'A':
        alu, src = op, args[1]
    elif op in ('SUB', 'AND', 'XOR', 'OR', 'CP'):
        alu, src = op, args[0]
    if alu:
        carry = alu in ('ADC', 'SBC')
        pre = 'afc' if carry else 'af'
        if src == '(HL)': return pre + '_hl', {pre: alu}
        if src == 'N': return pre + '_n', {pre: alu}
        if xy(src): return pre + '_xy', {pre: alu, 'xyh': xy(src)[0], 'xyl': xy(src)[1]}
        if carry and src == 'A': return 'fc_r', {'fc': alu + '_A_A', 'r': 0}
        return pre + '_r', {pre: alu, 'r': REG8[src]}
    if op in ('RLCA', 'RRCA', 'RLA', 'RRA', 'DAA', 'CPL'): return 'af_r', {'af': op, 'r': 1}
    if op in ('SCF', 'CCF'): return 'cf', {'cf': op}
    if op in ('INC', 'DEC'):
        a = args[0]
        if a in PAIR:
            rh, rl = PAIR[a]
            return 'inc_dec_rr', {'inc': 1 if op == 'INC' else -1, 'rh': rh, 'rl': rl}
        if a == '(HL)': return 'fc_hl', {'fc': op}
        if xy(a): return 'fc_xy', {'fc': op, 'xyh': xy(a)[0], 'xyl': xy(a)[1], 'dest': -1}
        return 'fc_r', {'fc': op, 'r': REG8[a]}
    if op in ('RL', 'RR', 'RLC', 'RRC', 'SLA', 'SRA', 'SLL', 'SRL'):
        pre = 'fc' if op in ('RL', 'RR') else 'f'
        a = args[0]
        if a == '(HL)': return pre + '_hl', {pre: op}
        if xy(a):
            return pre + '_xy', {pre: op, 'xyh': xy(a)[0], 'xyl': xy(a)[1], 'dest': REG8[args[1]] if len(args) > 1 else -1}
        return pre + '_r', {pre: op, 'r': REG8[a]}
    if op == 'BIT':
        b = int(args[0]); a = args[1]
        if a == '(HL)': return 'bit_hl', {'bit': 'BIT', 'b': b}
        if xy(a): return 'bit_xy', {'bit': 'BIT', 'b': b, 'xyh': xy(a)[0], 'xyl': xy(a)[1]}
        return 'bit_r', {'bit': 'BIT', 'b': b, 'reg': REG8[a]}
    if op in ('RES', 'SET'):
        b = int(args[0]); a = args[1]
        mask = (1 << b) if op == 'SET' else 255 - (1 << b)
        h = op.lower()
        if a == '(HL)': return h + '_hl', {'bit': mask}
        if xy(a): return h + '_xy', {'bit': mask, 'xyh': xy(a)[0], 'xyl': xy(a)[1], 'dest': REG8[args[2]] if len(args) > 2 else -1}
        return h + '_r', {'bit': mask, 'reg': REG8[a]}
    if op in ('JP', 'JR', 'CALL', 'RET'):
        if op == 'JP' and args and args[0] in ('(HL)', '(IX)', '(IY)'):
            rh, rl = PAIR[args[0][1:-1]]
            return 'jp_rr', {'rh': rh, 'rl': rl}
        cc = args[0] if args and args[0] in CC else None
        return op.lower(), {'$cc': cc}
    if op == 'DJNZ': return 'djnz', {}
    if op == 'RST': return 'rst', {'$rst': True}
    if op in ('PUSH', 'POP'):
        rh, rl = PAIR[args[0]]
        return op.lower(), {'rh': rh, 'rl': rl}
    if op in ('LDI', 'LDD', 'LDIR', 'LDDR'): return 'ldi', {'inc': 1 if op[2] == 'I' else -1, 'repeat': int(op.endswith('R'))}
    if op in ('CPI', 'CPD', 'CPIR', 'CPDR'): return 'cpi', {'inc': 1 if op[2] == 'I' else -1, 'repeat': int(op.endswith('R'))}
    if op in ('INI', 'IND', 'INIR', 'INDR'): return 'ini', {'inc': 1 if op[2] == 'I' else -1, 'repeat': int(op.endswith('R')), 'parity': 'PARITY'}
    if op in ('OUTI', 'OUTD', 'OTIR', 'OTDR'): return 'outi', {'inc': 1 if op in ('OUTI', 'OTIR') else -1, 'repeat': int(op.endswith('R')), 'parity': 'PARITY'}
    if op == 'NEG': return 'neg', {'neg': 'NEG'}
    if op in ('RETN', 'RETI'): return 'reti', {}
    if op == 'IM': return 'im', {'mode': int(args[0])}
    if op == 'RLD': return 'rld', {'sz53p': 'SZ53P'}
    if op == 'RRD': return 'rrd', {'sz53p': 'SZ53P'}
    if op in ('DI', 'EI'): return 'di_ei', {'iff': int(op == 'EI')}
    if op == 'HALT': return 'halt', {}
    if op == 'NOP': return 'nop', {}
    if op == 'EXX': return 'exx', {}
    if op == 'EX':
        if args == ['AF', "AF'"]: return 'ex_af', {}
        if args == ['DE', 'HL']: return 'ex_de_hl', {}
        rh, rl = PAIR[args[1]]
        return 'ex_sp', {'rh': rh, 'rl': rl}
    if op == 'IN':
        if args[1] == '(N)': return 'in_a', {}
        return 'in_c', {'reg': REG8[args[0]], 'sz53p': 'SZ53P'}
    if op == 'OUT':
        if args[0] == '(N)': return 'out_a', {}
        return 'out_c', {'reg': REG8[args[1]] if args[1] != '0' else -1}
    if op in ('ADD', 'ADC', 'SBC'):
        dst, src = args
        srcp = PAIR[src]
        if op == 'ADD': return 'add_rr', {'ah': PAIR[dst][0], 'al': PAIR[dst][1], 'rh': srcp[0], 'rl': srcp[1]}
        return ('adc_hl' if op == 'ADC' else 'sbc_hl'), {'rh': srcp[0], 'rl': srcp[1]}
    if op == 'LD':
        d, s = args
        isr = lambda x: x in REG8
        if d == 'SP' and s in PAIR: return 'ld_sp_rr', {'rh': PAIR[s][0], 'rl': PAIR[s][1]}
        if d in PAIR and s == 'N': return 'ld_rr_nn', {'rh': PAIR[d][0], 'rl': PAIR[d][1]}
        if d in PAIR and s == '(N)': return 'ld_rr_mm', {'rh': PAIR[d][0], 'rl': PAIR[d][1]}
        if d == '(N)' and s in PAIR: return 'ld_mm_rr', {'rh': PAIR[s][0], 'rl': PAIR[s][1]}
        if d == 'A' and s == '(N)': return 'ld_a_m', {}
        if d == '(N)' and s == 'A': return 'ld_m_a', {}
        if d == 'A' and s in ('I', 'R'): return 'ld_a_ir', {'r': REG8[s]}
        if d == '(HL)' and s == 'N': return 'ld_hl_n', {}
        if xy(d) and s == 'N': return 'ld_xy_n', {'xyh': xy(d)[0], 'xyl': xy(d)[1]}
        if xy(d): return 'ld_xy_r', {'xyh': xy(d)[0], 'xyl': xy(d)[1], 'r': REG8[s]}
        if xy(s): return 'ld_r_xy', {'r': REG8[d], 'xyh': xy(s)[0], 'xyl': xy(s)[1]}
        if isr(d) and s == 'N': return 'ld_r_n', {'r': REG8[d]}
        if isr(d) and s in ('(HL)', '(BC)', '(DE)'):
            p = PAIR[s[1:-1]]
            return 'ld_r_rr', {'r': REG8[d], 'rh': p[0], 'rl': p[1]}
        if d in ('(HL)', '(BC)', '(DE)') and isr(s):
            p = PAIR[d[1:-1]]
            return 'ld_rr_r', {'rh': p[0], 'rl': p[1], 'r': REG8[s]}
        if isr(d) and isr(s):
            if d == s: return 'nop', {}
            return 'ld_r_r', {'r1': REG8[d], 'r2': REG8[s]}
    return 'UNKNOWN', {}

def bound_values(m, slot):
    fac, names, bound = m.py.bind('Simulator', slot)
    d = {}
    for n in names:
        v = bound[n]
        if v[0] == 'int': d[n] = v[1]
        elif v[0] == 'table': d[n] = v[1]
    return d

def taken_sense(m, slot):
    """For a conditional control-flow slot: (flag mask tested, value of (F & mask) != 0 on the taken path) from the paths."""
    items = m.canon('py', slot)
    taken = []
    for g, e in items:
        regs = dict(e[0])
        pc = regs.get(24, ('reg', 24))
        if simfacts._const_delta(pc, 24) is None:
            taken.append(g)
    if not taken:
        return None
    out = set()
    for g in taken:
        for x in g:
            masks = {t[2][1] for t in walk(x) if t[0] == '&' and len(t) == 3 and t[1] == ('reg', 1) and isc(t[2])}
            for mk_ in masks:
                v1 = semdiff.Evaluator({('reg', 1): mk_}).ev(x)
                v0 = semdiff.Evaluator({('reg', 1): 0}).ev(x)
                if v1 != v0:
                    out.add((mk_, 1 if v1 else 0))
    return out

def signature_rule(ctx, m, tr):
    ctx.rule('C05.1-signature', 'dispatch slot == handler, lookup table and operands named by the mnemonic (traceutils as independent oracle)', floor=1786)
    for s in m.slots():
        if m.is_prefix(s):
            continue
        fam = 'ops' if s.table == 'opcodes' else s.table
        text = tr.tables[fam][s.index][1]
        mn = norm(text)
        where = '%s:%d' % (m.py.mod.relpath, s.line)
        d = bound_values(m, s)
        size_timing = {k: d.pop(k, None) for k in ('r_inc', 'timing', 'size')}
        if mn == '':
            # no instruction of its own: must be a no-op whose size/timing C07 fixes
            if s.handler != 'nop':
                ctx.violation(s.key(), where, 'opcode %s has no mnemonic (prefix/undefined) but is wired to %s' % (s.key(), s.handler))
            else:
                ctx.ok()
            continue
        eh, ed = expect(mn)
        if eh == 'UNKNOWN':
            ctx.limit(s.key(), 'no signature for mnemonic %r' % mn)
            continue
        problems = []
        if s.handler != eh:
            problems.append('handler %s, expected %s' % (s.handler, eh))
        else:
            for k, v in ed.items():
                if k.startswith('$'):
                    continue
                if d.get(k) != v:
                    problems.append('%s=%s, expected %s' % (k, d.get(k), v))
            if '$cc' in ed:
                cc = ed['$cc']
                try:
                    sense = taken_sense(m, s)
                except Unsupported as e:
                    sense = None
                if cc is None:
                    if sense:
                        problems.append('unconditional %s tests flags %s' % (mn, sorted(sense)))
                    if d.get('c_and') != 0:
                        problems.append('unconditional %s has c_and=%s' % (mn, d.get('c_and')))
                else:
                    want = {(CC[cc][0], CC[cc][1])}
                    if sense != want:
                        problems.append('condition %s: taken when (F & mask != 0) == %s, expected %s' % (cc, sorted(sense or []), sorted(want)))
            if '$rst' in ed:
                if d.get('addr') != (s.index & 0x38):
                    problems.append('RST target %s, opcode bits 3-5 say %d' % (d.get('addr'), s.index & 0x38))
        if problems:
            ctx.violation(s.key(), where, 'slot %s (%s): %s' % (s.key(), text, '; '.join(problems)))
        else:
            ctx.ok({'slot': s.key(), 'mnemonic': text, 'handler': s.handler, 'operands': {k: v for k, v in d.items()}})

def r_rule(ctx, m):
    ctx.rule('C05.2-R-M1', 'R increment == number of opcode fetches implied by the table position; contended pattern starts with that many 4-T fetches at PC, PC+1', floor=4 * 1100)
    seen = set()
    for s in m.slots():
        if m.is_prefix(s):
            continue
        for impl in simfacts.IMPLS:
            try:
                items = m.canon(impl, s)
            except Unsupported as e:
                ctx.limit('%s %s' % (s.key(), impl), str(e))
                continue
            summ = simfacts.summarize(items)
            if s.table == 'opcodes':
                want = 1
            elif s.table in ('after_CB', 'after_ED', 'after_DDCB', 'after_FDCB'):
                want = 2
            else:
                consts = {x for x in summ['pc'] if isinstance(x, int) and x != 0}
                fac, names, bound = m.py.bind('Simulator', s)
                size = bound.get('size', ('int', None))[1]
                if size is None:
                    size = min(consts) if consts else 2
                want = 2 if size >= 2 else 1
            name = '%s %s' % (s.key(), impl)
            if summ['r'] == {'other'} and s.table == 'after_ED' and s.index == 0x4F:
                ctx.ok({'slot': s.key(), 'note': 'LD R,A loads R'})
                continue
            if summ['r'] != {want}:
                ctx.violation(name, m.where(impl, s), 'R register advances by %s in %s, expected %d (number of M1 cycles)' % (sorted(map(str, summ['r'])), s.key(), want))
                continue
            if impl in ('cm', 'cc'):
                bad = None
                for p in m.raw_paths(impl, s):
                    evs = [e for e in p.events if e[0] == 'contend']
                    if not evs:
                        continue
                    pat = evs[0][2]
                    n = 0
                    for i, pe in enumerate(pat):
                        if pe[0] != 'pe' or post(pe[2]) != C(4):
                            break
                        a = post(pe[1])
                        d = simfacts._const_delta(a, 24)
                        if i == 0 and s.handler == 'halt':
                            d = 0      # a halted CPU re-fetches the byte after HALT: (pc + HALT flag, 4)
                        if d != i:
                            break
                        n += 1
                    if n != want:
                        bad = 'pattern %s starts with %d opcode-fetch cycles, expected %d' % ([show(post(x[1]))[:20] + ':' + show(post(x[2])) for x in pat[:3] if x[0] == 'pe'], n, want)
                if bad:
                    ctx.violation(name + ' M1', m.where(impl, s), bad)
                    continue
            ctx.ok({'slot': s.key(), 'impl': impl, 'R increment': want})

def sibling_rule(ctx, m):
    ctx.rule('C05.3-siblings', 'after_FD / after_FDCB are the IX->IY register-substitution images of after_DD / after_DDCB', floor=512)
    REGP = {'r', 'reg', 'r1', 'r2', 'rh', 'rl', 'ah', 'al', 'xyh', 'xyl', 'dest'}
    for a, b in (('after_DD', 'after_FD'), ('after_DDCB', 'after_FDCB')):
        for sa_, sb in zip(m.py.slots[a], m.py.slots[b]):
            if m.is_prefix(sa_) or m.is_prefix(sb):
                if sa_.handler != sb.handler:
                    ctx.violation(sb.key(), '%s:%d' % (m.py.mod.relpath, sb.line), 'prefix handling differs from %s' % sa_.key())
                else:
                    ctx.ok()
                continue
            fa, na, ba = m.py.bind('Simulator', sa_)
            fb, nb, bb = m.py.bind('Simulator', sb)
            ok = sa_.handler == sb.handler
            if ok:
                for n in na:
                    va, vb = ba[n], bb[n]
                    if n in REGP and va[0] == 'int' and va[1] in (8, 9):
                        ok = ok and vb == ('int', va[1] + 2)
                    else:
                        ok = ok and va == vb
            if not ok:
                ctx.violation(sb.key(), '%s:%d' % (m.py.mod.relpath, sb.line),
                              '%s is not the IY image of %s: %s%s vs %s%s' % (sb.key(), sa_.key(), sb.handler, [bb[n] for n in nb if bb[n][0] == 'int'], sa_.handler, [ba[n] for n in na if ba[n][0] == 'int']))
            else:
                ctx.ok({'pair': '%s ~ %s' % (sa_.key(), sb.key()), 'handler': sa_.handler})

def run(ctx):
    repo = pyfacts.Repo(ctx.repo_root)
    m = simfacts.SimModel(repo)
    tr = tabfacts.TraceTables(repo)
    signature_rule(ctx, m, tr)
    r_rule(ctx, m)
    sibling_rule(ctx, m)
    from sa.rules import C05tables
    C05tables.run(ctx, repo, m)
    from sa.rules import C05isa
    C05isa.run(ctx, m)
    from sa.rules.C06 import compare_slots
    ctx.rule('C05.4-agreement', 'the four implementations of every slot agree (a deviation of one body from the Z80 semantics is a deviation from its siblings)', floor=2200)
    compare_slots(ctx, m, (('py', 'cp'), ('cm', 'cc')), 'C05.4-agreement')
    from sa.rules import fastcopy
    fastcopy.run(ctx, repo, 'C05.9-fast-copy')
    return report.finish(ctx, EXPLANATION)
