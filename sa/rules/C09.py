"""C09 - snapshot files round-trip.  Decided by folding skoolkit's own writer and reader code on model states (C09round.py) and
decoding the written bytes with reference decoders written from the format specifications (snapref.py)."""
import ast
from sa.core import pyfacts, report
from sa.core.pyfacts import Lit, NotLiteral, FactError, ModuleFold

EXPLANATION = (
    "Decides, by compile-time evaluation (folding) of skoolkit's own code on model machine states - nothing is executed by the Python "
    "interpreter, the checker's evaluator walks the syntax tree of snapshot.py as it stands in the tree - that (C09.9) write_snapshot produces "
    "files which a decoder written from the Z80 v3 and ZX-State specifications reads back to exactly the registers, interrupt state, border, "
    "T-state position, paging/AY state and RAM that were written, and that skoolkit's own reader returns the same, for 48K, 128K and +2 and RAM "
    "images built from the input families the property names (ED runs of every length 1..600, long runs across the 255 boundary, ED next to "
    "runs, random); (C09.10) the Z80 run-length coder and decoder are inverse on every string over {ED,00,01} up to length 6 (quick) / 9 "
    "(thorough) in both block forms; (C09.11, C09.5) every value of the small state domains and T-state positions across the frame survive "
    "both formats on all machines; (C09.12) poke / move / patch specs change exactly the cells the reference semantics name, on 48K lists and "
    "128K banked memories, with and without page prefixes; (C09.7) slice reads up to the top of memory return every byte; (C09.6) every key "
    "exported by simutils.get_state is stored by each writer without narrowing (documented omissions: MEMPTR and fe in the Z80 format). "
    "Not decided: all RAM images and all register values (model inputs are sampled, the RLE alphabet is exhaustive only to the stated length), "
    "SNA input, option parsing of bin2sna/snapmod beyond the three edit functions.")

def branch_of(fn, var, key):
    """Body of the `if var == key` / `elif var == key` (or var.startswith(key)) branch in fn (var None: whatever the variable is called)."""
    for n in ast.walk(fn):
        if isinstance(n, ast.If):
            t = n.test
            for c in ([t] + (list(t.values) if isinstance(t, ast.BoolOp) else [])):
                if isinstance(c, ast.Compare) and isinstance(c.left, ast.Name) and (var is None or c.left.id == var) and len(c.ops) == 1 and isinstance(c.ops[0], ast.Eq) \
                   and isinstance(c.comparators[0], ast.Constant) and c.comparators[0].value == key:
                    return n.body
                if isinstance(c, ast.Call) and isinstance(c.func, ast.Attribute) and c.func.attr == 'startswith' and isinstance(c.func.value, ast.Name) \
                   and (var is None or c.func.value.id == var) and c.args and isinstance(c.args[0], ast.Constant) and c.args[0].value == key:
                    return n.body
    return None


def tstates_rule(ctx, repo, mod=None, sf=None):
    """C09.5 (shared with C10): T-state position in the frame through both formats, folded through the real constructors."""
    from sa.rules import C09round, snapref
    ctx.rule('C09.5-tstates', 'T-state position in the frame survives both formats (frame boundaries, quarter-frame boundaries, byte carries, values beyond one frame; every position in the thorough tier), all machines', floor=6)
    sf = sf or C09round.SnapFolder(repo)
    for ext in ('z80', 'szx'):
        for machine in ('48K', '128K', '+2'):
            frame = snapref.FRAME[machine]
            q = frame // 4
            ts = set(range(0, 12)) | set(range(frame - 12, frame)) | {frame, frame + 1, 2 * frame - 1, 300 * frame + 777, 2 ** 24 + 5096, 2 ** 24 * 3 + 70000, 10 ** 9 + 7, 2 ** 32 + 12345}
            for k in range(1, 4):
                ts |= set(range(k * q - 2, k * q + 3))
            ts |= set(range(0, frame, (1 if (ext, machine) == ('z80', '48K') else 17) if ctx.tier == 'thorough' else 4099))
            ts |= {255, 256, 257, 65535, 65536, 65537}
            C09round.domain_check(ctx, sf, ext, machine, 'tstates', sorted(ts))
    return sf

def slices_rule(ctx, repo):
    """C09.7: reading a slice that ends at the top of memory returns every byte (folded __getitem__ of each memory class)."""
    from sa.core.classfold import ClassFolder, Inst
    ctx.rule('C09.7-slices', 'slice reads of each memory class that reach the top of memory return all the bytes (folded __getitem__; open and explicit stops)', floor=3)
    roms = {'rom-a': [(3 * i + 1) % 241 for i in range(0x4000)], 'rom-b': [(5 * i + 2) % 239 for i in range(0x4000)]}
    def hook(n, lit):
        if isinstance(n, ast.Name) and n.id in ('ROM128', 'ROM_PLUS2', 'ROM48') and n.id not in lit.env:
            return ('rom-a', 'rom-b')
        if isinstance(n, ast.Call) and isinstance(n.func, ast.Name) and n.func.id == 'read_bin_file':
            return bytes(roms[lit.ev(n.args[0])])
        return None
    hook.override_names = ('ROM128', 'ROM_PLUS2', 'ROM48')
    for modname, cls, build in (('snapshot', 'Memory', 'banks'), ('pagingtracer', 'SliceableMemory', 'paged'), ('skoolutils', 'Memory', 'none')):
        m2 = repo.mod(modname)
        cf = ClassFolder(repo, modname, hook)
        where = '%s:%d' % (m2.relpath, m2.cls(cls).lineno)
        try:
            banks = [[(b * 16 + i) % 251 for i in range(0x4000)] for b in range(8)]
            if build == 'banks':
                mem = cf.new(cls, None, banks, 3)
                flat = [0] * 0x4000 + banks[5] + banks[2] + banks[3]
                cases = ((0xFFF0, 0x10000), (0xC000, 0x10000), (0xBFFE, 0xC002), (0x4000, 0x4003), (0xFFFF, 0x10000), (0x7FFF, 0x8001))
            elif build == 'paged':
                mem = cf.new(cls, banks, 3)
                flat = roms['rom-a'] + banks[5] + banks[2] + banks[3]
                cases = ((0xFFF0, 0x10000), (0xC000, 0x10000), (0xBFFE, 0xC002), (0x3FFE, 0x4003), (0xFFFF, 0x10000), (0x7FFF, 0x8001))
            else:
                mem = cf.new(cls)
                for a in range(0xFF00, 0x10000):
                    mem[a] = a % 199
                flat = [0] * 0xFF00 + [a % 199 for a in range(0xFF00, 0x10000)]
                for a in range(0x3FF0, 0x4000):
                    flat[a] = mem[a]
                cases = ((0xFFF0, 0x10000), (0xFFFE, None), (0xFFFF, 0x10000), (0xFF00, None), (0x3FFE, 0x4002))
            bad = None
            n = 0
            for lo, hi in cases:
                got = mem[lo:hi]
                want_n = (hi if hi is not None else 0x10000) - lo
                want = flat[lo:hi]
                ok = list(got) == want
                n += 1
                if not ok:
                    bad = (lo, hi, len(got), want_n)
                    break
        except NotLiteral as e:
            ctx.limit('%s.%s.__getitem__' % (modname, cls), 'not foldable: %s' % e)
            continue
        except (KeyError, IndexError, ValueError, TypeError, AttributeError) as e:
            ctx.violation('%s.%s.__getitem__' % (modname, cls), where, 'slice read fails with %s: %s' % (type(e).__name__, e))
            continue
        if bad:
            ctx.violation('%s.%s.__getitem__' % (modname, cls), where, 'reading [%s:%s] returns %d bytes, not the %d stored there: the last byte(s) of memory are lost' % (hex(bad[0]), hex(bad[1]) if bad[1] else '', bad[2], bad[3]))
        else:
            ctx.ok({'class': '%s.%s' % (modname, cls), 'slices': n})

def misc_rules(ctx, repo, mod=None):
    """Rules shared with C20 (RZX playback reads and writes snapshots): RLE pair and slices."""
    from sa.rules import C09round
    sf = C09round.SnapFolder(repo)
    C09round.rle_rule(ctx, repo, sf)
    slices_rule(ctx, repo)
    return sf

def export_rule(ctx, repo, mod):
    ctx.rule('C09.6-export', 'every key exported by simutils.get_state is stored by both writers (documented omissions: Z80 memptr, fe) and exported without narrowing', floor=20)
    from sa.rules.C10 import get_state_facts
    su, gs, consts, exported = get_state_facts(repo)
    keys = [(k if not k.startswith('ay[') else 'ay[{}]', v[4], v[3]) for k, v in exported.items()]
    keys = sorted(set(keys), key=lambda x: x[0])
    if len(keys) < 20:
        raise FactError('skoolkit/simutils.py: get_state exports only %d keys' % len(keys))
    zregs = Lit(repo, 'snapshot').ev(mod.assigns['Z80_REGISTERS'][-1])
    sregs = Lit(repo, 'snapshot').ev(mod.assigns['SZX_REGISTERS'][-1])
    z_state = mod.method('Z80', '_set_state')
    s_state = [mod.method('SZX', f) for f in ('_add_zxstz80regs', '_add_zxstspecregs', '_add_zxstayblock')]
    ZOMIT = {'memptr', 'fe'}
    for key, exact, line in keys:
        k = key.lower()
        kk = 'ay[' if k.startswith('ay[') else k
        where = 'skoolkit/simutils.py:%d' % line
        in_z = k in zregs or branch_of(z_state, None, kk) is not None
        in_s = k in sregs or any(branch_of(f, None, kk) is not None for f in s_state)
        problems = []
        if not in_s:
            problems.append('SZX writer has no field for it')
        if not in_z and k not in ZOMIT:
            problems.append('Z80 writer has no field for it')
        # narrowing: folded on values with all bits set (and a clock beyond 2^40) the exported number must be the simulator's
        if not exact:
            problems.append('the exported value is narrowed: with every register byte 255 and the wide slots at 2^40+ the key does not carry the full value')
        if problems:
            ctx.violation('get_state ' + key, where, 'state key %s: %s' % (key, '; '.join(problems)))
        else:
            ctx.ok({'key': key})

def run(ctx):
    repo = pyfacts.Repo(ctx.repo_root)
    mod = repo.mod('snapshot')
    from sa.rules import C09round
    sf = C09round.roundtrip_rule(ctx, repo)
    C09round.rle_rule(ctx, repo, sf)
    C09round.codecs_rule(ctx, repo, sf)
    tstates_rule(ctx, repo, mod, sf)
    C09round.edits_rule(ctx, repo, sf)
    slices_rule(ctx, repo)
    export_rule(ctx, repo, mod)
    return report.finish(ctx, EXPLANATION)
