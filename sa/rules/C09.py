"""C09 - snapshot files round-trip (field-layout agreement between the writers and readers of snapshot.py)."""
import ast
from sa.core import pyfacts, report
from sa.core.pyfacts import Lit, NotLiteral, FactError, ModuleFold

EXPLANATION = (
    "Decides that writer and reader agree on where every field lives and how it is encoded, from the source of snapshot.py: for each register "
    "and state key the set of header/block offsets the writer stores equals the set the reader loads (Z80 v1/v3 header, SZX Z80R/SPCR/AY "
    "blocks); every encoder/decoder pair of one-line formulas (border bits, R bit 7, interrupt mode bits, the Z80 T-state quarter coding, the "
    "SZX T-state dword) is folded over its whole finite domain and must be inverse; T-state values of any size keep their position in the "
    "frame through both formats and all three machines; block-length words equal the bytes emitted after them; the bank layout written for "
    "48K equals the one the reader assumes; the slice clamp of each Memory class equals the size of its mapping; the run-length coder flushes "
    "a pending run under the same condition inside and after the loop; every key exported by simutils.get_state is stored by each writer "
    "(documented omissions: MEMPTR and fe in the Z80 format) without narrowing. Not decided: the RLE coder/decoder pair on arbitrary data, zlib, "
    "bin2sna/snapmod option semantics, agreement with the external format specifications beyond the offsets written in the code.")

REG_ATTR = {'a': 'a', 'f': 'f', 'bc': 'bc', 'de': 'de', 'hl': 'hl', 'sp': 'sp', 'i': 'i', 'r': 'r', 'ix': 'ix', 'iy': 'iy', 'pc': 'pc',
            '^a': 'a2', '^f': 'f2', '^bc': 'bc2', '^de': 'de2', '^hl': 'hl2', 'memptr': 'memptr'}
HALF = {'c': ('bc', 0), 'b': ('bc', 1), 'e': ('de', 0), 'd': ('de', 1), 'l': ('hl', 0), 'h': ('hl', 1),
        '^c': ('^bc', 0), '^b': ('^bc', 1), '^e': ('^de', 0), '^d': ('^de', 1), '^l': ('^hl', 0), '^h': ('^hl', 1)}

def reader_offsets(fn, base_names):
    """attr -> sorted offsets read, for assignments `self.attr = <expr over base[k] / get_word(base, k) / get_dword(base, k)>`."""
    out = {}
    for n in ast.walk(fn):
        if isinstance(n, ast.Assign) and len(n.targets) == 1 and isinstance(n.targets[0], ast.Attribute) and isinstance(n.targets[0].value, ast.Name) \
           and n.targets[0].value.id == 'self':
            offs = set()
            for x in ast.walk(n.value):
                if isinstance(x, ast.Subscript) and ast.unparse(x.value) in base_names:
                    if isinstance(x.slice, ast.Constant):
                        offs.add(x.slice.value)
                    elif isinstance(x.slice, ast.Slice) and isinstance(x.slice.lower, ast.Constant) and isinstance(x.slice.upper, ast.Constant):
                        offs.update(range(x.slice.lower.value, x.slice.upper.value))
                elif isinstance(x, ast.Call) and isinstance(x.func, ast.Name) and x.func.id in ('get_word', 'get_dword') and len(x.args) == 2 \
                        and ast.unparse(x.args[0]) in base_names and isinstance(x.args[1], ast.Constant):
                    w = 2 if x.func.id == 'get_word' else 4
                    offs.update(range(x.args[1].value, x.args[1].value + w))
            if offs:
                out.setdefault(n.targets[0].attr, (sorted(offs), n))
    return out

def branch_of(fn, var, key):
    """Body of the `if var == key` / `elif var == key` (or var.startswith(key)) branch in fn."""
    for n in ast.walk(fn):
        if isinstance(n, ast.If):
            t = n.test
            for c in ([t] + (list(t.values) if isinstance(t, ast.BoolOp) else [])):
                if isinstance(c, ast.Compare) and isinstance(c.left, ast.Name) and c.left.id == var and len(c.ops) == 1 and isinstance(c.ops[0], ast.Eq) \
                   and isinstance(c.comparators[0], ast.Constant) and c.comparators[0].value == key:
                    return n.body
                if isinstance(c, ast.Call) and isinstance(c.func, ast.Attribute) and c.func.attr == 'startswith' and isinstance(c.func.value, ast.Name) \
                   and c.func.value.id == var and c.args and isinstance(c.args[0], ast.Constant) and c.args[0].value == key:
                    return n.body
    return None

def written_offsets(body, base_names):
    offs = set()
    for st in body:
        for n in ast.walk(st):
            tgs = []
            if isinstance(n, ast.Assign):
                tgs = n.targets
            elif isinstance(n, ast.AugAssign):
                tgs = [n.target]
            for tg in tgs:
                if isinstance(tg, ast.Subscript) and ast.unparse(tg.value) in base_names:
                    s = tg.slice
                    if isinstance(s, ast.Constant):
                        offs.add(s.value)
                    elif isinstance(s, ast.Slice) and isinstance(s.lower, ast.Constant) and isinstance(s.upper, ast.Constant):
                        offs.update(range(s.lower.value, s.upper.value))
                    elif isinstance(s, ast.BinOp) and isinstance(s.op, ast.Add) and isinstance(s.left, ast.Constant):
                        offs.add(('base+', s.left.value))
    return offs

class Fold:
    """Evaluate writer branch then reader expressions on a concrete header/block."""
    def __init__(self, repo):
        self.repo = repo

    def opq(self, objs, val):
        def f(n):
            if isinstance(n, ast.Attribute) and isinstance(n.value, ast.Name) and n.value.id == 'self' and n.attr in objs:
                return objs[n.attr]
            if isinstance(n, ast.Call) and isinstance(n.func, ast.Name) and n.func.id == 'get_int_param':
                return val
            if isinstance(n, ast.Call) and isinstance(n.func, ast.Name) and n.func.id in ('get_word', 'get_dword'):
                l = Lit(self.repo, 'snapshot', self.env, f)
                data = l.ev(n.args[0]); i = l.ev(n.args[1])
                w = 2 if n.func.id == 'get_word' else 4
                return sum(data[i + k] << (8 * k) for k in range(w))
            return None
        return f

    def write(self, body, objs, val, env=None):
        self.env = dict(env or {})
        mf = ModuleFold(self.repo, 'snapshot', self.env, self.opq(objs, val))
        mf.exec(body)
        self.env = mf.env

    def read(self, expr, objs, env=None):
        self.env = dict(env or {})
        return Lit(self.repo, 'snapshot', self.env, self.opq(objs, None)).ev(expr)

def z80_rules(ctx, repo, mod):
    ctx.rule('C09.1-z80-layout', 'Z80 format: offsets stored by _set_registers/_set_state == offsets loaded by Z80._read; encodings inverse (folded)', floor=30)
    cls = 'Z80'
    rd = mod.method(cls, '_read')
    ws = mod.method(cls, '_set_state')
    wr = mod.method(cls, '_set_registers')
    regs = Lit(repo, 'snapshot').ev(mod.assigns['Z80_REGISTERS'][-1])
    ro = reader_offsets(rd, ('self.header',))
    where = 'skoolkit/snapshot.py'
    for key, off in sorted(regs.items()):
        if key in HALF:
            full, d = HALF[key]
            if regs.get(full) is None or regs[full] + d != off:
                ctx.violation('Z80_REGISTERS[%r]' % key, where, '8-bit register %s is stored at offset %d, but %s is at %s' % (key, off, full, regs.get(full)))
            else:
                ctx.ok({'key': key, 'offset': off})
            continue
        attr = REG_ATTR.get(key)
        if attr is None or attr not in ro:
            ctx.violation('Z80_REGISTERS[%r]' % key, where, 'no reader attribute found for register key %s' % key)
            continue
        width = 1 if key in ('a', 'f', 'i', 'r', '^a', '^f') else 2
        want = list(range(off, off + width))
        got = ro[attr][0]
        if key == 'r':
            want = [11, 12]
        if key == 'pc':
            # v1 files keep PC at 6, v2/v3 at 32: the reader must load both, the writer chooses by the same test
            got = sorted(set(got))
            want = [off, off + 1]
            rs = [n for n in ast.walk(rd) if isinstance(n, ast.Assign) and isinstance(n.targets[0], ast.Attribute) and n.targets[0].attr == 'pc']
            offs = sorted(o for a in rs for x in ast.walk(a.value) if isinstance(x, ast.Call) and ast.unparse(x.func) == 'get_word' for o in [x.args[1].value])
            src = ast.unparse(wr)
            if offs != [6, off] or 'offset = 6' not in src:
                ctx.violation('Z80 pc', where, 'PC is read from offsets %s; writer uses 6 (v1) and %d' % (offs, off))
            else:
                ctx.ok({'key': 'pc', 'offsets': offs})
            continue
        if got != want:
            ctx.violation('Z80_REGISTERS[%r]' % key, '%s:%d' % (where, ro[attr][1].lineno), 'register %s is written at offsets %s but read from %s' % (key, want, got))
        else:
            ctx.ok({'key': key, 'offsets': want})
    # state keys
    STATE = {'iff': ['iff1', 'iff2'], 'im': ['im'], 'border': ['border'], '7ffd': ['out7ffd'], 'fffd': ['outfffd'], 'tstates': ['tstates'], 'ay[': ['ay']}
    for key, attrs in STATE.items():
        body = branch_of(ws, 'name', key)
        if body is None:
            ctx.violation('Z80 state ' + key, where, 'Z80._set_state has no branch for %r' % key)
            continue
        w = written_offsets(body, ('self.header',))
        if key == 'ay[':
            w = set(range(39, 55)) if ('base+', 39) in w else w
        r = set()
        for a in attrs:
            if a == 'tstates':
                # computed through locals (t1, t2) inside the version-3 block: collect the header offsets that block reads
                for n in ast.walk(rd):
                    if isinstance(n, ast.If) and any(isinstance(x, ast.Assign) and isinstance(x.targets[0], ast.Attribute) and x.targets[0].attr == 'tstates' for x in n.body):
                        for x in n.body:
                            if isinstance(x, ast.Assign) and any(isinstance(t, ast.Name) and t.id.startswith('t') for t in x.targets):
                                for y in ast.walk(x.value):
                                    if isinstance(y, ast.Subscript) and ast.unparse(y.value) == 'self.header' and isinstance(y.slice, ast.Constant):
                                        r.add(y.slice.value)
            elif a not in ro:
                ctx.violation('Z80 state ' + key, where, 'Z80._read does not load %s' % a)
            else:
                r.update(ro[a][0])
        if w != r:
            ctx.violation('Z80 state ' + key, '%s:%d' % (where, body[0].lineno), 'state %s is written at offsets %s but read from %s' % (key, sorted(map(str, w)), sorted(r)))
        else:
            ctx.ok({'state': key, 'offsets': sorted(w)})
    # encodings: fold writer then reader
    f = Fold(repo)
    def rexpr(attr):
        return ro[attr][1].value
    def header(n=87, machine=4):
        h = [0] * n
        if n > 34:
            h[34] = machine
            h[30] = n - 32
        return h
    # border / im / iff / R (with arbitrary other bits in the shared bytes)
    for key, attr, dom, pre in (('border', 'border', range(8), (12,)), ('im', 'im', range(3), (29,)), ('iff', 'iff1', range(2), ())):
        bad = None
        body = branch_of(ws, 'name', key)
        for v in dom:
            for other in (0, 0xFF, 0xA5, 0x5A):
                h = header()
                for p in pre:
                    h[p] = other
                f.write(body, {'header': h}, v)
                got = f.read(rexpr(attr), {'header': h})
                if got != v:
                    bad = (v, other, got)
        if bad:
            ctx.violation('Z80 codec ' + key, where, '%s=%d written over byte value 0x%02X reads back as %s' % (key, bad[0], bad[1], bad[2]))
        else:
            ctx.ok({'codec': key, 'domain': len(dom)})
    # R register: _set_registers
    rbody = None
    for n in ast.walk(wr):
        if isinstance(n, ast.If) and ast.unparse(n.test) == 'offset >= 0':
            rbody = [s for s in n.body if not isinstance(s, ast.Try)]
            trys = [s for s in n.body if isinstance(s, ast.Try)]
    bad = None
    if rbody is None:
        raise FactError('skoolkit/snapshot.py: Z80._set_registers shape not recognised')
    for v in range(256):
        for other in (0, 0xFF):
            h = header()
            h[12] = other
            f.write(trys + rbody, {'header': h}, v, {'reg': 'r', 'size': 1, 'offset': regs['r'], 'val': str(v)})
            got = f.read(rexpr('r'), {'header': h})
            b12 = h[12]
            if got != v or (b12 & 0xFE) != (other & 0xFE):
                bad = (v, other, got)
    if bad:
        ctx.violation('Z80 codec r', where, 'R=%d written over byte 12 = 0x%02X reads back as %s (or disturbs the other bits)' % bad)
    else:
        ctx.ok({'codec': 'r', 'domain': 256})
    return ro, ws

def tstates_rule(ctx, repo, mod):
    ctx.rule('C09.5-tstates', 'T-state position in the frame survives both formats for every T (0 .. frame-1 exhaustively, plus large values), all machines', floor=5)
    f = Fold(repo)
    where = 'skoolkit/snapshot.py'
    frames = Lit(repo, 'snapshot').ev(ast.parse('FRAME_DURATIONS').body[0].value)
    big = [frames[1] * 300 + 777, 2 ** 24 + 5096, 2 ** 24 * 3 + 70000, 10 ** 9 + 7, 2 ** 32 + 12345]
    # Z80 v3
    z = 'Z80'
    ro = reader_offsets(mod.method(z, '_read'), ('self.header',))
    wbody = branch_of(mod.method(z, '_set_state'), 'name', 'tstates')
    rd = mod.method(z, '_read')
    # reader statements computing tstates: the `if i > 55:` block
    rblock = None
    for n in ast.walk(rd):
        if isinstance(n, ast.If) and any(isinstance(s, ast.Assign) and isinstance(s.targets[0], ast.Attribute) and s.targets[0].attr == 'tstates' for s in n.body):
            rblock = [s for s in n.body if isinstance(s, ast.Assign) and not (isinstance(s.targets[0], ast.Name) and s.targets[0].id.startswith('m'))]
    if wbody is None or rblock is None:
        raise FactError('skoolkit/snapshot.py: Z80 tstates writer/reader not recognised')
    for machine, frame in ((0, frames[0]), (4, frames[1]), (12, frames[1])):
        bad = None
        for t in list(range(frame)) + big:
            h = [0] * 87
            h[34] = machine
            f.write(wbody, {'header': h}, t)
            tracker = {}
            class Obj: pass
            env = {}
            mf = ModuleFold(repo, 'snapshot', env, f.opq({'header': h}, None))
            # self.tstates = ... is an attribute store: capture through a Name
            stmts = []
            for s in rblock:
                if isinstance(s.targets[0], ast.Attribute):
                    s2 = ast.Assign(targets=[ast.Name(id='__tstates', ctx=ast.Store())], value=s.value, lineno=s.lineno)
                    stmts.append(s2)
                else:
                    stmts.append(s)
            mf.exec(stmts)
            got = mf.env.get('__tstates')
            if got is None or got % frame != t % frame:
                bad = (t, got)
                break
        if bad:
            ctx.violation('Z80 tstates machine %d' % machine, where, 'Z80 format: T=%d is read back as %s; position in the %d-T frame is lost' % (bad[0], bad[1], frame))
        else:
            ctx.ok({'format': 'z80', 'machine id': machine, 'values': frame + len(big)})
    # SZX
    s = 'SZX'
    wfn = mod.method(s, '_add_zxstz80regs')
    wbody = branch_of(wfn, 'name', 'tstates')
    rro = reader_offsets(mod.method(s, '_read'), ('block',))
    if wbody is None or 'tstates' not in rro:
        raise FactError('skoolkit/snapshot.py: SZX tstates writer/reader not recognised')
    for mid, frame in ((1, frames[0]), (2, frames[1]), (3, frames[1])):
        bad = None
        step = 1 if ctx.tier == 'thorough' else 7
        for t in list(range(0, frame, step)) + [frame - 1] + big:
            block = [0] * 37
            hdr = [ord(c) for c in 'ZXST'] + [1, 4, mid, 0]
            f.write(wbody, {'header': hdr}, t, {'z80r': block})
            got = f.read(rro['tstates'][1].value, {}, {'block': block})
            if got % frame != t % frame:
                bad = (t, got)
                break
        if bad:
            ctx.violation('SZX tstates machine %d' % mid, where, 'SZX format (machine id %d): T=%d is read back as %s; position in the %d-T frame is lost' % (mid, bad[0], bad[1], frame))
        else:
            ctx.ok({'format': 'szx', 'machine id': mid})

def szx_rules(ctx, repo, mod):
    ctx.rule('C09.2-szx-layout', 'SZX format: offsets stored by _add_zxst* == offsets loaded by SZX._read (Z80R, SPCR, AY blocks)', floor=30)
    where = 'skoolkit/snapshot.py'
    regs = Lit(repo, 'snapshot').ev(mod.assigns['SZX_REGISTERS'][-1])
    rd = mod.method('SZX', '_read')
    ro = reader_offsets(rd, ('block',))
    for key, off in sorted(regs.items()):
        if key in HALF:
            full, d = HALF[key]
            if regs.get(full) is None or regs[full] + d != off:
                ctx.violation('SZX_REGISTERS[%r]' % key, where, '8-bit register %s is stored at offset %d, but %s is at %s' % (key, off, full, regs.get(full)))
            else:
                ctx.ok({'key': key, 'offset': off})
            continue
        attr = REG_ATTR.get(key)
        if attr is None or attr not in ro:
            ctx.violation('SZX_REGISTERS[%r]' % key, where, 'SZX._read loads no attribute for register key %s' % key)
            continue
        width = 1 if key in ('a', 'f', 'i', 'r', '^a', '^f') else 2
        want = list(range(off, off + width))
        if ro[attr][0] != want:
            ctx.violation('SZX_REGISTERS[%r]' % key, '%s:%d' % (where, ro[attr][1].lineno), 'register %s is written at offsets %s but read from %s' % (key, want, ro[attr][0]))
        else:
            ctx.ok({'key': key, 'offsets': want})
    STATE = [('_add_zxstz80regs', 'z80r', {'iff': ['iff1', 'iff2'], 'im': ['im'], 'tstates': ['tstates']}),
             ('_add_zxstspecregs', 'spcr', {'border': ['border'], '7ffd': ['out7ffd'], 'fe': ['outfe']}),
             ('_add_zxstayblock', 'ay', {'fffd': ['outfffd'], 'ay[': ['ay']})]
    for fname, var, keys in STATE:
        fn = mod.method('SZX', fname)
        for key, attrs in keys.items():
            body = branch_of(fn, 'name', key)
            if body is None:
                ctx.violation('SZX state ' + key, where, 'SZX.%s has no branch for %r' % (fname, key))
                continue
            w = written_offsets(body, (var,))
            if key == 'ay[':
                w = set(range(2, 18)) if ('base+', 2) in w else w
            r = set()
            for a in attrs:
                if a in ro:
                    r.update(ro[a][0])
            if key == 'tstates':
                ok = w and w <= r and min(w) == min(r)
            else:
                ok = w == r
            if not ok:
                ctx.violation('SZX state ' + key, '%s:%d' % (where, body[0].lineno), 'state %s is written at block offsets %s but read from %s' % (key, sorted(map(str, w)), sorted(r)))
            else:
                ctx.ok({'state': key, 'block': var, 'offsets': sorted(w)})
    # block lengths
    ctx.rule('C09.3-lengths', 'length words equal the bytes that follow (SZX blocks, RAMP pages, Z80 v3 RAM blocks)', floor=3)
    fn = mod.method('SZX', '_get_zxstrampage')
    size_k = None
    after = 0
    seen_size = False
    payload = None
    for st in fn.body:
        if isinstance(st, ast.Assign) and isinstance(st.targets[0], ast.Name) and st.targets[0].id == 'size':
            v = st.value
            if isinstance(v, ast.BinOp) and isinstance(v.op, ast.Add) and isinstance(v.right, ast.Constant) and ast.unparse(v.left).startswith('len('):
                size_k = v.right.value
                payload = ast.unparse(v.left)[4:-1]
        if isinstance(st, ast.Expr) and isinstance(st.value, ast.Call) and isinstance(st.value.func, ast.Attribute) and st.value.func.attr == 'extend':
            a = st.value.args[0]
            if isinstance(a, ast.Tuple) and any('size' in ast.unparse(e) for e in a.elts):
                seen_size = True
                if len(a.elts) != 4:
                    ctx.violation('SZX RAMP length word', where, 'RAMP block size is emitted in %d bytes, the format uses 4' % len(a.elts))
            elif seen_size and isinstance(a, ast.Tuple):
                after += len(a.elts)
    if size_k is None or not seen_size:
        raise FactError('skoolkit/snapshot.py: SZX._get_zxstrampage shape not recognised')
    if size_k != after:
        ctx.violation('SZX RAMP size', '%s:%d' % (where, fn.lineno), 'RAMP size = len(%s) + %d but %d bytes are emitted between the size word and the page data' % (payload, size_k, after))
    else:
        ctx.ok({'block': 'RAMP', 'size': 'len(%s) + %d' % (payload, size_k)})
    # reader side of RAMP: flags at +8, page at +10, data from +11 = 8 + 3
    src = ast.unparse(rd)
    if 'data[i + 10]' in src and 'data[i + 11:i + 8 + block_len]' in src and 'data[i + 8] % 2' in src and size_k == 3:
        ctx.ok({'block': 'RAMP reader', 'page at': 'i+10', 'data at': 'i+11'})
    else:
        ctx.violation('SZX RAMP reader', where, 'reader offsets of the RAMP block (flags i+8, page i+10, data i+11) do not match a 3-byte page header')
    fn = mod.method('SZX', 'data')
    src = ast.unparse(fn)
    if 'size = len(block_data)' in src and 'szx.extend(block_data)' in src and src.index('size % 256') < src.index('szx.extend(block_data)'):
        ctx.ok({'block': 'generic', 'size': 'len(block_data)'})
    else:
        ctx.violation('SZX block size', where, 'SZX.data() no longer emits len(block_data) before block_data')
    fn = mod.method('Z80', '_make_z80_ram_block')
    ret = [n for n in ast.walk(fn) if isinstance(n, ast.Return) and 'page' in ast.unparse(n)][-1]
    src = ast.unparse(ret)
    if src.replace(' ', '') == 'returnbytes([length%256,length//256,page]+block)' and 'length = len(block)' in ast.unparse(fn):
        ctx.ok({'block': 'Z80 v3 RAM block', 'length': 'len(block)'})
    else:
        ctx.violation('Z80 RAM block length', '%s:%d' % (where, ret.lineno), 'v3 RAM block header is %s, expected length word of len(block) then page' % src)

def misc_rules(ctx, repo, mod):
    where = 'skoolkit/snapshot.py'
    ctx.rule('C09.4-banks', '48K bank layout: writer set_ram places RAM where the reader Memory maps it (Z80 v1 5,2,0; v3 5,1,2; SZX 5,2,0)', floor=3)
    mem = mod.method('Memory', '__init__')
    msrc = ast.unparse(mem)
    def banks_assigned(fn, cond_true):
        out = []
        for n in ast.walk(fn):
            if isinstance(n, ast.Assign) and isinstance(n.targets[0], ast.Subscript) and ast.unparse(n.targets[0].value) == 'banks' \
               and isinstance(n.targets[0].slice, ast.Constant):
                out.append((n.targets[0].slice.value, ast.unparse(n.value), n.lineno))
        return out
    z = banks_assigned(mod.method('Z80', 'set_ram'), None)
    s = banks_assigned(mod.method('SZX', 'set_ram'), None)
    want_szx = {(5, 'ram[0:16384]'), (2, 'ram[16384:32768]'), (0, 'ram[32768:49152]')}
    got = {(b, e) for b, e, l in s}
    if got != want_szx:
        ctx.violation('SZX.set_ram', where, '48K RAM is split into banks %s, reader maps 5,2,0' % sorted(got))
    else:
        ctx.ok({'writer': 'SZX.set_ram', 'banks': '5,2,0'})
    gz = {(b, e) for b, e, l in z}
    want_z = {(5, 'ram[0:16384]'), (2, 'ram[16384:32768]'), (0, 'ram[32768:49152]'), (1, 'ram[16384:32768]'), (2, 'ram[32768:49152]')}
    if gz != want_z:
        ctx.violation('Z80.set_ram', where, '48K RAM bank assignment %s differs from v1 (5,2,0) / v3 (5,1,2)' % sorted(gz))
    else:
        ctx.ok({'writer': 'Z80.set_ram', 'banks': 'v1 5,2,0; v3 5,1,2'})
    if '[[0] * 16384, self.banks[5], self.banks[1], self.banks[2]]' in msrc and '[[0] * 16384, self.banks[5], self.banks[2], self.banks[page]]' in msrc:
        ctx.ok({'reader': 'Memory.__init__', 'z80 48K': '5,1,2', 'paged': '5,2,page'})
    else:
        ctx.violation('snapshot.Memory.__init__', where, 'reader bank mapping no longer 5,1,2 (Z80 48K) / 5,2,page')
    # version-1 reader banks
    rsrc = ast.unparse(mod.method('Z80', '_read'))
    if all(x in rsrc for x in ('banks[5] = ram[0:16384]', 'banks[2] = ram[16384:32768]', 'banks[0] = ram[32768:49152]')) and \
       'ram = self.memory.banks[5] + self.memory.banks[2] + self.memory.banks[0]' in ast.unparse(mod.method('Z80', 'data')):
        ctx.ok({'format': 'Z80 v1', 'banks': '5,2,0 both ways'})
    else:
        ctx.violation('Z80 v1 banks', where, 'version 1 RAM order differs between Z80.data() and Z80._read()')
    ctx.rule('C09.7-slices', 'slice reads of each Memory class are clamped at the size of its mapping (4 x 0x4000)', floor=3)
    for modname, cls in (('snapshot', 'Memory'), ('pagingtracer', 'SliceableMemory')):
        m2 = repo.mod(modname)
        fn = m2.method(cls, '__getitem__')
        ks = []
        for n in ast.walk(fn):
            if isinstance(n, ast.Call) and isinstance(n.func, ast.Name) and n.func.id == 'min' and len(n.args) == 2 and 'stop' in ast.unparse(n.args[0]):
                try:
                    ks.append(Lit(repo, modname).ev(n.args[1]))
                except NotLiteral:
                    ks.append(None)
        if ks != [0x10000]:
            ctx.violation('%s.%s.__getitem__' % (modname, cls), '%s:%d' % (m2.relpath, fn.lineno), 'slice stop is clamped at %s, mapping covers 0x10000 addresses: the last byte is lost' % ks)
        else:
            ctx.ok({'class': '%s.%s' % (modname, cls), 'clamp': 0x10000})
    su = repo.mod('skoolutils')
    try:
        istop = Lit(repo, 'skoolutils').ev(su.assigns['INDEX_STOP'][-1])
        if istop != {None: 0x10000}:
            ctx.violation('skoolutils.INDEX_STOP', su.relpath, 'open slice stop maps to %s, expected 0x10000' % istop)
        else:
            ctx.ok({'class': 'skoolutils.Memory', 'open stop': 0x10000})
    except (KeyError, NotLiteral):
        raise FactError('skoolkit/skoolutils.py: INDEX_STOP not found')
    ctx.rule('C09.8-rle-flush', 'Z80 run-length coder: a pending run is flushed under the same condition inside the loop and at the end of data', floor=1)
    fn = mod.method('Z80', '_make_z80_ram_block')
    loop = [s for s in fn.body if isinstance(s, ast.For)]
    conds_in, conds_out = [], []
    def flush_conds(stmts, out):
        for s in stmts:
            if isinstance(s, ast.If) and any('237, 237, count' in ast.unparse(x) for x in s.body):
                out.append(ast.unparse(s.test))
            elif isinstance(s, ast.If):
                flush_conds(s.body, out); flush_conds(s.orelse, out)
    if len(loop) != 1:
        raise FactError('skoolkit/snapshot.py: _make_z80_ram_block shape not recognised')
    flush_conds(loop[0].body, conds_in)
    flush_conds([s for s in fn.body if s is not loop[0]], conds_out)
    if len(conds_in) != 1 or len(conds_out) != 1:
        raise FactError('skoolkit/snapshot.py: run flush sites not recognised (%d in loop, %d after)' % (len(conds_in), len(conds_out)))
    if conds_in[0] != conds_out[0]:
        ctx.violation('Z80 RLE flush', '%s:%d' % (where, fn.lineno), 'run is encoded when `%s` inside the loop but when `%s` at the end of the data: a trailing run of ED bytes is emitted literally and cannot be read back' % (conds_in[0], conds_out[0]))
    else:
        ctx.ok({'flush condition': conds_in[0]})

def export_rule(ctx, repo, mod):
    ctx.rule('C09.6-export', 'every key exported by simutils.get_state is stored by both writers (documented omissions: Z80 memptr, fe) and exported without narrowing', floor=20)
    su = repo.mod('simutils')
    gs = su.func('get_state')
    keys = []
    for n in ast.walk(gs):
        if isinstance(n, ast.JoinedStr):
            text = ''
            exprs = []
            for v in n.values:
                if isinstance(v, ast.Constant):
                    text += v.value
                else:
                    text += '{}'
                    exprs.append(v.value)
            if '=' in text:
                keys.append((text.split('=')[0], exprs[-1], n.lineno))
    if len(keys) < 20:
        raise FactError('skoolkit/simutils.py: get_state exports only %d keys' % len(keys))
    zregs = Lit(repo, 'snapshot').ev(mod.assigns['Z80_REGISTERS'][-1])
    sregs = Lit(repo, 'snapshot').ev(mod.assigns['SZX_REGISTERS'][-1])
    z_state = mod.method('Z80', '_set_state')
    s_state = [mod.method('SZX', f) for f in ('_add_zxstz80regs', '_add_zxstspecregs', '_add_zxstayblock')]
    ZOMIT = {'memptr', 'fe'}
    for key, expr, line in keys:
        k = key.lower()
        kk = 'ay[' if k.startswith('ay[') else k
        where = 'skoolkit/simutils.py:%d' % line
        in_z = k in zregs or branch_of(z_state, 'name', kk) is not None
        in_s = k in sregs or any(branch_of(f, 'name', kk) is not None for f in s_state)
        problems = []
        if not in_s:
            problems.append('SZX writer has no field for it')
        if not in_z and k not in ZOMIT:
            problems.append('Z80 writer has no field for it')
        # narrowing: the exported expression must not mask/reduce the simulator value
        for x in ast.walk(expr):
            if isinstance(x, ast.BinOp) and isinstance(x.op, (ast.BitAnd, ast.Mod, ast.RShift, ast.FloorDiv)) and k not in ('border',):
                problems.append('exported value is narrowed by `%s`' % ast.unparse(x))
        if problems:
            ctx.violation('get_state ' + key, where, 'state key %s: %s' % (key, '; '.join(problems)))
        else:
            ctx.ok({'key': key, 'expr': ast.unparse(expr)[:60]})

def run(ctx):
    repo = pyfacts.Repo(ctx.repo_root)
    mod = repo.mod('snapshot')
    z80_rules(ctx, repo, mod)
    szx_rules(ctx, repo, mod)
    tstates_rule(ctx, repo, mod)
    misc_rules(ctx, repo, mod)
    export_rule(ctx, repo, mod)
    return report.finish(ctx, EXPLANATION)
