"""Interrupt acceptance in the Python simulation loops, decided by folding the loop body on a small frame.

Definition (what the Z80 and the C loops do): after every instruction, a maskable interrupt is accepted iff IFF is set and
the clock is inside the interrupt window, T mod frame < int length.  The Python loops keep a `next interrupt` variable
instead of taking the modulus; the rule explores every reachable (clock, next-interrupt) pair of each loop on a model
frame (frame 40, interrupt 8, instruction times 1..7 - shorter than the window, as on the real machine where the longest
instruction is shorter than the 32 T-state window) and requires that accept_interrupt() is called exactly when the
definition says so, whatever accept_interrupt() returns."""
import ast
from sa.core import pyfacts
from sa.core.pyfacts import FactError
from sa.rules.C10 import _NextIntFold, _Unknown, _text, NEXT_INT_VARS, _CLOCK

FD, IA, MAXGAP = 40, 8, 7

class _Stop(Exception):
    pass

class LoopFold(_NextIntFold):
    """Forking evaluation: states are dicts; '$calls' counts accept_interrupt() calls made in the current step."""
    def is_accept(self, call):
        f = call.func
        return (isinstance(f, ast.Attribute) and f.attr == 'accept_interrupt') or (isinstance(f, ast.Name) and f.id == 'accept_interrupt')

    def truth(self, e, env):
        """-> list of (bool, env) outcomes.  Unknown plain operands are taken as true (flags such as `interrupts`, `draw`)."""
        if isinstance(e, ast.BoolOp):
            outs = [(isinstance(e.op, ast.And), env)]
            for v in e.values:
                nxt = []
                for val, en in outs:
                    if val != isinstance(e.op, ast.And):
                        nxt.append((val, en))          # short-circuited
                    else:
                        nxt.extend(self.truth(v, en))
                outs = nxt
            return outs
        if isinstance(e, ast.UnaryOp) and isinstance(e.op, ast.Not):
            return [(not v, en) for v, en in self.truth(e.operand, env)]
        if isinstance(e, ast.Call):
            if self.is_accept(e):
                en = dict(env)
                en['$calls'] = en.get('$calls', 0) + 1
                return [(True, en), (False, dict(en))]
            return [(True, env)]
        try:
            return [(bool(self.ev(e, env)), env)]
        except _Unknown:
            return [(True, env)]

    def leaf(self, text, env):
        if text in env:
            return env[text]
        if text.endswith('registers[26]') or text.endswith('registers[IFF]'):
            return env['$iff']
        return super().leaf(text, env)

    def run(self, stmts, env):
        """-> list of (env, status) with status 'next' | 'break'"""
        states = [(env, 'next')]
        for st in stmts:
            nxt = []
            for en, status in states:
                if status != 'next':
                    nxt.append((en, status))
                else:
                    nxt.extend(self.step(st, en))
            # merge identical states
            seen, states = set(), []
            for en, status in nxt:
                key = (status, tuple(sorted((k, v) for k, v in en.items() if isinstance(v, int))))
                if key not in seen:
                    seen.add(key)
                    states.append((en, status))
        return states

    def step(self, st, env):
        if isinstance(st, ast.If):
            out = []
            for val, en in self.truth(st.test, env):
                out.extend(self.run(st.body if val else st.orelse, dict(en)))
            return out
        if isinstance(st, (ast.Break, ast.Return)):
            return [(env, 'break')]
        if isinstance(st, ast.Continue):
            return [(env, 'break')]
        if isinstance(st, ast.Expr):
            n = sum(1 for x in ast.walk(st) if isinstance(x, ast.Call) and self.is_accept(x))
            if n:
                env = dict(env)
                env['$calls'] = env.get('$calls', 0) + n
            return [(env, 'next')]
        if isinstance(st, (ast.Assign, ast.AugAssign)):
            n = sum(1 for x in ast.walk(st) if isinstance(x, ast.Call) and self.is_accept(x))
            env = dict(env)
            if n:
                env['$calls'] = env.get('$calls', 0) + n
            self.stmt(st, env)
            for k in [k for k in env if k.startswith('$pending:')]:
                env.pop(k)
            return [(env, 'next')]
        if isinstance(st, (ast.While, ast.For)):
            env = dict(env)
            self.kill(env, [w for w in self.written([st]) if not w.endswith(_CLOCK)])
            return [(env, 'next')]
        if isinstance(st, (ast.With, ast.Try)):
            return self.run(st.body, env)
        return [(env, 'next')]

    def fresh(self):
        return self.clock_now

def loops(repo):
    """(module, function, while-node, prefix statements up to the last one containing accept_interrupt())"""
    out = []
    for mod in repo.all_modules():
        if mod.name == 'rzxplay':
            continue          # RZX playback takes interrupts where the recording says a frame ends, not from the clock
        for fn in ast.walk(mod.tree):
            if not isinstance(fn, ast.FunctionDef):
                continue
            for w in ast.walk(fn):
                if isinstance(w, ast.While):
                    idx = [i for i, st in enumerate(w.body) if any(isinstance(x, ast.Call) and LoopFold.is_accept(None, x) for x in ast.walk(st))]
                    if idx:
                        out.append((mod, fn, w, w.body[:idx[-1] + 1]))
    return out

def ref_next(T):
    m = (T // FD) * FD
    return m if T < m + IA else m + FD

def run(ctx, repo, rule_id, floor=5):
    ctx.rule(rule_id, 'every Python simulation loop calls accept_interrupt() after an instruction iff IFF is set and T mod frame < int length (all reachable clock / next-interrupt pairs of a model frame, any return value of accept_interrupt)', floor=floor)
    found = loops(repo)
    if len(found) < 5:
        raise FactError('expected at least 5 Python simulation loops that accept interrupts, found %d' % len(found))
    for mod, fn, w, prefix in found:
        name = '%s.%s' % (mod.name, fn.name)
        where = '%s:%d' % (mod.relpath, w.lineno)
        bad = None
        explored = 0
        for iff in (1, 0):
            # initial states: the function's own start-up code at every clock of the first frame
            frontier = []
            seen = set()
            for T0 in range(0, FD):
                f = LoopFold(T0, FD, IA)
                f.clock_now = T0
                env = {'$clock': T0, '$iff': iff}
                # statements of the function before the loop (in whatever block the loop sits): fold the whole function up to the loop
                pre = _prefix_before(fn, w)
                for st in pre:
                    try:
                        f.stmt(st, env)
                    except _Unknown:
                        pass
                carried = {k: v for k, v in env.items() if isinstance(v, int) and not k.startswith('$')}
                key = (T0, tuple(sorted(carried.items())))
                if key not in seen:
                    seen.add(key)
                    frontier.append((T0, carried))
            while frontier and not bad:
                T, carried = frontier.pop()
                for gap in range(1, MAXGAP + 1):
                    T2 = T + gap
                    if T2 >= 3 * FD + IA + 2:
                        continue
                    f = LoopFold(T2, FD, IA)
                    f.clock_now = T2
                    env = dict(carried)
                    # the clock and every local copy of it read inside the loop body are the new time
                    env.update({'$clock': T2, '$iff': iff, '$calls': 0})
                    for k in list(env):
                        if k in ('tstates', 't0'):
                            env.pop(k)
                    outs = f.run(prefix, env)
                    explored += 1
                    want = 1 if (iff and T2 % FD < IA) else 0
                    for en, status in outs:
                        got = en.get('$calls', 0)
                        if got != want:
                            bad = (T, T2, iff, {k: v for k, v in carried.items() if k in NEXT_INT_VARS}, got, want)
                            break
                        c2 = {k: v for k, v in en.items() if isinstance(v, int) and not k.startswith('$')}
                        key = (T2, tuple(sorted(c2.items())))
                        if key not in seen:
                            seen.add(key)
                            frontier.append((T2, c2))
                    if bad:
                        break
            if bad:
                break
        if bad:
            ctx.violation('interrupt window %s' % name, where, 'loop of %s (model frame %d, interrupt %d): after the instruction ending at T=%d (previous one ended at T=%d, IFF=%d, next-interrupt state %s) accept_interrupt() is called %d time(s); the definition IFF and T mod frame < int gives %d' %
                          (name, FD, IA, bad[1], bad[0], bad[2], bad[3], bad[4], bad[5]))
        else:
            ctx.ok({'loop': name, 'states explored': explored})

def _prefix_before(fn, loop):
    """Statements executed before `loop` on the path from the function entry: for each enclosing block, the statements that precede the
    one containing the loop."""
    out = []
    def find(body):
        for i, st in enumerate(body):
            if st is loop:
                out.extend(body[:i])
                return True
            for sub in ('body', 'orelse', 'finalbody'):
                b = getattr(st, sub, None)
                if isinstance(b, list) and b and isinstance(b[0], ast.stmt):
                    mark = len(out)
                    out.extend(body[:i])
                    if find(b):
                        return True
                    del out[mark:]
        return False
    find(fn.body)
    return out

def c_conditions(ctx, repo, rule_id, floor=4):
    """C loops that take the modulus directly: the condition guarding accept_interrupt() must be IFF && T % frame < int (and `interrupts` where
    the loop has that flag).  The C load loop keeps a next-interrupt variable like the Python one; its recomputation sites are C10.4."""
    from sa.core import cfacts as cf
    ctx.rule(rule_id, 'C simulation loops: the condition guarding accept_interrupt() is IFF && (T % frame_duration) < int_active (evaluated over frame positions)', floor=floor)
    facts = cf.load(repo.root)
    u = cf.CUnit(facts['plain'])
    sites = []
    def has_accept(n):
        if n.get('kind') == 'CallExpr':
            c = cf.strip(n['inner'][0])
            if c.get('kind') == 'DeclRefExpr' and c.get('ref') == 'accept_interrupt':
                return True
        return any(has_accept(c) for c in n.get('inner', []))
    def scan(n, fname):
        if n.get('kind') == 'IfStmt' and len(n.get('inner', [])) >= 2:
            cond, then = n['inner'][0], n['inner'][1]
            if has_accept(then) and not any(c.get('kind') == 'IfStmt' and has_accept(c) for c in _descend(then)):
                sites.append((fname, n, cond))
        for c in n.get('inner', []):
            scan(c, fname)
    def _descend(n):
        for c in n.get('inner', []):
            yield c
            yield from _descend(c)
    for name, fn in u.funcs.items():
        if name != 'accept_interrupt':
            scan(fn, name)
    class Unk(Exception):
        pass
    def ev(n, T, fd, ia, iff):
        n = cf.strip(n)
        k = n.get('kind')
        if k == 'IntegerLiteral':
            return int(n['value'])
        if k in ('MemberExpr', 'DeclRefExpr'):
            nm = n.get('name') or n.get('ref')
            if nm == 'frame_duration': return fd
            if nm == 'int_active': return ia
            if nm == 'interrupts': return 1
            if nm == 'tstates': return T
            raise Unk(nm)
        if k == 'ArraySubscriptExpr':
            b, i = cf.strip(n['inner'][0]), cf.strip(n['inner'][1])
            if b.get('kind') == 'DeclRefExpr' and b.get('ref') == 'reg':
                idx = int(i['value']) if i.get('kind') == 'IntegerLiteral' else {'T': 25, 'IFF': 26}.get(i.get('ref'))
                if idx == 25: return T
                if idx == 26: return iff
            raise Unk('subscript')
        if k == 'BinaryOperator':
            op = n['opcode']
            a = ev(n['inner'][0], T, fd, ia, iff)
            if op == '&&':
                return int(bool(a) and bool(ev(n['inner'][1], T, fd, ia, iff)))
            if op == '||':
                return int(bool(a) or bool(ev(n['inner'][1], T, fd, ia, iff)))
            b = ev(n['inner'][1], T, fd, ia, iff)
            f = {'+': lambda: a + b, '-': lambda: a - b, '*': lambda: a * b, '/': lambda: a // b if b else 0, '%': lambda: a % b if b else 0,
                 '<': lambda: int(a < b), '<=': lambda: int(a <= b), '>': lambda: int(a > b), '>=': lambda: int(a >= b), '==': lambda: int(a == b), '!=': lambda: int(a != b),
                 '&': lambda: a & b, '|': lambda: a | b}.get(op)
            if f is None:
                raise Unk(op)
            return f()
        if k == 'UnaryOperator' and n.get('opcode') == '!':
            return int(not ev(n['inner'][0], T, fd, ia, iff))
        raise Unk(k)
    def has_mod(n):
        return (n.get('kind') == 'BinaryOperator' and n.get('opcode') == '%') or any(has_mod(c) for c in n.get('inner', []))
    for fname, n, cond in sites:
        where = 'c/csimulator.c:%d (%s)' % (n.get('line', 0), fname)
        bad = None
        if not has_mod(cond):
            ctx.ok({'site': where, 'form': 'next-interrupt variable form (decided by C10.4 for its recomputation sites)'})
            continue
        try:
            for fd, ia in ((69888, 32), (70908, 36)):
                for base in (0, fd, 7 * fd):
                    for d in list(range(0, 80)) + list(range(fd - 40, fd)):
                        for iff in (0, 1):
                            T = base + d
                            got = bool(ev(cond, T, fd, ia, iff))
                            want = bool(iff and T % fd < ia)
                            if got != want and bad is None:
                                bad = (T, fd, ia, iff, got, want)
        except Unk as e:
            # a condition over other state (the next-interrupt variable of the load loop, or `if (REG(IFF))` nested in it)
            ctx.ok({'site': where, 'form': 'not the modulus form (%s): decided by C10.4 / the enclosing test' % e})
            continue
        if bad:
            ctx.violation('C interrupt condition %s' % fname, where, 'at T=%d (frame %d, int %d, IFF=%d) the condition guarding accept_interrupt() is %s; the definition gives %s' % bad)
        else:
            ctx.ok({'site': where, 'form': 'IFF && T % frame < int'})
