"""C12 - bin2tap -> tap2sna (loader byte-layout consistency)."""
import ast
from sa.core import pyfacts, tabfacts, report
from sa.core.pyfacts import ModFolder, Lit, NotLiteral, FactError
from sa.rules.C11 import FakeFile
from sa.rules.C07operands import DisFolder

EXPLANATION = (
    "Decides that the tape bin2tap builds is internally consistent, by folding bin2tap.run (a pure list builder) for every combination of its "
    "structural options (CLEAR or not, loading screen or not, 128K banks or not, TAP or PZX) and checking the emitted bytes: every block has "
    "flag/parity framing and each header's length word equals the block that follows; the BASIC line length equals the bytes after it and the "
    "tokens are LOAD \"\"CODE ... RANDOMIZE USR VAL \"start\"; the machine-code loaders are decoded with the (statically extracted) disassembler "
    "tables and must be exactly LD IX,org / LD DE,length / SCF / SBC A,A / LD SP,stack / LD BC,start / PUSH BC / JP $0556 at the address the "
    "header advertises (23296 - len); in the 128K bank loader LD HL points at the first byte after the code, JR lands on LOOP, JP NZ goes to "
    "START, CALL is $0556 and the table is the sorted banks + end marker; the four stack bytes (SA/LD-RET, START) are planted wherever the "
    "data block overlaps [STACK-4, STACK), for every overlap position; the ROM entry $0556 is the address the load tracers intercept. "
    "Not decided: that the loaders work when executed (simulation).")

LD_BYTES = 0x0556

def split_tap(out):
    blocks = []
    i = 0
    while i < len(out):
        n = out[i] + 256 * out[i + 1]
        blocks.append(list(out[i + 2:i + 2 + n]))
        i += 2 + n
    return blocks, i

def parity_ok(b):
    p = 0
    for x in b:
        p ^= x
    return p == 0

def header_fields(b):
    return {'type': b[1], 'title': bytes(b[2:12]), 'length': b[12] + 256 * b[13], 'p1': b[14] + 256 * b[15], 'p2': b[16] + 256 * b[17]}

def decode_code(df, code, address):
    mem = [0] * 65536
    mem[address:address + len(code)] = code
    out = []
    a = address
    while a < address + len(code):
        r = df.decode(mem, a)
        if r[0] == 'DEFB':
            out.append((a, 'DEFB', r[1]))
            a += r[1]
        else:
            out.append((a, r[0], r[1]))
            a += r[1]
    return out

def run(ctx):
    repo = pyfacts.Repo(ctx.repo_root)
    dis = tabfacts.DisTables(repo)
    df = DisFolder(repo, dis, dis.tables(()))
    files = []
    def gh(n, lit):
        if isinstance(n, ast.Call) and isinstance(n.func, ast.Name) and n.func.id == 'open':
            ff = FakeFile()
            files.append(ff)
            return ff
        if isinstance(n, ast.Call) and ast.unparse(n.func) == 'os.path.basename':
            return lit.ev(n.args[0]).split('/')[-1]
        return None
    b2t = ModFolder(repo, 'bin2tap', global_hook=gh)
    ctx.rule('C12.1-framing', 'every block: flag + payload + XOR parity; each header length word == following block length; header kinds and parameters', floor=8)
    ctx.rule('C12.2-basic', 'BASIC loader: line length word == bytes after it; program length in header == program bytes; tokens and quoted addresses', floor=6)
    ctx.rule('C12.3-code-loader', '48K code loader decodes to LD IX,org/LD DE,len/SCF/SBC A,A/LD SP,stack/LD BC,start/PUSH BC/JP $0556 at 23296 - len', floor=2)
    ctx.rule('C12.4-bank-loader', '128K bank loader: LD HL,table == first byte after the code; JR -> LOOP; JP NZ -> START; CALL $0556; table == sorted banks + end marker', floor=2)
    ctx.rule('C12.5-stack-prefill', 'SA/LD-RET and START are planted in the data block wherever it overlaps [STACK-4, STACK) (every overlap position)', floor=20)
    ram = [(i * 5 + 1) & 0xFF for i in range(40)]
    org, start = 40000, 40013
    scr_full = [(i * 3) & 0xFF for i in range(6912)]
    where = 'skoolkit/bin2tap.py'
    for clear in (None, 39999):
        for scr in (None, scr_full):
            for banks in (None, {3: [7] * 16384, 1: [9] * 16384}):
                if banks is not None and clear is None:
                    continue
                stack = org + 200
                name = 'clear=%s scr=%s banks=%s' % (clear, bool(scr), sorted(banks) if banks else None)
                files.clear()
                try:
                    b2t.call('run', [list(ram), clear, org, start, stack, 'prog.tap', scr, banks, 0x17 if banks else None, 32768 if banks else None])
                except NotLiteral as e:
                    raise FactError('skoolkit/bin2tap.py: run() not foldable: %s' % e)
                out = bytes(files[0].data)
                blocks, end = split_tap(out)
                problems = []
                if end != len(out):
                    problems.append('length words do not tile the file')
                for i, b in enumerate(blocks):
                    if not parity_ok(b):
                        problems.append('block %d parity' % i)
                # header/data pairing
                i = 0
                kinds = []
                while i + 1 < len(blocks):
                    h, d = blocks[i], blocks[i + 1]
                    if h[0] != 0 or len(h) != 19:
                        break            # headerless blocks follow (loaded by the machine-code loaders)
                    if d[0] != 255:
                        problems.append('blocks %d/%d are not a header/data pair' % (i, i + 1))
                        break
                    hf = header_fields(h)
                    if hf['length'] != len(d) - 2:
                        problems.append('header %d advertises %d bytes, block has %d' % (i, hf['length'], len(d) - 2))
                    kinds.append((hf, d[1:-1]))
                    i += 2
                if problems:
                    ctx.violation('framing ' + name, where, '; '.join(problems[:3]), rule='C12.1-framing')
                    continue
                ctx.ok({'config': name, 'blocks': len(blocks)}, rule='C12.1-framing')
                # BASIC
                hf, prog = kinds[0]
                bp = []
                if hf['type'] != 0 or hf['p1'] != 10 or hf['p2'] != len(prog):
                    bp.append('BASIC header (type %d, autostart line %d, program length %d vs %d)' % (hf['type'], hf['p1'], hf['p2'], len(prog)))
                if prog[:2] != [0, 10] or prog[2] + 256 * prog[3] != len(prog) - 4 or prog[-1] != 13:
                    bp.append('line 10 length word %d, line body %d bytes' % (prog[2] + 256 * prog[3], len(prog) - 4))
                text = bytes(prog[4:-1])
                usr = start if banks is None else 32768
                want_end = bytes([239, 34, 34, 175, 58, 249, 192, 176]) + ('"%d"' % (usr if clear is not None else 23296)).encode()
                if not text.endswith(want_end):
                    bp.append('line does not end with LOAD ""CODE: RANDOMIZE USR VAL "%d"' % (usr if clear is not None else 23296))
                if clear is not None and not text.startswith(bytes([253, 176]) + ('"%d"' % clear).encode() + b':'):
                    bp.append('line does not start with CLEAR VAL "%d":' % clear)
                nload = text.count(bytes([239, 34, 34]))
                want_loads = 1 + (1 if (scr and clear is not None) else 0) + (1 if banks is not None else 0)
                if nload != want_loads:
                    bp.append('%d LOAD statements, %d blocks to load before the jump' % (nload, want_loads))
                if bp:
                    ctx.violation('basic ' + name, where + ' (_get_basic_loader)', '; '.join(bp), rule='C12.2-basic')
                else:
                    ctx.ok({'config': name, 'line length': len(prog) - 4}, rule='C12.2-basic')
                # code loader (48K, no CLEAR)
                if clear is None:
                    hf, code = kinds[1]
                    n_scr = 6912 if scr else 0
                    cp = []
                    if hf['type'] != 3 or hf['p1'] != 23296 - n_scr:
                        cp.append('code header type %d start %d, expected CODE at %d' % (hf['type'], hf['p1'], 23296 - n_scr))
                    if scr and code[:6912] != scr_full:
                        cp.append('screen bytes are not the first 6912 bytes of the loader block')
                    ins = decode_code(df, code[n_scr:], 23296)
                    want = ['LD IX,%d' % org, 'LD DE,%d' % len(ram), 'SCF', 'SBC A,A', 'LD SP,%d' % stack, 'LD BC,%d' % start, 'PUSH BC', 'JP %d' % LD_BYTES]
                    got = [t for a, t, l in ins]
                    if got != want:
                        cp.append('loader code is %s, expected %s' % (got, want))
                    if cp:
                        ctx.violation('code loader ' + name, where + ' (_get_data_loader)', '; '.join(cp), rule='C12.3-code-loader')
                    else:
                        ctx.ok({'config': name, 'address': 23296 - n_scr, 'code': got}, rule='C12.3-code-loader')
                    if blocks[2 * len(kinds):] != [[255] + ram + [blocks[-1][-1]]] or len(kinds) != 2:
                        ctx.violation('data ' + name, where, 'the headerless main block does not follow the code loader', rule='C12.1-framing')
                else:
                    k = 1
                    if scr:
                        shf, sdata = kinds[1]
                        if shf['type'] != 3 or shf['p1'] != 16384 or sdata != scr_full:
                            ctx.violation('screen ' + name, where, 'loading screen block is not CODE 16384,6912 with the screen bytes', rule='C12.1-framing')
                        k = 2
                    data_hf, data = kinds[k]
                    if data_hf['type'] != 3 or data_hf['p1'] != org or data != ram:
                        ctx.violation('data ' + name, where, 'main data block is not CODE %d with the binary' % org, rule='C12.1-framing')
                    else:
                        ctx.ok({'config': name, 'data block': 'CODE %d,%d' % (org, len(ram))}, rule='C12.1-framing')
                    if banks is not None:
                        lhf, lcode = kinds[k + 1]
                        la = 32768
                        bp = []
                        if lhf['type'] != 3 or lhf['p1'] != la:
                            bp.append('bank loader header start %d, expected %d' % (lhf['p1'], la))
                        ntab = len(banks) + 1
                        ins = decode_code(df, lcode[:-ntab], la)
                        texts = [t for a, t, l in ins]
                        addr = {t: a for a, t, l in ins}
                        code_len = len(lcode) - ntab
                        want0 = 'LD HL,%d' % (la + code_len)
                        if not texts or texts[0] != want0:
                            bp.append('first instruction %s, the table starts at %d' % (texts[:1], la + code_len))
                        loop = ins[1][0] if len(ins) > 1 else None
                        if len(ins) < 2 or ins[1][1] != 'LD BC,32765':
                            bp.append('LOOP is not LD BC,$7FFD')
                        if texts[-1] != 'JR %d' % (loop or -1):
                            bp.append('final %s does not jump to LOOP at %s' % (texts[-1], loop))
                        if 'JP NZ,%d' % start not in texts:
                            bp.append('no JP NZ,%d to the start address' % start)
                        if 'CALL %d' % LD_BYTES not in texts:
                            bp.append('no CALL $0556 (LD-BYTES)')
                        for need in ('LD IX,49152', 'LD DE,16384', 'OUT (C),A', 'BIT 7,(HL)', 'AND 63', 'LD (23388),A'):
                            if need not in texts:
                                bp.append('missing %s' % need)
                        if any(t == 'DEFB' for t in texts):
                            bp.append('loader code does not decode cleanly')
                        table = lcode[-ntab:]
                        if table != [x + 0x10 for x in sorted(banks)] + [0x80 | 0x17]:
                            bp.append('bank table %s, expected %s' % (table, [x + 0x10 for x in sorted(banks)] + [0x80 | 0x17]))
                        bank_blocks = blocks[2 * len(kinds):]
                        if [bb[1:-1] for bb in bank_blocks] != [banks[x] for x in sorted(banks)]:
                            bp.append('bank data blocks are not the banks in table order')
                        if bp:
                            ctx.violation('bank loader ' + name, where + ' (_get_bank_loader)', '; '.join(bp[:4]), rule='C12.4-bank-loader')
                        else:
                            ctx.ok({'config': name, 'table address': la + code_len, 'loop': loop}, rule='C12.4-bank-loader')
    # stack pre-fill for every overlap position
    length = len(ram)
    for delta in range(-2, length + 7):
        stack = org + delta
        if stack < 16384 + 4:
            continue
        files.clear()
        b2t.call('run', [list(ram), None, org, start, stack, 'p.tap', None, None, None, None])
        blocks, end = split_tap(bytes(files[0].data))
        data = blocks[-1][1:-1]
        want = list(ram)
        for k, byte in enumerate((1343 % 256, 1343 // 256, start % 256, start // 256)):
            a = stack - 4 + k - org
            if 0 <= a < length:
                want[a] = byte
        if data != want:
            diff = [i for i in range(length) if data[i] != want[i]]
            ctx.violation('stack at org%+d' % delta, where + ' (run)', 'STACK = ORG%+d: the data block should carry SA/LD-RET and START at offsets %s; bytes at offsets %s are wrong (the loader\'s own return addresses get overwritten while loading)' %
                          (delta, [stack - 4 + k - org for k in range(4) if 0 <= stack - 4 + k - org < length], diff), rule='C12.5-stack-prefill')
        else:
            ctx.ok({'stack': 'org%+d' % delta}, rule='C12.5-stack-prefill')
    # the ROM entry point
    ctx.rule('C12.6-rom-entry', 'the LD-BYTES entry the loaders jump to ($0556) is the address the load tracers intercept (Python and C)', floor=2)
    lt = repo.mod('loadtracer')
    def is_entry_test(n):
        return isinstance(n, ast.Compare) and len(n.ops) == 1 and isinstance(n.ops[0], ast.Eq) and \
            any(isinstance(x, ast.Constant) and x.value == 0x0556 for x in [n.left] + list(n.comparators))
    if any(is_entry_test(n) for n in ast.walk(lt.tree)):
        ctx.ok({'site': 'loadtracer: <pc> == 0x0556'})
    else:
        ctx.violation('loadtracer entry', 'skoolkit/loadtracer.py', 'no comparison of the program counter with $0556 (LD-BYTES) is left in the load tracer: the fast-load trigger moved')
    from sa.core import cfacts
    facts = cfacts.load(repo.root)
    def c_has(n):
        if n.get('kind') == 'BinaryOperator' and n.get('opcode') == '==':
            def lits(x):
                x = cfacts.strip(x)
                if x.get('kind') == 'IntegerLiteral':
                    return [int(x['value'])]
                return [v for y in x.get('inner', []) for v in lits(y)]
            if 0x0556 in lits(n):
                return True
        return any(c_has(c) for c in n.get('inner', []))
    u = cfacts.CUnit(facts['plain'])
    if any(c_has(fn) for fn in u.funcs.values()):
        ctx.ok({'site': 'csimulator.c: <pc> == 0x0556'})
    else:
        ctx.violation('C entry', 'c/csimulator.c', 'no comparison with 0x0556 (LD-BYTES) is left in the C load loop: the fast-load trigger moved')
    from sa.rules.C13 import narrowing_rule
    narrowing_rule(ctx, repo)     # shared: the C fast-load path must not narrow 64-bit tape clocks
    from sa.rules import memo
    memo.run_for(ctx, repo, 'C12')
    sysvars_rule(ctx, repo)
    return report.finish(ctx, EXPLANATION)

def sysvars_rule(ctx, repo):
    """C12.7: the system variables tap2sna seeds the simulated 48K machine with are the ones the ROM's initialisation (START/NEW at 0x11CB-0x12A1
    in the ROM disassembly) leaves: the values are tied to each other by that routine, so a swapped or shifted row breaks a relation."""
    ctx.rule('C12.7-sysvars', 'tap2sna.SYSVARS (the 48K system variables before LOAD): the values and relations the ROM initialisation routine establishes (P-RAMT, UDG, RAMTOP, ERR-SP, CHARS, CHANS, channel table, PROG, VARS, E-LINE, WORKSP, STKBOT, STKEND, DATADD, initial streams, screen addresses, colours)', floor=20)
    sv = repo.const('tap2sna', 'SYSVARS')
    if not isinstance(sv, tuple) or len(sv) < 203:
        raise report.AnalysisError('tap2sna.SYSVARS not found as a tuple of at least 203 bytes')
    m = repo.mod('tap2sna')
    src = m.src
    if 'memory[0x5C00:0x5C00 + len(SYSVARS)] = SYSVARS' not in src.replace('23552', '0x5C00'):
        ctx.limit('sysvars base', 'the place where SYSVARS is copied to 0x5C00 is not recognised')
    def b(a): return sv[a - 23552]
    def w(a): return sv[a - 23552] + 256 * sv[a - 23551]
    P_RAMT, UDG, RAMTOP, ERR_SP = w(23732), w(23675), w(23730), w(23613)
    CHANS, PROG, VARS, E_LINE, WORKSP, STKBOT, STKEND, DATADD, CURCHL = w(23631), w(23635), w(23627), w(23641), w(23649), w(23651), w(23653), w(23639), w(23633)
    checks = [
        ('P-RAMT', P_RAMT == 0xFFFF, 'P-RAMT (23732) is %d; a 48K machine has its last RAM byte at 65535' % P_RAMT),
        ('UDG', UDG == P_RAMT - 167, 'UDG (23675) is %d; the ROM puts the 21 user-defined graphics in the last 168 bytes below P-RAMT (%d)' % (UDG, P_RAMT - 167)),
        ('RAMTOP', RAMTOP == UDG - 1, 'RAMTOP (23730) is %d; the ROM sets it to the byte before the user-defined graphics (%d)' % (RAMTOP, UDG - 1)),
        ('ERR-SP', ERR_SP == RAMTOP - 3, 'ERR-SP (23613) is %d; the ROM leaves it 3 below RAMTOP (%d)' % (ERR_SP, RAMTOP - 3)),
        ('CHARS', w(23606) == 0x3C00, 'CHARS (23606) is %d; the ROM character set minus 256 is at 15360' % w(23606)),
        ('CHANS', CHANS == 23734, 'CHANS (23631) is %d; without Interface 1 the channel table starts right after the system variables, at 23734' % CHANS),
        ('CURCHL', CURCHL == CHANS, 'CURCHL (23633) is %d, CHANS %d' % (CURCHL, CHANS)),
        ('channel table', tuple(sv[CHANS - 23552:CHANS - 23552 + 21]) == (0xF4, 0x09, 0xA8, 0x10, 0x4B, 0xF4, 0x09, 0xC4, 0x15, 0x53, 0x81, 0x0F, 0xC4, 0x15, 0x52, 0xF4, 0x09, 0xC4, 0x15, 0x50, 0x80),
         'the 21 bytes at CHANS are %s; the ROM copies K/S/R/P channel records F4 09 A8 10 4B / F4 09 C4 15 53 / 81 0F C4 15 52 / F4 09 C4 15 50 / 80' % (list(sv[CHANS - 23552:CHANS - 23552 + 21]),)),
        ('PROG', PROG == CHANS + 21, 'PROG (23635) is %d; the program area starts after the 21-byte channel table (%d)' % (PROG, CHANS + 21)),
        ('VARS', VARS == PROG, 'VARS (23627) is %d; with no program it equals PROG (%d)' % (VARS, PROG)),
        ('DATADD', DATADD == PROG - 1, 'DATADD (23639) is %d; the ROM sets it to PROG-1 (%d)' % (DATADD, PROG - 1)),
        ('E-LINE', E_LINE == VARS + 1, 'E-LINE (23641) is %d; it follows the end marker of the empty variables area (%d)' % (E_LINE, VARS + 1)),
        ('WORKSP', WORKSP == E_LINE + 2, 'WORKSP (23649) is %d; the empty edit line takes two bytes after E-LINE (%d)' % (WORKSP, E_LINE + 2)),
        ('STKBOT', STKBOT == WORKSP and STKEND == WORKSP, 'STKBOT / STKEND (23651 / 23653) are %d / %d; the empty calculator stack starts at WORKSP (%d)' % (STKBOT, STKEND, WORKSP)),
        ('streams', tuple(sv[23568 - 23552:23568 - 23552 + 14]) == (1, 0, 6, 0, 11, 0, 1, 0, 1, 0, 6, 0, 16, 0), 'the initial stream table at 23568 is %s; the ROM copies 01 00 06 00 0B 00 01 00 01 00 06 00 10 00' % (list(sv[16:30]),)),
        ('colours', b(23693) == b(23695) == b(23624) == 0x38, 'ATTR-P / ATTR-T / BORDCR are %d / %d / %d; the ROM sets black ink on white paper, 56' % (b(23693), b(23695), b(23624))),
        ('DF-SZ', b(23659) == 2, 'DF-SZ (23659) is %d; the lower screen has 2 lines' % b(23659)),
        ('DF-CC', w(23684) == 0x4000, 'DF-CC (23684) is %d; the print position is the top left of the display file, 16384' % w(23684)),
        ('PR-CC', w(23680) == 0x5B00, 'PR-CC (23680) is %d; the printer buffer is at 23296' % w(23680)),
        ('RASP / REPDEL / REPPER', (b(23608), b(23561), b(23562)) == (64, 35, 5), 'RASP / REPDEL / REPPER are %s; the ROM sets 64 / 35 / 5' % ((b(23608), b(23561), b(23562)),)),
    ]
    for name, ok, msg in checks:
        if ok:
            ctx.ok({'sysvar': name})
        else:
            ctx.violation('sysvar ' + name, 'skoolkit/tap2sna.py (SYSVARS)', msg)
