"""C14 - sna2ctl output (decoder agreement and bounded block markers only)."""
import ast
from sa.core import pyfacts, tabfacts, report
from sa.core.pyfacts import FactError

EXPLANATION = (
    "Decides the clauses of the property that are visible in the shape of the code: (1) the control-file generator's decoder (opcodes.py) and "
    "the skool-file disassembler assign the same size to every one of the 7x256 opcode sequences, including the DD/FD fall-backs, and truncate "
    "at the top of memory under the same condition (so sub-block directives and block boundaries fall on sna2skool's instruction boundaries); "
    "(2) RST arguments are sized identically on both sides (handler called with the instruction address, length = sum of the sub-lengths, "
    "sub-block placed at instruction end minus that length); (3) a block marker whose address is computed as address + length is written "
    "only under a test that it lies before END. Not decided: termination of the fix-point loops, exact tiling, code-map containment "
    "(data-dependent).")

def run(ctx):
    repo = pyfacts.Repo(ctx.repo_root)
    dis = tabfacts.DisTables(repo)
    tr = None
    oc = tabfacts.OpcodeTables(repo)
    ctx.rule('C14.1-sizes', 'opcodes.py size == disassembler length for every opcode sequence (tables and fall-backs)', floor=1786)
    full = dis.decode_all(tuple(dis.all_options))
    base = dis.decode_all(())
    PFXN = {'ops': '', 'after_CB': 'CB', 'after_ED': 'ED', 'after_DD': 'DD', 'after_FD': 'FD', 'after_DDCB': 'DDCB..', 'after_FDCB': 'FDCB..'}
    for (fam, b), d in sorted(base.items()):
        if d['kind'] == 'prefix':
            continue
        name = '%s%02X' % (PFXN[fam], b)
        try:
            size = oc.size(fam, b)
        except KeyError:
            ctx.violation(name, 'skoolkit/opcodes.py', 'no entry and no fall-back for %s' % name)
            continue
        # sna2ctl decodes without the optional opcode sets; an entry that is an instruction only under Opcodes=... is data (DEFB) for sna2skool's default too
        if size != d['length']:
            ctx.violation(name, 'skoolkit/opcodes.py', 'opcodes.py gives %s %d byte(s), sna2skool disassembles %d (%s): control directives generated for this code do not sit on instruction boundaries' %
                          (name, size, d['length'], d['text'] or 'DEFB'))
        else:
            ctx.ok({'seq': name, 'size': size})
    from sa.rules import C07operands
    C07operands.boundary_rule(ctx, repo, dis)
    ctx.rule('C14.2-rst-args', 'RST arguments: same handler call, same length formula, sub-block placed at instruction end minus argument length', floor=3)
    op = repo.mod('opcodes').func('decode')
    dz = dis.methods['disassemble']
    sn = repo.mod('snactl').func('_generate_subctls')
    def handle_calls(fn):
        return [n for n in ast.walk(fn) if isinstance(n, ast.Call) and isinstance(n.func, ast.Attribute) and n.func.attr == 'handle']
    def sum_elts(fn):
        out = []
        for n in ast.walk(fn):
            if isinstance(n, ast.Call) and isinstance(n.func, ast.Name) and n.func.id == 'sum' and isinstance(n.args[0], ast.GeneratorExp):
                g = n.args[0]
                out.append(ast.unparse(g.elt).replace(g.generators[0].target.id, 'X'))
        return out
    hc_o, hc_d = handle_calls(op), handle_calls(dz)
    if len(hc_o) != 1 or len(hc_d) != 1:
        raise FactError('rst handler call sites not found')
    a_o = [ast.unparse(a) for a in hc_o[0].args]
    a_d = [ast.unparse(a).replace('self.', '') for a in hc_d[0].args]
    # both pass (snapshot, address of the RST instruction): the loop variable that indexes the opcode byte
    ok = a_o[0] == 'snapshot' and a_d[0] == 'snapshot' and a_o[1] == 'addr' and a_d[1] == 'address'
    if not ok:
        ctx.violation('rst handler call', 'skoolkit/opcodes.py / skoolkit/disassembler.py', 'handler is called with %s in opcodes.decode but %s in Disassembler.disassemble' % (a_o, a_d))
    else:
        ctx.ok({'handler call': a_o})
    so, sd, ss = sum_elts(op), sum_elts(dz), sum_elts(sn)
    if not (so == sd == ss == ['X[0]']):
        ctx.violation('rst length', 'skoolkit/opcodes.py / skoolkit/disassembler.py / skoolkit/snactl.py', 'argument length formulas differ: %s / %s / %s' % (so, sd, ss))
    else:
        ctx.ok({'length formula': 'sum(s[0] for s in sublengths)'})
    src = ast.unparse(sn)
    if 'a + size - rst_args_len' in src.replace('(', '').replace(')', ''):
        ctx.ok({'sub-block address': 'a + size - rst_args_len'})
    else:
        ctx.violation('rst sub-block address', 'skoolkit/snactl.py:%d' % sn.lineno, 'RST argument sub-block is no longer placed at instruction end minus argument length')
    ctx.rule('C14.3-bounded-markers', 'block markers at computed addresses (x + y) are written only under a test that the address is before END', floor=1)
    mod = repo.mod('snactl')
    n_sites = 0
    def visit(stmts, guards, fname):
        nonlocal n_sites
        for st in stmts:
            if isinstance(st, ast.If):
                visit(st.body, guards + [ast.unparse(st.test)], fname)
                visit(st.orelse, guards, fname)
                continue
            for fld in ('body', 'orelse', 'finalbody'):
                sub = getattr(st, fld, None)
                if isinstance(sub, list) and sub and isinstance(sub[0], ast.stmt):
                    visit(sub, guards, fname)
            keys = []
            if isinstance(st, ast.Assign):
                for tg in st.targets:
                    if isinstance(tg, ast.Subscript) and isinstance(tg.value, ast.Name) and tg.value.id == 'ctls':
                        keys.append(tg.slice)
            for n in ast.walk(st) if not isinstance(st, (ast.For, ast.While, ast.If, ast.With, ast.Try)) else []:
                if isinstance(n, ast.Call) and isinstance(n.func, ast.Attribute) and n.func.attr in ('setdefault', 'update') and ast.unparse(n.func.value) == 'ctls' and n.args:
                    keys.append(n.args[0])
            for k in keys:
                if isinstance(k, ast.BinOp) and isinstance(k.op, ast.Add):
                    n_sites += 1
                    ks = ast.unparse(k)
                    if any(g.replace(' ', '') in ('%s<end' % ks.replace(' ', ''), 'end>%s' % ks.replace(' ', '')) for g in guards):
                        ctx.ok({'function': fname, 'key': ks, 'guard': ks + ' < end'})
                    else:
                        ctx.violation('%s ctls[%s]' % (fname, ks), 'skoolkit/snactl.py:%d' % st.lineno,
                                      'a block marker is written at %s without a test that it lies before END: a directive can appear beyond the terminating one' % ks)
    for fname, fn in mod.funcs.items():
        visit(fn.body, [], fname)
    if n_sites < 1:
        raise FactError('skoolkit/snactl.py: no computed-address marker site found')
    from sa.rules import memo
    memo.run_for(ctx, repo, 'C14')
    return report.finish(ctx, EXPLANATION)
