"""C14 - sna2ctl output (decoder agreement and bounded block markers only)."""
import ast
from sa.core import pyfacts, tabfacts, report
from sa.core.pyfacts import FactError

EXPLANATION = (
    "Decides the clauses of the property that are visible in the shape of the code: (1) the control-file generator's decoder (opcodes.py) and "
    "the skool-file disassembler assign the same size to every one of the 7x256 opcode sequences, including the DD/FD fall-backs, and truncate "
    "at the top of memory under the same condition (so sub-block directives and block boundaries fall on sna2skool's instruction boundaries); "
    "(2) RST arguments are sized identically on both sides (handler called with the instruction address, length = sum of the sub-lengths, "
    "sub-block placed at instruction end minus that length); (3) a block marker whose address is computed as address + length is written "
    "only under a test that it lies before END. Not decided: termination of the fix-point loops, exact tiling, code-map containment "
    "(data-dependent).")

def tiling_rule(ctx, repo):
    """C14.4 / C14.5: the control-file generator folded on model memory images."""
    import random
    from sa.core.classfold import ClassFolder
    from sa.core.pyfacts import NotLiteral
    cf = ClassFolder(repo, 'snactl')
    rnd = random.Random(1405 + ctx.seed)
    n_img = 400 if ctx.tier == 'thorough' else 90
    class Cfg:
        _sa_fold_ok = True
    ALPHA = [0x00, 0x00, 0x01, 0x3E, 0x21, 0xC9, 0x18, 0xC3, 0xCD, 0x10, 0x41, 0x42, 0x53, 0x20, 0x65, 0x74, 0x7E, 0xAF, 0xDD, 0xED, 0xB0, 0xFF, 0xE9, 0xCB]
    ctx.rule('C14.4-tiling', 'control directives generated without a code map (folded on model images) start at START, end with the terminator at END, stay inside [START, END] and keep the terminator', floor=60)
    where = 'skoolkit/snactl.py (_generate_ctls_without_code_map)'
    for k in range(n_img):
        start = rnd.choice((30000, 40000, 65500, 16384))
        ln = rnd.randrange(1, 40)
        end = min(65536, start + ln)
        snap = [0] * 65536
        style = k % 4
        for a in range(start - 4, min(65536, end + 4)):
            if style == 0:
                snap[a] = rnd.choice(ALPHA)
            elif style == 1:
                snap[a] = rnd.choice((0x41, 0x42, 0x63, 0x20, 0x18, 0xC9, 0xC3, 0x65))
            elif style == 2:
                snap[a] = rnd.choice((0, 0, 0, 0xC9, 0x41))
            else:
                snap[a] = rnd.randrange(256)
        cfg = Cfg()
        cfg.text_chars = ''.join(chr(c) for c in range(32, 127))
        cfg.text_min_length_code = rnd.choice((1, 2, 3, 12))
        cfg.text_min_length_data = rnd.choice((1, 3, 8))
        cfg.words = ()
        name = 'image %d (style %d, %d..%d, min text %d/%d)' % (k, style, start, end, cfg.text_min_length_code, cfg.text_min_length_data)
        try:
            ctls = cf.call_func('snactl', '_generate_ctls_without_code_map', [snap, start, end, cfg, None])
        except NotLiteral as e:
            ctx.limit('tiling', 'generator not foldable: %s' % e)
            break
        except (KeyError, IndexError, ValueError, TypeError, AttributeError) as e:
            ctx.violation('no-code-map generator', where, 'fails with %s: %s on bytes %s (%s)' % (type(e).__name__, e, snap[start:end], name))
            continue
        keys = sorted(ctls)
        problems = []
        if not keys or keys[0] != start:
            problems.append('first directive at %s, not at START %d' % (keys[:1], start))
        if ctls.get(end) != 'i':
            problems.append('no terminating `i` directive at END %d (directive there: %r)' % (end, ctls.get(end)))
        if any(a < start or a > end for a in keys):
            problems.append('directive outside [START, END]: %s' % [a for a in keys if a < start or a > end][:3])
        if any(ctls[a] == 'i' for a in keys if a != end):
            problems.append('terminator inside the range')
        if any(ctls[a] not in ('b', 'c', 's', 't', 'w', 'i') for a in keys):
            problems.append('unknown directive %r' % [ctls[a] for a in keys if ctls[a] not in 'bcstwi'][:1])
        if problems:
            ctx.violation('no-code-map generator', where, '%s for bytes %s at %d..%d with TextMinLengthCode=%d, TextMinLengthData=%d: generated %s' %
                          ('; '.join(problems), snap[start:end], start, end, cfg.text_min_length_code, cfg.text_min_length_data, [(a, ctls[a]) for a in keys]))
        else:
            ctx.ok({'image': name, 'directives': len(keys)})
    ctx.rule('C14.5-extension', 'extending a code block to its terminal instruction (_find_terminal_instruction, folded) leaves the type of every byte after the extension unchanged: executed code stays code', floor=60)
    where = 'skoolkit/snactl.py (_find_terminal_instruction)'
    for k in range(n_img):
        start, end = 40000, 40000 + rnd.randrange(6, 40)
        snap = [0] * 65536
        for a in range(start, end + 4):
            snap[a] = rnd.choice((0x00, 0x01, 0x01, 0x3E, 0x21, 0xAF, 0x47, 0xC9, 0x18, 0xC3, 0x06, 0x11))
        ctls = {start: 'U', end: 'i'}
        for _ in range(rnd.randrange(1, 5)):
            a = rnd.randrange(start + 1, end)
            ctls[a] = rnd.choice(('c', 'c', 'U'))
        before = dict(ctls)
        def typ(d, x):
            return d[max(a for a in d if a <= x)]
        try:
            ret = cf.call_func('snactl', '_find_terminal_instruction', [snap, ctls, start, end, None])
        except NotLiteral as e:
            ctx.limit('extension', '_find_terminal_instruction not foldable: %s' % e)
            break
        except (KeyError, IndexError, ValueError, TypeError, AttributeError, NameError) as e:
            ctx.violation('_find_terminal_instruction', where, 'fails with %s: %s on bytes %s, markers %s' % (type(e).__name__, e, snap[start:end], sorted(before.items())))
            continue
        bad = [x for x in range(ret, end) if typ(before, x) != typ(ctls, x)]
        if bad:
            ctx.violation('_find_terminal_instruction', where, 'bytes %s with markers %s: the scan from %d returns %d and leaves markers %s; address %d was `%s` and is now `%s` though it lies after the extension' %
                          (snap[start:end], sorted(before.items()), start, ret, sorted(ctls.items()), bad[0], typ(before, bad[0]), typ(ctls, bad[0])))
        else:
            ctx.ok({'case': k, 'returned': ret})

def run(ctx):
    repo = pyfacts.Repo(ctx.repo_root)
    dis = tabfacts.DisTables(repo)
    tr = None
    oc = tabfacts.OpcodeTables(repo)
    ctx.rule('C14.1-sizes', 'opcodes.py size == disassembler length for every opcode sequence (tables and fall-backs)', floor=1786)
    full = dis.decode_all(tuple(dis.all_options))
    base = dis.decode_all(())
    PFXN = {'ops': '', 'after_CB': 'CB', 'after_ED': 'ED', 'after_DD': 'DD', 'after_FD': 'FD', 'after_DDCB': 'DDCB..', 'after_FDCB': 'FDCB..'}
    for (fam, b), d in sorted(base.items()):
        if d['kind'] == 'prefix':
            continue
        name = '%s%02X' % (PFXN[fam], b)
        try:
            size = oc.size(fam, b)
        except KeyError:
            ctx.violation(name, 'skoolkit/opcodes.py', 'no entry and no fall-back for %s' % name)
            continue
        # sna2ctl decodes without the optional opcode sets; an entry that is an instruction only under Opcodes=... is data (DEFB) for sna2skool's default too
        if size != d['length']:
            ctx.violation(name, 'skoolkit/opcodes.py', 'opcodes.py gives %s %d byte(s), sna2skool disassembles %d (%s): control directives generated for this code do not sit on instruction boundaries' %
                          (name, size, d['length'], d['text'] or 'DEFB'))
        else:
            ctx.ok({'seq': name, 'size': size})
    from sa.rules import C07operands
    C07operands.boundary_rule(ctx, repo, dis)
    ctx.rule('C14.2-rst-args', 'RST arguments: same handler call, same length formula, sub-block placed at instruction end minus argument length', floor=3)
    op = repo.mod('opcodes').func('decode')
    dz = dis.methods['disassemble']
    sn = repo.mod('snactl').func('_generate_subctls')
    def handle_calls(fn):
        return [n for n in ast.walk(fn) if isinstance(n, ast.Call) and isinstance(n.func, ast.Attribute) and n.func.attr == 'handle']
    def sum_elts(fn):
        out = []
        for n in ast.walk(fn):
            if isinstance(n, ast.Call) and isinstance(n.func, ast.Name) and n.func.id == 'sum' and isinstance(n.args[0], ast.GeneratorExp):
                g = n.args[0]
                out.append(ast.unparse(g.elt).replace(g.generators[0].target.id, 'X'))
        return out
    hc_o, hc_d = handle_calls(op), handle_calls(dz)
    if len(hc_o) != 1 or len(hc_d) != 1:
        raise FactError('rst handler call sites not found')
    a_o = [ast.unparse(a) for a in hc_o[0].args]
    a_d = [ast.unparse(a).replace('self.', '') for a in hc_d[0].args]
    # both pass (snapshot, address of the RST instruction): the loop variable that indexes the opcode byte
    ok = a_o[0] == 'snapshot' and a_d[0] == 'snapshot' and a_o[1] == 'addr' and a_d[1] == 'address'
    if not ok:
        ctx.violation('rst handler call', 'skoolkit/opcodes.py / skoolkit/disassembler.py', 'handler is called with %s in opcodes.decode but %s in Disassembler.disassemble' % (a_o, a_d))
    else:
        ctx.ok({'handler call': a_o})
    so, sd, ss = sum_elts(op), sum_elts(dz), sum_elts(sn)
    if not (so == sd == ss == ['X[0]']):
        ctx.violation('rst length', 'skoolkit/opcodes.py / skoolkit/disassembler.py / skoolkit/snactl.py', 'argument length formulas differ: %s / %s / %s' % (so, sd, ss))
    else:
        ctx.ok({'length formula': 'sum(s[0] for s in sublengths)'})
    src = ast.unparse(sn)
    if 'a + size - rst_args_len' in src.replace('(', '').replace(')', ''):
        ctx.ok({'sub-block address': 'a + size - rst_args_len'})
    else:
        ctx.violation('rst sub-block address', 'skoolkit/snactl.py:%d' % sn.lineno, 'RST argument sub-block is no longer placed at instruction end minus argument length')
    ctx.rule('C14.3-bounded-markers', 'block markers at computed addresses (x + y) are written only under a test that the address is before END', floor=1)
    mod = repo.mod('snactl')
    n_sites = 0
    def visit(stmts, guards, fname):
        nonlocal n_sites
        for st in stmts:
            if isinstance(st, ast.If):
                visit(st.body, guards + [ast.unparse(st.test)], fname)
                visit(st.orelse, guards, fname)
                continue
            for fld in ('body', 'orelse', 'finalbody'):
                sub = getattr(st, fld, None)
                if isinstance(sub, list) and sub and isinstance(sub[0], ast.stmt):
                    visit(sub, guards, fname)
            keys = []
            if isinstance(st, ast.Assign):
                for tg in st.targets:
                    if isinstance(tg, ast.Subscript) and isinstance(tg.value, ast.Name) and tg.value.id == 'ctls':
                        keys.append(tg.slice)
            for n in ast.walk(st) if not isinstance(st, (ast.For, ast.While, ast.If, ast.With, ast.Try)) else []:
                if isinstance(n, ast.Call) and isinstance(n.func, ast.Attribute) and n.func.attr in ('setdefault', 'update') and ast.unparse(n.func.value) == 'ctls' and n.args:
                    keys.append(n.args[0])
            for k in keys:
                if isinstance(k, ast.BinOp) and isinstance(k.op, ast.Add):
                    n_sites += 1
                    ks = ast.unparse(k)
                    if any(g.replace(' ', '') in ('%s<end' % ks.replace(' ', ''), 'end>%s' % ks.replace(' ', '')) for g in guards):
                        ctx.ok({'function': fname, 'key': ks, 'guard': ks + ' < end'})
                    else:
                        ctx.violation('%s ctls[%s]' % (fname, ks), 'skoolkit/snactl.py:%d' % st.lineno,
                                      'a block marker is written at %s without a test that it lies before END: a directive can appear beyond the terminating one' % ks)
    for fname, fn in mod.funcs.items():
        visit(fn.body, [], fname)
    if n_sites < 1:
        raise FactError('skoolkit/snactl.py: no computed-address marker site found')
    tiling_rule(ctx, repo)
    from sa.rules import C14pipe
    C14pipe.run(ctx, repo)
    C14pipe.rst_rule(ctx, repo)
    C14pipe.comments_rule(ctx, repo)
    from sa.rules import memo
    memo.run_for(ctx, repo, 'C14')
    return report.finish(ctx, EXPLANATION)
