"""Reference decoders for the two snapshot file formats, written from the published format descriptions
(Z80: worldofspectrum.net/faq/reference/z80format.htm, versions 1 and 3; ZX-State: spectaculator.com/docs/zx-state)
and NOT from skoolkit/snapshot.py.  They are the independent side of the C09 round-trip rules: the bytes produced by
folding skoolkit's writers are decoded here and compared with the state that was asked to be written.

Also: reference semantics of the --poke / --move / --patch specs (from the bin2sna/snapmod manual pages)."""
import zlib

class SpecError(Exception):
    pass

def w(d, i):
    return d[i] + 256 * d[i + 1]

def z80_rle_decode(data, end_marker):
    """Z80 compression: ED ED xx yy = xx copies of yy; anything else is literal. v1 blocks end with 00 ED ED 00."""
    out = []
    i = 0
    n = len(data)
    if end_marker:
        if bytes(data[-4:]) != b'\x00\xed\xed\x00':
            raise SpecError('version 1 RAM block does not end with 00 ED ED 00')
        n -= 4
    while i < n:
        if data[i] == 0xED and i + 1 < n and data[i + 1] == 0xED:
            if i + 3 >= n:
                raise SpecError('truncated ED ED sequence at offset %d' % i)
            cnt, val = data[i + 2], data[i + 3]
            if cnt == 0:
                raise SpecError('ED ED 00 sequence in compressed data at offset %d' % i)
            out.extend([val] * cnt)
            i += 4
        else:
            out.append(data[i])
            i += 1
    return out

FRAME = {'48K': 69888, '128K': 70908, '+2': 70908}

def decode_z80(data):
    d = bytes(data)
    s = {}
    s['a'], s['f'], s['bc'], s['hl'] = d[0], d[1], w(d, 2), w(d, 4)
    s['sp'], s['i'] = w(d, 8), d[10]
    b12 = 1 if d[12] == 255 else d[12]
    s['r'] = (d[11] & 0x7F) | ((b12 & 1) << 7)
    s['border'] = (b12 >> 1) & 7
    s['de'], s['bc2'], s['de2'], s['hl2'] = w(d, 13), w(d, 15), w(d, 17), w(d, 19)
    s['a2'], s['f2'], s['iy'], s['ix'] = d[21], d[22], w(d, 23), w(d, 25)
    s['iff1'], s['iff2'] = int(d[27] != 0), int(d[28] != 0)
    s['im'] = d[29] & 3
    banks = {}
    if w(d, 6) != 0:
        s['version'] = 1
        s['pc'] = w(d, 6)
        s['machine'] = '48K'
        body = d[30:]
        ram = z80_rle_decode(body, True) if b12 & 0x20 else list(body)
        if len(ram) != 49152:
            raise SpecError('version 1 RAM is %d bytes' % len(ram))
        banks[5], banks[2], banks[0] = ram[:16384], ram[16384:32768], ram[32768:]
    else:
        hl = w(d, 30)
        if hl not in (23, 54, 55):
            raise SpecError('additional header length %d' % hl)
        s['version'] = 2 if hl == 23 else 3
        s['pc'] = w(d, 32)
        hw = d[34]
        mod = d[37] & 0x80
        if s['version'] == 3:
            m48, m128 = (0, 1, 3), (4, 5, 6)
        else:
            m48, m128 = (0, 1), (3, 4)
        if hw in m48:
            s['machine'] = '48K'        # (bit 7 of byte 37 would make it a 16K machine; skoolkit never writes that)
        elif hw in m128:
            s['machine'] = '+2' if mod else '128K'
        elif hw == 12:
            s['machine'] = '+2'
        else:
            raise SpecError('hardware mode %d' % hw)
        s['out7ffd'], s['outfffd'], s['ay'] = d[35], d[38], tuple(d[39:55])
        if s['version'] == 3:
            q = FRAME[s['machine']] // 4
            low, hi = w(d, 55), d[57]
            if low >= q or hi > 3:
                raise SpecError('T-state counters out of range: low %d, high %d' % (low, hi))
            s['tstates'] = ((hi + 1) % 4) * q + (q - 1 - low)
        i = 32 + hl
        is128 = s['machine'] != '48K'
        while i < len(d):
            ln, page = w(d, i), d[i + 2]
            i += 3
            if ln == 0xFFFF:
                blk = list(d[i:i + 16384]); i += 16384
            else:
                blk = z80_rle_decode(d[i:i + ln], False); i += ln
            if len(blk) != 16384:
                raise SpecError('page %d decodes to %d bytes' % (page, len(blk)))
            if is128:
                if not 3 <= page <= 10:
                    raise SpecError('128K page number %d' % page)
                banks[page - 3] = blk
            else:
                if page not in (4, 5, 8):
                    raise SpecError('48K page number %d' % page)
                banks[{8: 5, 4: 2, 5: 0}[page]] = blk      # 8 -> 4000-7FFF, 4 -> 8000-BFFF, 5 -> C000-FFFF
        if i != len(d):
            raise SpecError('memory blocks overrun the file')
    s['banks'] = banks
    return s

def decode_szx(data):
    d = bytes(data)
    if d[:4] != b'ZXST':
        raise SpecError('no ZXST signature')
    mid = d[6]
    s = {'machine': {0: '16K', 1: '48K', 2: '128K', 3: '+2'}.get(mid)}
    if s['machine'] is None:
        raise SpecError('machine id %d' % mid)
    banks = {}
    i = 8
    seen = []
    while i < len(d):
        if i + 8 > len(d):
            raise SpecError('truncated block header')
        bid, ln = d[i:i + 4], d[i + 4] + 256 * d[i + 5] + 65536 * d[i + 6] + 16777216 * d[i + 7]
        b = d[i + 8:i + 8 + ln]
        if len(b) != ln:
            raise SpecError('block %r is truncated' % bid)
        i += 8 + ln
        seen.append(bid)
        if bid == b'Z80R':
            if ln != 37:
                raise SpecError('Z80R block of %d bytes' % ln)
            s['f'], s['a'], s['bc'], s['de'], s['hl'] = b[0], b[1], w(b, 2), w(b, 4), w(b, 6)
            s['f2'], s['a2'], s['bc2'], s['de2'], s['hl2'] = b[8], b[9], w(b, 10), w(b, 12), w(b, 14)
            s['ix'], s['iy'], s['sp'], s['pc'] = w(b, 16), w(b, 18), w(b, 20), w(b, 22)
            s['i'], s['r'], s['iff1'], s['iff2'], s['im'] = b[24], b[25], int(b[26] != 0), int(b[27] != 0), b[28]
            s['tstates'] = b[29] + 256 * b[30] + 65536 * b[31] + 16777216 * b[32]
            s['memptr'] = w(b, 35)
        elif bid == b'SPCR':
            if ln != 8:
                raise SpecError('SPCR block of %d bytes' % ln)
            s['border'], s['out7ffd'], s['outfe'] = b[0], b[1], b[3]
        elif bid == b'AY\x00\x00':
            if ln != 18:
                raise SpecError('AY block of %d bytes' % ln)
            s['outfffd'], s['ay'] = b[1], tuple(b[2:18])
        elif bid == b'RAMP':
            flags, page = w(b, 0), b[2]
            ram = b[3:]
            if flags & 1:
                ram = zlib.decompress(ram)
            if len(ram) != 16384:
                raise SpecError('RAMP page %d holds %d bytes' % (page, len(ram)))
            if page > 7:
                raise SpecError('RAMP page number %d' % page)
            banks[page] = list(ram)
        elif bid == b'KEYB':
            if ln != 5:
                raise SpecError('KEYB block of %d bytes' % ln)
    s['banks'] = banks
    s['blocks'] = seen
    return s

# ---- --poke / --move / --patch reference semantics (manual pages of bin2sna.py and snapmod.py)
def _int(t):
    t = t.strip()
    if t.startswith('$'):
        return int(t[1:], 16)
    if t.lower().startswith('0x'):
        return int(t[2:], 16)
    return int(t)

def _page(t):
    if ':' in t:
        p, rest = t.split(':', 1)
        return _int(p), rest
    return None, t

class RefMem:
    """banks: dict n -> list (128K) or None; mem64: the 64K view as list (index 0..65535) aliasing nothing."""
    def __init__(self, mem64, banks=None, page=None):
        self.mem, self.banks, self.page = list(mem64), ({k: list(v) for k, v in banks.items()} if banks else None), page
    def get(self, a):
        if self.banks is not None and a >= 0x4000:
            b = {1: 5, 2: 2, 3: self.page}[a // 0x4000]
            return self.banks[b][a % 0x4000]
        return self.mem[a]
    def put(self, a, v):
        if a < 0x4000:
            self.mem[a] = v      # the ROM area of the 64K view is scratch space in both Memory classes
            return
        if self.banks is not None:
            b = {1: 5, 2: 2, 3: self.page}[a // 0x4000]
            self.banks[b][a % 0x4000] = v
        else:
            self.mem[a] = v

def ref_poke(m, spec):
    addr, val = spec.split(',', 1)
    page, addr = _page(addr)
    if val[0] == '^':
        f = lambda b, v=_int(val[1:]): b ^ v
    elif val[0] == '+':
        f = lambda b, v=_int(val[1:]): (b + v) & 255
    else:
        f = lambda b, v=_int(val): v
    parts = [_int(x) for x in addr.split('-')]
    a1 = parts[0]
    a2 = parts[1] if len(parts) > 1 else a1
    st = parts[2] if len(parts) > 2 else 1
    for a in range(a1, a2 + 1, st):
        if page is None:
            m.put(a, f(m.get(a)))
        elif m.banks is not None:
            bank = m.banks[page % 8]
            bank[a % 0x4000] = f(bank[a % 0x4000])

def ref_move(m, spec):
    src, length, dest = spec.split(',', 2)
    sp, src = _page(src)
    dp, dest = _page(dest)
    if dp is None:
        dp = sp
    src, length, dest = _int(src), _int(length), _int(dest)
    if sp is None:
        data = [m.get(a) for a in range(src, min(src + length, 65536))]
        for k, v in enumerate(data):
            if dest + k < 65536:
                m.put(dest + k, v)
    elif m.banks is not None:
        s, d = src % 0x4000, dest % 0x4000
        data = m.banks[sp % 8][s:s + length]
        n = min(len(data), 0x4000 - d)
        m.banks[dp % 8][d:d + n] = data[:n]

def ref_patch(m, spec, data):
    addr = spec.split(',', 1)[0]
    page, addr = _page(addr)
    a = _int(addr)
    if page is None:
        for k, v in enumerate(data):
            if a + k < 65536:
                m.put(a + k, v)
    elif m.banks is not None:
        d = a % 0x4000
        n = min(len(data), 0x4000 - d)
        m.banks[page % 8][d:d + n] = list(data[:n])
