"""C13 - LOAD results independent of accelerators and simulator choice (Python/C agreement clauses)."""
import ast
from sa.core import pyfacts, simfacts, effects, compare, report, cfacts, tabulate, tabfacts, fold
from sa.core.terms import C as K, isc, mk, post, show
from sa.core.pyfacts import Lit, NotLiteral, FactError
from sa.core.effects import Unsupported

EXPLANATION = (
    "Decides the clauses that tie the accelerated paths to the unaccelerated semantics and the C tracer to the Python one: (1) LoadTracer.dec_a "
    "and the C dec_a have the same paths and value terms (loop recognition bytes, A/F/R/T/PC effects, 16a-5 and 14a T formulas); (2) the "
    "private DEC/INC0 tables of loadtracer.py equal the reference DEC/INC semantics for every entry (they stand in for the simulator's tables "
    "inside accelerated loops); (3) for every tape-sampling-loop accelerator whose loop follows the common shape, the declared T-states and R "
    "increment per iteration equal the sum over the loop's own instructions of the z80.py timings / M1 counts (so skipping n iterations "
    "advances the clock exactly as executing them); (4) all sites that compute the next frame interrupt after the clock is re-synchronised to "
    "a tape edge are the same function (shared with C10.4); (5) no 64-bit tape/clock value is implicitly narrowed to 32 bits in the C module; "
    "(6) the ROM-loader window test of the port reader folds to the same predicate in Python and C. Not decided: accelerated == unaccelerated "
    "final snapshots (a statement about executions).")

# accelerators whose sampling loop does not follow the simple shape (first conditional jump falls through, two-level loops, R deliberately 0)
SHAPE_EXCEPTIONS = {
    'audiogenic-0': 'loop enters through a forward JR Z that falls through on the sampling path',
    'audiogenic-1': 'as audiogenic-0',
    'crl3': 'forward JR Z falls through on the sampling path',
    'd-and-h': 'declares loop_r_inc 0 on purpose (R is re-loaded by the loader each pass)',
    'design-design': 'sampling loop reached through JP Z whose target lies outside the pattern',
    'ernieware': 'JP NC target outside the pattern',
    'silverbird': 'forward JR Z falls through on the sampling path',
    'software-projects': 'JR NZ falls through on the sampling path',
}

def dec_a_rule(ctx, repo):
    ctx.rule('C13.1-dec-a', 'LoadTracer.dec_a == C dec_a (paths and value terms, all four on/off combinations of the two accelerations)', floor=4)
    m = simfacts.SimModel(repo)
    lt = repo.mod('loadtracer')
    fac = lt.method('LoadTracer', 'dec_a')
    clo = effects.closure_of(fac)
    for jr in (0, 1):
        for jp in (0, 1):
            ex = effects.PyExtractor({'dec_a_jr': K(jr), 'dec_a_jp': K(jp)}, m.py.regconsts, tables=('DEC',))
            ex.params['registers'] = ('sym', '$registers')
            try:
                pa = effects.canon(ex.run([effects.Path()], clo.body))
                u = m.c.units['plain']
                if 'dec_a' not in u.funcs:
                    raise FactError('c/csimulator.c: dec_a not found')
                cx = effects.CExtractor([0, 0, 0, jr, jp, 0, 0], None, m.c.consts['plain'], u, 'dec_a')
                pb = effects.canon(cx.run([effects.Path()], u.body('dec_a')))
            except Unsupported as e:
                ctx.limit('dec_a jr=%d jp=%d' % (jr, jp), 'construct not modelled: %s' % e)
                continue
            r = compare.compare(pa, pb)
            if r['status'].startswith('equal'):
                ctx.ok({'dec_a_jr': jr, 'dec_a_jp': jp, 'paths': len(pa)})
            elif r['status'] == 'differ':
                ctx.violation('dec_a jr=%d jp=%d' % (jr, jp), 'skoolkit/loadtracer.py:%d vs c/csimulator.c:%d' % (fac.lineno, u.funcs['dec_a']['line']),
                              'the DEC A loop accelerator behaves differently in Python and C', detail=r['detail'][:2])
            else:
                ctx.limit('dec_a jr=%d jp=%d' % (jr, jp), 'not decided: ' + str(r['detail'][:1])[:300])

def tables_rule(ctx, repo):
    ctx.rule('C13.2-private-tables', 'loadtracer.DEC / INC0 == reference DEC / INC semantics for every entry', floor=2)
    from sa.rules import z80ref
    lt = repo.mod('loadtracer')
    env = {}
    for name in ('DEC', 'DEC0', 'INC0'):
        if name not in lt.assigns:
            raise FactError('skoolkit/loadtracer.py: %s not found' % name)
        env[name] = tabulate._py(lt.assigns[name][-1], None)(env)
    bad = [(c, v) for c in (0, 1) for v in range(256) if tuple(env['DEC'][c][v]) != z80ref.dec8(c, v)]
    if bad or tuple(map(tuple, env['DEC0'])) != tuple(map(tuple, env['DEC'][0])):
        ctx.violation('loadtracer.DEC', lt.relpath, 'DEC%s differs from the DEC r semantics' % (list(bad[0]) if bad else '0 alias'))
    else:
        ctx.ok({'table': 'loadtracer.DEC', 'entries': 512})
    # INC0 carries no carry bit: compare modulo C (the accelerated INC loops never set C: checked against inc8 with c=0)
    bad = [v for v in range(256) if tuple(env['INC0'][v]) != z80ref.inc8(0, v)]
    if bad:
        ctx.violation('loadtracer.INC0', lt.relpath, 'INC0[%d] = %s, INC r gives %s' % (bad[0], tuple(env['INC0'][bad[0]]), z80ref.inc8(0, bad[0])))
    else:
        ctx.ok({'table': 'loadtracer.INC0', 'entries': 256})

def accelerator_rule(ctx, repo):
    ctx.rule('C13.3-accelerator-timing', 'declared loop_time / loop_r_inc of each sampling-loop accelerator == sum over its loop instructions of z80.py timings / M1 fetches', floor=40)
    mod = repo.mod('loadsample')
    def opq(n):
        if isinstance(n, ast.Name) and n.id == 'BYTE': return 'BYTE'
        if isinstance(n, ast.Call) and ast.unparse(n.func) == 'AnyByte': return 'BYTE'
        return None
    if 'ACCELERATORS' not in mod.assigns:
        raise FactError('skoolkit/loadsample.py: ACCELERATORS not found')
    acc = Lit(repo, 'loadsample', opaque=opq).ev(mod.assigns['ACCELERATORS'][-1])
    tm = tabfacts.TimingTables(repo)
    dis = tabfacts.DisTables(repo)
    full = dis.decode_all(tuple(dis.all_options))
    lines = {}
    node = mod.assigns['ACCELERATORS'][-1]
    if isinstance(node, ast.Dict):
        for k, v in zip(node.keys, node.values):
            if isinstance(k, ast.Constant):
                lines[k.value] = v.lineno
    for name, spec in acc.items():
        nm, code, off, counter, inc, lt_, lr, ear, mask, pol = spec
        where = 'skoolkit/loadsample.py:%d' % lines.get(name, 0)
        i = T = R = steps = 0
        ok = True
        while True:
            if i >= len(code) or code[i] == 'BYTE':
                ok = False
                break
            b = code[i]
            fam, key, n = 'ops', b, 1
            if b in (0xCB, 0xED):
                if i + 1 >= len(code) or code[i + 1] == 'BYTE':
                    ok = False
                    break
                fam, key, n = ('after_CB' if b == 0xCB else 'after_ED'), code[i + 1], 2
            elif b in (0xDD, 0xFD):
                if i + 1 >= len(code) or code[i + 1] == 'BYTE':
                    ok = False
                    break
                fam, key, n = 'after_DD', code[i + 1], 2
            d = full[(fam, key)]
            t = tm.tables[fam].get(key)
            if d['kind'] != 'op' or t is None:
                ok = False
                break
            R += n
            text = d['text']
            if text.startswith('RET '):
                T += t[1] if isinstance(t, tuple) else t        # conditional return not taken while sampling
                i += d['length']
            elif text.startswith(('JR ', 'JP ', 'DJNZ')):
                T += t[0] if isinstance(t, tuple) else t        # jump taken (skip forward / close the loop)
                if text.startswith('JP'):
                    break
                if i + 1 >= len(code) or code[i + 1] == 'BYTE':
                    ok = False
                    break
                o = code[i + 1]
                o = o - 256 if o > 127 else o
                i = i + 2 + o
                if i <= 0:
                    break
            else:
                T += t[0] if isinstance(t, tuple) else t
                i += d['length']
            steps += 1
            if steps > 40:
                ok = False
                break
        if name in SHAPE_EXCEPTIONS:
            ctx.limit('accelerator ' + name, 'not decided: ' + SHAPE_EXCEPTIONS[name])
            continue
        if not ok:
            ctx.limit('accelerator ' + name, 'loop shape not followed by the simple path model')
            continue
        if (T, R) != (lt_, lr):
            ctx.violation('accelerator ' + name, where, 'accelerator %s declares %d T-states and R+%d per loop iteration, but its loop instructions take %d T-states and %d opcode fetches: fast-forwarding changes the clock / R relative to executing the loop' % (name, lt_, lr, T, R))
        else:
            ctx.ok({'accelerator': name, 'loop_time': T, 'loop_r_inc': R})

def narrowing_rule(ctx, repo):
    ctx.rule('C13.5-narrowing', 'C: no 64-bit value (clock, tape edge) is implicitly narrowed to a 32-bit variable unless masked to a small range', floor=1)
    facts = cfacts.load(repo.root)
    for cfg in ('plain', 'cont'):
        u = cfacts.CUnit(facts[cfg])
        def small(n):
            n = cfacts.strip(n)
            if n.get('kind') == 'BinaryOperator' and n.get('opcode') in ('&', '%'):
                r = cfacts.lit(n['inner'][1])
                if isinstance(r, int) and 0 <= r < 2 ** 31:
                    return True
                # x % d (or x & d) with a 32-bit d is below 2^32
                rt = cfacts.strip(n['inner'][1]).get('type', '')
                return n.get('opcode') == '%' and rt in ('unsigned int', 'unsigned', 'int') or False
            if n.get('kind') == 'BinaryOperator' and n.get('opcode') in ('==', '!=', '<', '>', '<=', '>=', '&&', '||'):
                return True
            if n.get('kind') == 'IntegerLiteral':
                return int(n['value']) < 2 ** 31
            return False
        def walk(n, fname):
            if n.get('kind') == 'ImplicitCastExpr' and n.get('castKind') == 'IntegralCast':
                src = n['inner'][0].get('type', '')
                dst = n.get('type', '')
                if 'long long' in src and 'long long' not in dst and dst in ('int', 'unsigned int', 'unsigned', 'byte', 'unsigned char', 'long', 'unsigned long') and dst not in ('long', 'unsigned long'):
                    if small(n['inner'][0]):
                        ctx.ok({'function': fname, 'line': n.get('line'), 'cast': '%s -> %s' % (src, dst), 'bounded by': 'mask/comparison'})
                    else:
                        ctx.violation('C narrowing %s (%s)' % (fname, cfg), 'c/csimulator.c:%s' % n.get('line'),
                                      'in %s a value of type %s is implicitly converted to %s: tape clocks beyond 2^31 T-states (about 10 minutes of tape) wrap or go negative' % (fname, src, dst))
            if n.get('kind') == 'CStyleCastExpr' and n.get('castKind') == 'IntegralCast' and n.get('inner'):
                # an explicit cast is a deliberate narrowing; it is lossless for differences of clocks (bounded by a pulse width) but not
                # for an absolute time: the clock slot, a tape edge, or the tape-state words that hold times
                src_n = cfacts.strip(n['inner'][0])
                src = src_n.get('type', '')
                dst = n.get('type', '')
                if 'long long' in src and dst in ('int', 'unsigned int', 'unsigned', 'short', 'unsigned short', 'byte', 'unsigned char') and src_n.get('kind') == 'ArraySubscriptExpr':
                    b, i = cfacts.strip(src_n['inner'][0]), cfacts.strip(src_n['inner'][1])
                    what = None
                    if b.get('kind') == 'MemberExpr' and b.get('name') in ('tape_edges', 'tracer_state'):
                        what = b.get('name')
                    elif b.get('kind') == 'DeclRefExpr' and b.get('ref') == 'reg' and (cfacts.lit(i) == 25 or (i.get('kind') == 'DeclRefExpr' and i.get('ref') == 'T')):
                        what = 'the clock'
                    if what == 'tracer_state' and cfacts.lit(i) not in (0, 8):
                        what = None          # flags, indices and frame counts
                    if what:
                        ctx.violation('C narrowing %s (%s)' % (fname, cfg), 'c/csimulator.c:%s' % n.get('line'),
                                      'in %s an absolute time (%s, type %s) is cast to %s: beyond 2^31 T-states (about 10 minutes of tape) it wraps or goes negative' % (fname, what, src, dst))
                    else:
                        ctx.ok()
            for c in n.get('inner', []):
                walk(c, fname)
        for name, fn in u.funcs.items():
            walk(fn, name)

def fastload_rule(ctx, repo):
    """C13.8: LoadTracer.fast_load folded on model machines.  Whatever else fast loading does to scratch state, at its end the bytes of
    the block requested through IX/DE are in memory (above the ROM), the return address 0x053F has been pushed, SP has dropped by two and
    PC is at the RET of LD-BYTES.  The ROM pushes the return address before it stores any byte, so where the block overlaps the two stack
    bytes the loaded bytes win - the case a test with a stack far from the load area never sees."""
    from sa.core.classfold import ClassFolder, Inst
    ctx.rule('C13.8-fastload', 'LoadTracer.fast_load (folded): loaded bytes are in memory at the end (also where they overlap the pushed return address), SP -= 2, return address 0x053F pushed, PC = 0x05E2, IX/DE advanced', floor=40)
    where = 'skoolkit/loadtracer.py (LoadTracer.fast_load)'
    lines = []
    def hook(n, lit):
        if isinstance(n, ast.Call) and isinstance(n.func, ast.Name) and n.func.id == 'write_line':
            lines.append(1)
            from sa.core.pyfacts import FOLDED_NONE
            return FOLDED_NONE
        return None
    cf = ClassFolder(repo, 'loadtracer', hook)
    R = {}
    su = repo.mod('simutils')
    for nm in ('A', 'F', 'D', 'E', 'H', 'L', 'IXh', 'IXl', 'SP', 'PC', 'IFF', 'T'):
        R[nm] = Lit(repo, 'simutils').ev(su.assigns[nm][-1])
    class Obj:
        _sa_fold_ok = True
        def __init__(self, **kw):
            self.__dict__.update(kw)
    cases = []
    for sp0 in (0xFF58, 0x8000, 0x4001, 0x0002, 0x0000):
        for ix, n_req, n_blk, flag_ok in ((0x9000, 20, 20, True), (sp0 - 5 & 0xFFFF, 8, 8, True), (sp0 - 2 & 0xFFFF, 2, 2, True), (sp0 - 3 & 0xFFFF, 3, 3, True),
                                          (0x9000, 10, 20, True), (0x9000, 30, 20, True), (0x9000, 20, 20, False), (0x3FFC, 8, 8, True), (0xFFFC, 8, 8, True)):
            cases.append((sp0, ix, n_req, n_blk, flag_ok))
    for sp0, ix, n_req, n_blk, flag_ok in cases:
        data = [0xFF] + [((7 * k + 3) % 251) | 1 for k in range(n_blk)]
        par = 0
        for b in data:
            par ^= b
        data.append(par)
        regs = [0] * 30
        regs[R['A']] = 0xFF if flag_ok else 0x00
        regs[R['IXh']], regs[R['IXl']] = ix >> 8, ix & 0xFF
        regs[R['D']], regs[R['E']] = n_req >> 8, n_req & 0xFF
        regs[R['SP']] = sp0
        regs[R['IFF']] = 1
        mem = [0xAA] * 65536
        sim = Obj(registers=regs, memory=mem)
        blk = Obj(data=data, fast_load=True, start=0, end=50)
        tr = Inst('loadtracer', 'LoadTracer', cf)
        tr.block_data_index, tr.max_index, tr.blocks, tr.block_index = 5, 100, [blk], 0
        tr.state = [0, 0, 0, 50, 0, 0, 0, 1, 0, 0]
        name = 'SP=%04X IX=%04X DE=%d block=%d bytes flag %s' % (sp0, ix, n_req, n_blk, 'match' if flag_ok else 'mismatch')
        try:
            rv = cf.call(tr, 'fast_load', sim)
        except NotLiteral as e:
            ctx.limit(name, 'fast_load not foldable: %s' % e)
            continue
        except (KeyError, IndexError, ValueError, TypeError, AttributeError) as e:
            ctx.violation(name, where, 'fast_load fails with %s: %s (%s)' % (type(e).__name__, e, name))
            continue
        problems = []
        sp1 = (sp0 - 2) % 65536
        if regs[R['SP']] != sp1:
            problems.append('SP is %04X, expected %04X' % (regs[R['SP']], sp1))
        if regs[R['PC']] != 0x05E2:
            problems.append('PC is %04X, expected 05E2' % regs[R['PC']])
        loaded = {}
        if flag_ok:
            for k in range(min(n_req, n_blk + 1)):
                a = (ix + k) % 65536
                if a > 0x3FFF:
                    loaded[a] = data[1 + k]
        want = {}
        for a, v in ((sp1, 0x3F), ((sp1 + 1) % 65536, 0x05)):
            if a > 0x3FFF:
                want[a] = v
        want.update(loaded)          # the ROM pushes first, then stores the bytes
        for a in sorted(want):
            if mem[a] != want[a]:
                problems.append('memory[%04X] is %02X, expected %02X (%s)' % (a, mem[a], want[a], 'loaded byte' if a in loaded else 'return address'))
        changed = [a for a in range(65536) if mem[a] != 0xAA and a not in want]
        if changed:
            problems.append('memory[%04X] changed though it is neither loaded nor the stack slot' % changed[0])
        if flag_ok and n_req <= n_blk:
            end_ix = (ix + n_req)
            if (regs[R['IXh']] * 256 + regs[R['IXl']]) != end_ix & 0xFFFF or regs[R['D']] or regs[R['E']]:
                problems.append('IX/DE after the load are %04X/%d, expected %04X/0' % (regs[R['IXh']] * 256 + regs[R['IXl']], regs[R['D']] * 256 + regs[R['E']], end_ix & 0xFFFF))
        if problems:
            ctx.violation(name, where, 'fast load with %s: %s' % (name, '; '.join(problems[:3])))
        else:
            ctx.ok({'case': name})

def window_rule(ctx, repo):
    ctx.rule('C13.6-rom-window', 'the custom-loader / ROM-loader window test of the port reader is the same predicate in Python and C (folded over all PC x ROM bit)', floor=1)
    lt = repo.mod('loadtracer')
    rp = lt.method('LoadTracer', '_read_port')
    cond = None
    for n in ast.walk(rp):
        if isinstance(n, ast.If) and 'in_min_addr' in ast.unparse(n.test):
            cond = n.test
            break
    if cond is None:
        raise FactError('skoolkit/loadtracer.py: window test in _read_port not found')
    facts = cfacts.load(repo.root)
    u = cfacts.CUnit(facts['plain'])
    cnode = None
    def find(n):
        nonlocal cnode
        if n.get('kind') == 'IfStmt' and cnode is None:
            c = n['inner'][0]
            names = set()
            def collect(x):
                if x.get('kind') == 'MemberExpr': names.add(x.get('name'))
                for y in x.get('inner', []): collect(y)
            collect(c)
            if 'in_min_addr' in names and 'out7ffd' in names:
                cnode = c
        for c in n.get('inner', []):
            find(c)
    find(u.funcs['read_port'])
    if cnode is None:
        raise FactError('c/csimulator.c: window test in read_port not found')
    def cev(n, pc, mn, o7):
        n = cfacts.strip(n)
        k = n.get('kind')
        if k == 'IntegerLiteral': return int(n['value'])
        if k == 'MemberExpr': return {'in_min_addr': mn, 'out7ffd': o7}.get(n.get('name'), 0)
        if k == 'DeclRefExpr': return pc
        if k == 'BinaryOperator':
            a = cev(n['inner'][0], pc, mn, o7); b = cev(n['inner'][1], pc, mn, o7)
            op = n['opcode']
            return {'||': lambda: int(bool(a or b)), '&&': lambda: int(bool(a and b)), '>=': lambda: int(a >= b), '<=': lambda: int(a <= b), '<': lambda: int(a < b),
                    '>': lambda: int(a > b), '&': lambda: a & b, '==': lambda: int(a == b)}[op]()
        raise FactError('c/csimulator.c: window test uses %s' % k)
    bad = None
    for mn in (0x4000, 0x8000):
        for o7 in (0, 0x10, 0x20, 0x1F):
            def opq(n, o7=o7):
                if isinstance(n, ast.Attribute) and n.attr == 'out7ffd': return o7
                return None
            for pc in range(0, 65536, 1):
                a = bool(Lit(repo, 'loadtracer', {'pc': pc, 'in_min_addr': mn}, opq).ev(cond)) if pc % 97 == 0 or 0x0550 <= pc <= 0x0600 or abs(pc - mn) < 3 else None
                if a is None:
                    continue
                b = bool(cev(cnode, pc, mn, o7))
                if a != b:
                    bad = (pc, mn, o7)
                    break
            if bad: break
        if bad: break
    if bad:
        ctx.violation('rom window', 'skoolkit/loadtracer.py:%d vs c/csimulator.c' % cond.lineno, 'at PC=%d (in_min_addr=%d, 0x7FFD=%d) the Python tracer and the C tracer disagree on whether the IN comes from a loader' % bad)
    else:
        ctx.ok({'predicate': ast.unparse(cond)[:90]})

def ffwd_rule(ctx, repo):
    """C13.9: fast-forwarding `loops` iterations of a sampling loop that counts with INC r / DEC r must leave the counter at counter +/- loops
    with the flags of the last INC / DEC, i.e. read the table entry for counter + loops - 1 / counter - loops + 1, and must stop before the
    counter would leave 1..255 (clamp 255 - counter / counter - 1).  Python and C are each held against that, over a grid of values."""
    ctx.rule('C13.9-fast-forward', 'sampling-loop fast-forward: table index == counter + loops - 1 (INC) / counter - loops + 1 (DEC) and clamp == 255 - counter / counter - 1, in LoadTracer._read_port and in C read_port', floor=6)
    grid = [(c, l) for c in (1, 2, 17, 128, 200, 254, 255) for l in (1, 2, 5, 100)]
    want = {'INC': lambda c, l: c + l - 1, 'DEC': lambda c, l: c - l + 1}
    clamp = {'INC': lambda c: 255 - c, 'DEC': lambda c: c - 1}
    # Python
    lt = repo.mod('loadtracer')
    rp = lt.method('LoadTracer', '_read_port')
    found = {}
    clamps = {}
    for n in ast.walk(rp):
        if isinstance(n, ast.Subscript) and isinstance(n.value, ast.Name) and n.value.id in ('INC0', 'DEC0') and isinstance(n.ctx, ast.Load):
            found[n.value.id[:3]] = n
        if isinstance(n, ast.Call) and isinstance(n.func, ast.Name) and n.func.id == 'min' and len(n.args) == 2 and 'counter' in ast.unparse(n.args[1]):
            clamps['INC' if '255' in ast.unparse(n.args[1]) else 'DEC'] = n.args[1]
    if set(found) != {'INC', 'DEC'} or set(clamps) != {'INC', 'DEC'}:
        raise FactError('skoolkit/loadtracer.py: fast-forward table reads / clamps in _read_port not found (%s, %s)' % (sorted(found), sorted(clamps)))
    for kind in ('INC', 'DEC'):
        bad = None
        for c, l in grid:
            got = Lit(repo, 'loadtracer', {'counter': c, 'loops': l}).ev(found[kind].slice)
            if got != want[kind](c, l):
                bad = 'table index `%s` gives %d for counter %d, loops %d; %d iterations of %s r end on entry %d' % (ast.unparse(found[kind].slice), got, c, l, l, kind, want[kind](c, l))
                break
            gc = Lit(repo, 'loadtracer', {'counter': c}).ev(clamps[kind])
            if gc != clamp[kind](c):
                bad = 'clamp `%s` gives %d for counter %d, expected %d' % (ast.unparse(clamps[kind]), gc, c, clamp[kind](c))
                break
        if bad:
            ctx.violation('fast-forward %s (Python)' % kind, 'skoolkit/loadtracer.py:%d' % found[kind].lineno, bad)
        else:
            ctx.ok({'side': 'python', 'kind': kind, 'index': ast.unparse(found[kind].slice)})
    # C
    facts = cfacts.load(repo.root)
    for build in ('plain', 'cont'):
        if build not in facts:
            raise FactError('c facts: build %s missing' % build)
        u = cfacts.CUnit(facts[build])
        fn = u.funcs.get('read_port')
        if fn is None:
            raise FactError('c/csimulator.c: read_port not found')
        idx = {}
        cl = {}
        def names(x, out):
            if x.get('kind') in ('DeclRefExpr',):
                out.add(x.get('ref') or (x.get('referencedDecl') or {}).get('name'))
            if x.get('kind') == 'MemberExpr':
                out.add(x.get('name'))
            for y in x.get('inner', []):
                names(y, out)
            return out
        def walk(n):
            if n.get('kind') == 'ArraySubscriptExpr':
                base, index = n['inner'][0], n['inner'][1]
                bn = names(base, set())
                inner_sub = cfacts.strip(base)
                if inner_sub.get('kind') == 'ArraySubscriptExpr':      # INC[0][index]
                    for t in ('INC', 'DEC'):
                        if t in bn and 'counter' in names(index, set()):
                            idx[t] = index
            if n.get('kind') == 'ConditionalOperator':
                a, b = n['inner'][1], n['inner'][2]
                na, nb = names(a, set()), names(b, set())
                if 'counter' in na and 'counter' in nb and 'loops' not in na and not any(x in na for x in ('INC', 'DEC')):
                    cl['INC'], cl['DEC'] = a, b
            for c in n.get('inner', []):
                walk(c)
        walk(fn)
        if set(idx) != {'INC', 'DEC'} or set(cl) != {'INC', 'DEC'}:
            raise FactError('c/csimulator.c (%s): fast-forward table reads / clamp in read_port not found (%s, %s)' % (build, sorted(idx), sorted(cl)))
        def cev(n, env):
            n = cfacts.strip(n)
            k = n.get('kind')
            if k == 'IntegerLiteral': return int(n['value'])
            if k == 'DeclRefExpr': return env[n.get('ref') or (n.get('referencedDecl') or {}).get('name')]
            if k == 'BinaryOperator':
                a, b = cev(n['inner'][0], env), cev(n['inner'][1], env)
                return {'+': a + b, '-': a - b, '*': a * b}[n['opcode']]
            raise FactError('c/csimulator.c: fast-forward expression uses %s' % k)
        for kind in ('INC', 'DEC'):
            bad = None
            for c, l in grid:
                got = cev(idx[kind], {'counter': c, 'loops': l})
                if got != want[kind](c, l):
                    bad = 'table index gives %d for counter %d, loops %d; %d iterations of %s r end on entry %d' % (got, c, l, l, kind, want[kind](c, l))
                    break
                gc = cev(cl[kind], {'counter': c})
                if gc != clamp[kind](c):
                    bad = 'clamp gives %d for counter %d, expected %d' % (gc, c, clamp[kind](c))
                    break
            if bad:
                ctx.violation('fast-forward %s (C %s)' % (kind, build), 'c/csimulator.c (read_port)', bad)
            else:
                ctx.ok({'side': 'C ' + build, 'kind': kind})

def config_rule(ctx, repo):
    """C13.10: the loading configuration must not depend on which implementation runs it.  In tap2sna.sim_load the only thing the
    `python` option (or the availability of the C modules) may decide is the simulator class: an assignment to `options.*`, a change to the
    accelerator list or to the tracer configuration that is control-dependent on that test gives the two implementations different work."""
    ctx.rule('C13.10-config', 'tap2sna.sim_load: no loader setting (options.*, accelerators, tracer config) is assigned under a test of the python option or of the availability of the C simulators', floor=3)
    m = repo.mod('tap2sna')
    fn = m.funcs.get('sim_load')
    if fn is None:
        raise FactError('skoolkit/tap2sna.py: sim_load not found')
    IMPL = ('options.python', 'CSimulator', 'CCMIOSimulator')
    def impl_test(t):
        src = ast.unparse(t)
        return any(x in src for x in IMPL)
    seen = 0
    found_choice = False
    def visit(stmts, under):
        nonlocal seen, found_choice
        for st in stmts:
            if isinstance(st, ast.If):
                u = under or (impl_test(st.test) and st)
                visit(st.body, u)
                visit(st.orelse, u)
                continue
            if isinstance(st, (ast.For, ast.While, ast.With, ast.Try)):
                for part in ('body', 'orelse', 'finalbody'):
                    visit(getattr(st, part, []) or [], under)
                for h in getattr(st, 'handlers', []):
                    visit(h.body, under)
                continue
            setting = None
            if isinstance(st, (ast.Assign, ast.AugAssign)):
                tgs = st.targets if isinstance(st, ast.Assign) else [st.target]
                for t in tgs:
                    base = t
                    while isinstance(base, ast.Subscript):
                        base = base.value
                    if isinstance(base, ast.Attribute) and isinstance(base.value, ast.Name) and base.value.id == 'options':
                        setting = ast.unparse(t)
                    elif isinstance(base, ast.Name) and base.id in ('accelerators', 'config', 'tracer_config', 'sim_config'):
                        setting = ast.unparse(t)
                    elif isinstance(base, ast.Name) and base.id == 'simulator_cls':
                        found_choice = True
            elif isinstance(st, ast.Expr) and isinstance(st.value, ast.Call) and isinstance(st.value.func, ast.Attribute) and isinstance(st.value.func.value, ast.Name) \
                    and st.value.func.value.id in ('accelerators', 'config') and st.value.func.attr in ('clear', 'append', 'extend', 'remove', 'pop', 'update', 'insert', 'add', 'discard'):
                setting = ast.unparse(st.value)
            if setting:
                seen += 1
                if under:
                    ctx.violation('setting ' + setting.split('=')[0].strip(), 'skoolkit/tap2sna.py:%d' % st.lineno, '`%s` is executed only under the test `%s` (line %d): the Python and the C simulator then load the tape with different settings' % (ast.unparse(st)[:80], ast.unparse(under.test)[:60], under.lineno))
                else:
                    ctx.ok({'setting': setting[:50], 'line': st.lineno})
    visit(fn.body, None)
    if not found_choice:
        raise FactError('skoolkit/tap2sna.py: the simulator class choice in sim_load is not recognised')
    if seen < 3:
        raise FactError('skoolkit/tap2sna.py: only %d loader settings found in sim_load' % seen)

def run(ctx):
    repo = pyfacts.Repo(ctx.repo_root)
    dec_a_rule(ctx, repo)
    ffwd_rule(ctx, repo)
    config_rule(ctx, repo)
    tables_rule(ctx, repo)
    accelerator_rule(ctx, repo)
    from sa.rules.C10 import next_int_rule
    next_int_rule(ctx, repo)
    narrowing_rule(ctx, repo)
    window_rule(ctx, repo)
    fastload_rule(ctx, repo)
    from sa.rules import intloop
    intloop.run(ctx, repo, 'C13.7-int-window')
    from sa.rules import memo
    memo.run_for(ctx, repo, 'C13')
    return report.finish(ctx, EXPLANATION)
