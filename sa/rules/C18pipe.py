"""C18.3-words (*fold*): annotations and instructions through sna2skool and skool2asm.

An annotated control file (C03pipe's generator in `plain` mode: ordinary words incl. one longer than any comment column, punctuation, no
skool macros) and a model memory go through the folded sna2skool; its skool file goes through the folded skool2asm.  Both outputs are cut
into places - the comment lines before an instruction, the comment cells of an instruction and its continuation lines, the lines after the
last instruction of an entry - and compared with what the control file puts there:

* the words of the title, description, registers and start comment, in order and once, before the first instruction of the entry; a
  mid-block comment before its instruction; the comment of a sub-block (or M directive) spread over the instructions it covers and nowhere
  else; the end comment after the last instruction;
* every instruction of the skool file once in the ASM output, same order, same operation;
* no line longer than the configured width unless its comment part is a single word (sna2skool: the comment column is never narrower
  than CommentWidthMin), or - skool2asm instruction lines - a warning was given."""
import random, re
from sa.core.pyfacts import NotLiteral
from sa.rules import C03pipe, C04pipe

def split_comment(line):
    """-> (code, comment or None) for an instruction line: the first ` ; ` (or trailing ` ;`) outside double quotes"""
    q = False
    i = 0
    while i < len(line):
        c = line[i]
        if c == '\\' and q:
            i += 2
            continue
        if c == '"':
            q = not q
        elif c == ';' and not q and i and line[i - 1] == ' ':
            return line[:i].rstrip(), line[i + 1:].strip()
        i += 1
    return line.rstrip(), None

def words(s):
    out = []
    for w in s.replace('{', ' ').replace('}', ' ').split():
        out.append(w)
    return out

def places(lines, asm):
    """-> list of entries; entry = dict(pre={k: words}, at={k: words}, end=words, ops=[(key, operation)]) with k the index of the
    instruction inside the entry (asm) or its address text (skool)"""
    entries = []
    block = []
    for l in list(lines) + ['']:
        if l.strip() == '':
            if block:
                entries.append(block)
            block = []
        else:
            block.append(l)
    out = []
    for block in entries:
        def is_instr(l):
            if l.startswith(('@', ';')):
                return False
            if asm:
                return l[0] == ' ' and not l.lstrip().startswith(';') and not l.lstrip().upper().startswith(('ORG ', 'EQU '))
            return bool(re.match(r'^[bcgistuw* ][$0-9A-Fa-f]', l))
        if not any(is_instr(l) for l in block):
            continue
        e = dict(pre={}, at={}, end=[], ops=[], long=[])
        pending = []
        cur = None
        n = 0
        for l in block:
            if l.startswith('@'):
                continue
            if asm and l[0] not in ' ;':
                continue             # label
            if asm and l.lstrip().upper().startswith('ORG '):
                continue
            if l.startswith(';'):
                t = l[1:].strip()
                toks = words(t)
                if toks and toks[0] == '.':
                    toks = toks[1:]          # paragraph separator / register continuation marker
                pending.append((toks, l))
                continue
            if is_instr(l):
                code, cm = split_comment(l)
                if asm:
                    key, op = n, code.strip()
                else:
                    m = re.match(r'^.(\S+)\s*(.*)$', code)
                    key, op = m.group(1), m.group(2).strip()
                n += 1
                e['ops'].append((key, op))
                e['pre'][key] = [w for toks, _ in pending for w in toks]
                e['prelines'] = e.get('prelines', []) + [x for _, x in pending]
                pending = []
                cur = key
                e['at'][cur] = words(cm or '')
                e.setdefault('atlines', []).append((cur, l, cm))
            else:
                code, cm = split_comment(l)
                if cur is not None:
                    e['at'][cur] += words(cm or '')
                    e.setdefault('atlines', []).append((cur, l, cm))
        e['end'] = [w for toks, _ in pending for w in toks]
        e['endlines'] = [x for _, x in pending]
        out.append(e)
    return out

def expected(ctl):
    """the places the control file defines: list of entries dict(head=words, pre={addr: words}, spans=[(addr, end, words)], end=words)"""
    ents = []
    cur = None
    for l in ctl:
        d = l[0]
        if d in '@>':
            continue
        f = l.split(' ', 2)
        params = f[1].split(',')
        addr = int(params[0])
        txt = f[2] if len(f) > 2 else ''
        if d in 'bcgstuw':
            cur = dict(addr=addr, head=words(txt), pre={}, spans=[], end=[], covered=-1)
            ents.append(cur)
        elif d == 'i':
            cur = None
        elif d in 'DR':
            cur['head'] += words(txt)
        elif d == 'N':
            if addr == cur['addr']:
                cur['head'] += words(txt)
            else:
                cur['pre'].setdefault(addr, [])
                cur['pre'][addr] += words(txt)
        elif d == 'E':
            cur['end'] += words(txt)
        elif d == 'M':
            cur['spans'].append((addr, addr + int(params[1]), words(txt)))
            cur['covered'] = addr + int(params[1])
        else:
            n = int(re.sub(r'^[a-z]+', '', params[1]))
            if addr >= cur['covered']:
                cur['spans'].append((addr, addr + n, words(txt)))
    return ents

def addr_of(key):
    return int(key[1:], 16) if key.startswith('$') else int(key)

def run(ctx, repo):
    n = 150 if ctx.tier == 'thorough' else 24
    ctx.rule('C18.3-words', 'sna2skool and skool2asm folded on %d generated annotated inputs: every annotation word once, in order, in its place; every instruction once; line widths' % n, floor=3 * n - 12)
    rnd = random.Random(1803 + ctx.seed)
    P = C04pipe.Both(repo)
    where_s = 'skoolkit/snaskool.py'
    where_a = 'skoolkit/skoolasm.py, skoolkit/skoolparser.py, skoolkit/skoolutils.py'
    seen = set()
    def report(key, where, msg):
        if key not in seen:
            seen.add(key)
            ctx.violation(key, where, msg)
    for k in range(n):
        snap, ctl, start, end = C03pipe.gen_annotated(rnd, plain=True)
        width = rnd.choice((79, 60, 100, 132))
        base = rnd.choice((10, 16))
        name = 'case %d: ctl %s, sna2skool -w %d%s' % (k, ctl, width, ' -H' if base == 16 else '')
        try:
            s1 = P.sna2skool(snap, ctl, start, end, base=base, case=2, line_width=width, ListRefs=0, ctl_range=(0, 65536))
        except NotLiteral as e:
            ctx.limit('words', 'not foldable (%s): %s' % (name[:160], e))
            continue
        exp = expected(ctl)
        got = places(s1, False)
        bad = compare(exp, got, lambda key: addr_of(key))
        if bad:
            report('sna2skool ' + bad[0], where_s, 'sna2skool: %s; skool file: %s; %s' % (bad[1], s1, name))
        else:
            ctx.ok({'case': k, 'tool': 'sna2skool', 'entries': len(exp)} if k % 8 == 0 else None)
        # line width, sna2skool
        cwmin = P.defaults.get('CommentWidthMin', 10)
        bad = None
        for e in got:
            for l in e.get('prelines', []) + e.get('endlines', []):
                if len(l) > width and len(l[1:].split()) > 1:
                    bad = l
            ops = [op for _, op in e['ops']]
            opw = max([13] + [len(o) for o in ops])
            cw = max(width - opw - 8, cwmin)
            for key, l, cm in e.get('atlines', []):
                if cm and len(cm) > cw and len(cm.split()) > 1:
                    bad = l
        if bad:
            report('sna2skool line width', where_s, 'sna2skool -w %d wrote a line of %d characters whose comment holds more than one word: %r; %s' % (width, len(bad), bad, name))
        else:
            ctx.ok()
        # skool2asm on that skool file
        awidth = rnd.choice((79, 60, 100))
        try:
            P.files['in.skool'] = [l + '\n' for l in s1]
            P.stdout, P.warnings = [], []
            cfp = P.cf.sibling('skoolparser')
            parser = cfp.new('SkoolParser', 'in.skool', 0, 0, 1, False, 0, False, False, True, ('L{address}', '{main}_{index}'), 0, 65536, ())
            props = dict(parser.properties)
            props['warnings'] = '1'
            props['line-width'] = str(awidth)
            cfa = P.cf.sibling('skoolasm')
            w = cfa.new('AsmWriter', parser, props, {}, dict(P.asm_config))
            cfa.call(w, 'write')
            asm = ''.join(P.stdout).split('\n')
            warnings = list(P.warnings)
        except NotLiteral as e:
            ctx.limit('words', 'skool2asm not foldable (%s): %s' % (name[:160], e))
            continue
        gota = places(asm, True)
        # the skool file's own places are the expectation for the ASM output (instruction k of the entry <-> instruction line k)
        bad = None
        if len(gota) != len(got):
            bad = ('entries', '%d entries in the skool file, %d in the ASM output' % (len(got), len(gota)))
        else:
            for ei, (es, ea) in enumerate(zip(got, gota)):
                ops_s = [op for _, op in es['ops']]
                ops_a = [op for _, op in ea['ops']]
                if ops_s != ops_a:
                    bad = ('instructions', 'entry %d: instructions of the skool file %s, of the ASM output %s' % (ei, ops_s, ops_a))
                    break
                for i, (key, _) in enumerate(es['ops']):
                    if es['pre'][key] != ea['pre'][i]:
                        bad = ('comment above an instruction', 'entry %d, instruction %s: words above it in the skool file %s, in the ASM output %s' % (ei, key, es['pre'][key], ea['pre'][i]))
                        break
                # a comment in braces belongs to the group of instructions it spans: the words may move between the lines of the group
                for lo, hi in groups(es):
                    ws = [w for key, _ in es['ops'][lo:hi] for w in es['at'][key]]
                    wa = [w for i in range(lo, hi) for w in ea['at'][i]]
                    if ws != wa:
                        bad = ('instruction comment', 'entry %d, instructions %s: comment words in the skool file %s, in the ASM output %s' % (ei, [k for k, _ in es['ops'][lo:hi]], ws, wa))
                        break
                if bad:
                    break
                if es['end'] != ea['end']:
                    bad = ('end comment', 'entry %d: end comment words in the skool file %s, in the ASM output %s' % (ei, es['end'], ea['end']))
                    break
        if bad:
            report('skool2asm ' + bad[0], where_a, 'skool2asm: %s; ASM output: %s; %s' % (bad[1], asm, name))
        else:
            ctx.ok({'case': k, 'tool': 'skool2asm', 'lines': len(asm)} if k % 8 == 0 else None)
        bad = None
        for l in asm:
            if l.startswith(('; header', '; footer', '; second header')):
                continue          # non-entry blocks are copied as they are
            if len(l) > awidth:
                if l.startswith(';'):
                    if len(l[1:].split()) > 1:
                        bad = l
                else:
                    code, cm = split_comment(l)
                    avail = awidth - (len(l) - len(cm)) if cm else 0
                    if cm and len(cm.split()) > 1 and avail >= 10:
                        bad = l          # the comment column had room for `avail` characters: a wrapped line of several words must fit
                    elif not any(l in wtext for wtext in warnings):
                        bad = l          # an unbreakable word or an instruction that leaves no room: allowed, but with a warning
        if bad:
            report('skool2asm line width', where_a, 'skool2asm (line-width %d) wrote a line of %d characters that holds more than one comment word although the comment column had room, or gave no warning for it: %r; warnings %s; %s' % (awidth, len(bad), bad, warnings[:2], name))

def groups(e):
    """-> [(lo, hi)] index ranges of the instructions sharing one comment: a comment cell opening with `{` runs to the line that closes it"""
    out = []
    keys = [k for k, _ in e['ops']]
    first = {}
    depth = 0
    start = None
    for key, l, cm in e.get('atlines', []):
        i = keys.index(key)
        if depth == 0:
            start = i
        depth += (cm or '').count('{') - (cm or '').count('}')
        if depth <= 0:
            depth = 0
            if not out or out[-1] != (start, i + 1):
                if out and out[-1][0] == start:
                    out[-1] = (start, i + 1)
                else:
                    out.append((start, i + 1))
    if depth and start is not None:
        out.append((start, len(keys)))
    return out

def compare(exp, got, addr):
    if len(exp) != len(got):
        return ('entries', '%d entries in the control file, %d in the skool file' % (len(exp), len(got)))
    for ei, (x, g) in enumerate(zip(exp, got)):
        keys = [k for k, _ in g['ops']]
        addrs = [addr(k) for k in keys]
        if addrs != sorted(set(addrs)):
            return ('instructions', 'entry %d: instruction addresses %s are not strictly increasing' % (ei, addrs))
        if not keys or addrs[0] != x['addr']:
            return ('instructions', 'entry %d starts at %s, expected %d' % (ei, addrs[:1], x['addr']))
        if g['pre'][keys[0]] != x['head']:
            return ('entry header', 'entry %d at %d: words before the first instruction %s, expected (title, description, registers, start comment) %s' % (ei, x['addr'], g['pre'][keys[0]], x['head']))
        for k, a in zip(keys[1:], addrs[1:]):
            if g['pre'][k] != x['pre'].get(a, []):
                return ('mid-block comment', 'entry %d: words above the instruction at %d are %s, expected %s' % (ei, a, g['pre'][k], x['pre'].get(a, [])))
        done = set()
        for (lo, hi, ws) in x['spans']:
            have = [w for k, a in zip(keys, addrs) if lo <= a < hi for w in g['at'][k]]
            done |= {a for a in addrs if lo <= a < hi}
            if have != ws:
                return ('instruction comment', 'entry %d: the comment of the directive covering %d-%d is %s, the instructions in that range carry %s' % (ei, lo, hi - 1, ws, have))
        for k, a in zip(keys, addrs):
            if a not in done and g['at'][k]:
                return ('instruction comment', 'entry %d: the instruction at %d carries the comment words %s, no directive puts a comment there' % (ei, a, g['at'][k]))
        if g['end'] != x['end']:
            return ('end comment', 'entry %d: words after the last instruction %s, expected %s' % (ei, g['end'], x['end']))
    return None

# ------------------------------------------------------------------------------------------ C18.4 tables and lists (*fold*)
SHORT = 'A B HL 12 x1 up lo hi on off'.split()

def gen_table(rnd, long_rows=False):
    """-> (macro text without flag, rows) ; rows = list of cells (column index, colspan, words); column 1 is wrappable when `wrap`"""
    ncols = rnd.choice((2, 3))
    wrap = rnd.random() < 0.7
    longw = rnd.random() < 0.25
    wcol = 1
    classes = ['default'] + ['', ':w' if wrap else '', ''][:ncols]
    rows = []
    text = '#TABLE(%s)' % ','.join(classes)
    if rnd.random() < 0.6:
        cells = [(c, 1, [rnd.choice(('Name', 'Meaning', 'Notes', 'Reg'))], '=h ') for c in range(ncols)]
        rows.append(cells)
    for r in range(rnd.randrange(2, 5)):
        cells = []
        c = 0
        while c < ncols:
            span = 1
            if c == wcol and ncols == 3 and (rnd.random() < 0.5 or (wrap and r == 1)):
                span = 2          # (a wrappable table of three columns always has a row whose wrappable cell spans two)
            if c == wcol:
                vocab = C03pipe.PLAIN[:14] if longw else C03pipe.PLAIN[:12]
                ws = C03pipe.text(rnd, 8 if span > 1 and wrap else 1, 18 if wrap else 4, vocab).split()
                if long_rows and r == 0:
                    ws = C03pipe.text(rnd, 35, 60, vocab).split()          # a row of three or more lines
            elif c == ncols - 1 and rnd.random() < 0.25:
                ws = []
            else:
                ws = [rnd.choice(SHORT)]
            cells.append((c, span, ws, '=c%d ' % span if span > 1 else ''))
            c += span
        rows.append(cells)
    for cells in rows:
        text += ' { ' + ' | '.join((attr + ' '.join(ws)).rstrip() if ws or attr else '' for _, _, ws, attr in cells) + ' }'
    text = text.replace('|  }', '| }').replace('{  |', '{ |')
    return text + ' TABLE#', rows, ncols, wrap

def gen_list(rnd, long_rows=False):
    items = [C03pipe.text(rnd, 1, 22, C03pipe.PLAIN[:14]).split() for _ in range(rnd.randrange(1, 5))]
    if long_rows:
        items[0] = C03pipe.text(rnd, 35, 60, C03pipe.PLAIN[:14]).split()
    return '#LIST ' + ' '.join('{ %s }' % ' '.join(ws) for ws in items) + ' LIST#', items

def table_columns(lines, starts):
    """per-column word sequences of a rendered ASCII table (no row spans, no transparent cells); `starts` = the columns some cell starts
    in (a boundary no cell starts at is invisible); None if the table is not a rectangle with those boundaries"""
    if not lines or len({len(l) for l in lines}) != 1:
        return None
    bounds = set()
    for l in lines:
        if l.startswith('+'):
            if not (set(l) <= set('+-')):
                return None
            bounds |= {i for i, ch in enumerate(l) if ch == '+'}
        elif l.startswith('|'):
            bounds |= {i for i, ch in enumerate(l) if ch == '|'}
        else:
            return None
    bounds = sorted(bounds)
    if len(bounds) != len(starts) + 1 or bounds[0] != 0 or bounds[-1] != len(lines[0]) - 1:
        return None
    cols = {c: [] for c in starts}
    for l in lines:
        if l.startswith('|'):
            cuts = [k for k, i in enumerate(bounds) if l[i] == '|']
            if cuts[0] != 0 or cuts[-1] != len(bounds) - 1:
                return None
            for a, b in zip(cuts, cuts[1:]):
                cols[starts[a]] += l[bounds[a] + 1:bounds[b]].split()
    return cols

def fits(rows, ncols, max_width):
    """can the table be laid out within max_width?  Non-wrappable columns need their widest cell, the wrappable column (1) its longest
    word (at least the minimum wrap column width 10); borders take 3 per column + 1"""
    need = [0] * ncols
    for cells in rows:
        for c, span, ws, attr in cells:
            if c == 1:
                need[1] = max([need[1], 10] + [len(w) for w in ws])
            elif span == 1:
                need[c] = max(need[c], len(' '.join(ws)))
    return 3 * (ncols + 1) - 2 + sum(need) <= max_width

def blocks_rule(ctx, repo):
    n = 120 if ctx.tier == 'thorough' else 48
    ctx.rule('C18.4-blocks', '#TABLE / #LIST blocks (plain, <nowrap>, <wrapalign>) in entry descriptions through the folded sna2skool and skool2asm on %d generated inputs: sna2skool keeps every word in order; skool2asm renders a rectangular table whose columns hold the cells\' words in order, within the line width when a column is wrappable; list items keep their words and fit the width' % n, floor=2 * n - 8)
    rnd = random.Random(1804 + ctx.seed)
    P = C04pipe.Both(repo)
    where_s = 'skoolkit/snaskool.py'
    where_a = 'skoolkit/skoolasm.py, skoolkit/skoolutils.py'
    seen = set()
    def report(key, where, msg):
        if key not in seen:
            seen.add(key)
            ctx.violation(key, where, msg)
    for k in range(n):
        is_table = k % 3 != 2
        flag = rnd.choice(('', '', '<nowrap>', '<wrapalign>', '<wrapalign>'))
        if is_table:
            block, rows, ncols, wrap = gen_table(rnd, flag == '<wrapalign>')
        else:
            block, items = gen_list(rnd, flag == '<wrapalign>')
        if flag:
            i = block.index(')') + 1 if is_table else len('#LIST')
            if not is_table:
                block = '#LIST()' + block[len('#LIST'):]
                i = len('#LIST()')
            block = block[:i] + flag + block[i:]
        before = C03pipe.text(rnd, 2, 12, C03pipe.PLAIN)
        after = C03pipe.text(rnd, 2, 12, C03pipe.PLAIN)
        start = 40000
        snap = [0] * 65536
        snap[start:start + 3] = [1, 2, 3]
        ctl = ['@ %d start' % start, '@ %d org' % start, 'b %d Title words' % start, 'D %d %s' % (start, before), 'D %d %s' % (start, block), 'D %d %s' % (start, after), 'B %d,3,3' % start, 'i %d' % (start + 3)]
        width = rnd.choice((79, 60, 100))
        name = 'case %d: D paragraph `%s`, sna2skool -w %d' % (k, block, width)
        try:
            s1 = P.sna2skool(snap, ctl, start, start + 3, line_width=width, ListRefs=0, ctl_range=(0, 65536))
        except NotLiteral as e:
            ctx.limit('blocks', 'not foldable (%s): %s' % (name[:200], e))
            continue
        head = [l[1:].strip() for l in s1 if l.startswith(';')]
        got = [w for l in head for w in l.split() if l != '.']
        want = 'Title words'.split() + before.split() + block.split() + after.split()
        if [w for w in got if w != '.'] != want:
            report('sna2skool block words', where_s, 'sna2skool: the words of the description are %s, the control file has %s; %s' % (got, want, name))
        else:
            ctx.ok({'case': k, 'tool': 'sna2skool', 'block': block[:40]} if k % 8 == 0 else None)
        if flag != '<nowrap>':
            long_ = [l for l in s1 if l.startswith(';') and len(l) > width and len(l[1:].split()) > 1]
            if long_:
                report('sna2skool block width', where_s, 'sna2skool -w %d wrote %r (%d characters); %s' % (width, long_[0], len(long_[0]), name))
        # skool2asm
        awidth = rnd.randrange(52, 101)
        try:
            P.files['in.skool'] = [l + '\n' for l in s1]
            P.stdout, P.warnings = [], []
            cfp = P.cf.sibling('skoolparser')
            parser = cfp.new('SkoolParser', 'in.skool', 0, 0, 1, False, 0, False, False, True, ('L{address}', '{main}_{index}'), 0, 65536, ())
            props = dict(parser.properties)
            props['warnings'] = '1'
            props['line-width'] = str(awidth)
            cfa = P.cf.sibling('skoolasm')
            w = cfa.new('AsmWriter', parser, props, {}, dict(P.asm_config))
            cfa.call(w, 'write')
            asm = ''.join(P.stdout).split('\n')
            warnings = list(P.warnings)
        except NotLiteral as e:
            ctx.limit('blocks', 'skool2asm not foldable (%s): %s' % (name[:200], e))
            continue
        except (KeyError, IndexError, ValueError, TypeError, AttributeError) as e:
            report('skool2asm block failure', where_a, 'skool2asm fails with %s: %s; %s' % (type(e).__name__, e, name))
            continue
        paras = [[]]
        for l in asm:
            if l.startswith(';'):
                t = l[1:].rstrip()
                if t.strip() == '':
                    paras.append([])
                else:
                    paras[-1].append(t[1:] if t.startswith(' ') else t)
        paras = [p for p in paras if p]
        aname = '%s; skool2asm line-width %d; ASM comment lines %s; warnings %s' % (name, awidth, [l for l in asm if l.startswith(';')], warnings[:2])
        if len(paras) != 4 or ' '.join(paras[0]).split() != ['Title', 'words'] or ' '.join(paras[1]).split() != before.split() or ' '.join(paras[3]).split() != after.split():
            report('skool2asm block paragraphs', where_a, 'skool2asm: expected title, text, block and text paragraphs with their words; %s' % aname)
            continue
        body = paras[2]
        if is_table:
            want_cols = {}
            for cells in rows:
                for c, span, ws, attr in cells:
                    want_cols.setdefault(c, [])
                    want_cols[c] += ws
            cols = table_columns(body, sorted(want_cols))
            if cols is None:
                report('skool2asm table shape', where_a, 'skool2asm: the rendered table is not a rectangle with %d columns; %s' % (ncols, aname))
            elif cols != want_cols:
                report('skool2asm table cells', where_a, 'skool2asm: the columns of the rendered table hold %s, the cells of the table hold %s; %s' % (cols, want_cols, aname))
            elif wrap and fits(rows, ncols, awidth - 2) and (max(len(l) for l in body) + 2 > awidth or any('Table in entry' in x for x in warnings)):
                report('skool2asm table width', where_a, 'skool2asm: a table whose wrappable column leaves room (every word fits a column of the remaining width) is %d characters wide (with the comment prefix) at line width %d, or a width warning was given; %s' % (max(len(l) for l in body) + 2, awidth, aname))
            elif max(len(l) for l in body) + 2 > awidth and not any('Table in entry' in x for x in warnings):
                report('skool2asm table warning', where_a, 'skool2asm: a table of %d characters at line width %d without a warning; %s' % (max(len(l) for l in body) + 2, awidth, aname))
            else:
                ctx.ok({'case': k, 'tool': 'skool2asm', 'table': '%d columns' % ncols} if k % 8 == 0 else None)
        else:
            gotw = []
            for l in body:
                ws = l.split()
                if l.startswith('* '):
                    gotw.append(ws[1:])
                elif gotw:
                    gotw[-1] += ws
                else:
                    gotw.append(ws)
            if gotw != items:
                report('skool2asm list items', where_a, 'skool2asm: the list items hold %s, expected %s; %s' % (gotw, items, aname))
            elif any(len(l) + 2 > awidth and len(l.split()) > 2 for l in body):
                report('skool2asm list width', where_a, 'skool2asm: a list line is longer than the line width %d; %s' % (awidth, aname))
            else:
                ctx.ok({'case': k, 'tool': 'skool2asm', 'list': len(items)} if k % 8 == 0 else None)
