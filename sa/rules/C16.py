"""C16 - HTML links resolve (template and ownership clauses)."""
import ast, re
from sa.core import pyfacts, report
from sa.core.pyfacts import Lit, NotLiteral, FactError

EXPLANATION = (
    "Decides, from the HTML templates in defaults.py (parsed into their foreach/if structure) and skoolhtml.py: (1) inside each loop, an "
    "element id built from the loop variable's anchor is emitted at most once on every path through the template's if-directives, and two id "
    "producers fed by the same address-anchor function do not share a page (exactly one anchor per entry / instruction); (2) every "
    "href=\"#{$x[anchor]}\" has an id producer for the same collection in the same template; (3) the address-anchor and code-file-name "
    "templates are each read in exactly one function, and every place that builds an entry/instruction href or file name goes through those "
    "functions; (4) every field a template reads from $instruction / $entry / entry is produced by the dictionary builders. Known findings: "
    "the mid-block-comment row and the single-page entry header duplicate an id. Not decided: existence of files for arbitrary skool/ref "
    "input, uniqueness of written paths, relative-path arithmetic.")

DIRECTIVE = re.compile(r'<#\s*(foreach|if|elif|else|endfor|endif|include)\s*(?:\((.*)\))?\s*#>')

def parse_template(text):
    """-> tree: list of nodes ('text', str, line) | ('foreach', var, coll, body, line) | ('if', [(cond, body)], line)"""
    lines = text.split('\n')
    pos = 0
    def parse(end_tokens):
        nonlocal pos
        out = []
        while pos < len(lines):
            line = lines[pos]
            m = DIRECTIVE.match(line.strip())
            if not m:
                out.append(('text', line, pos))
                pos += 1
                continue
            kind, arg = m.group(1), m.group(2)
            if kind in end_tokens:
                return out, kind, arg
            pos += 1
            if kind == 'foreach':
                var, coll = [a.strip() for a in arg.split(',', 1)]
                body, k, a = parse(('endfor',))
                pos += 1
                out.append(('foreach', var, coll, body, pos))
            elif kind == 'if':
                branches = []
                cond = arg
                while True:
                    body, k, a = parse(('elif', 'else', 'endif'))
                    branches.append((cond, body))
                    pos += 1
                    if k == 'endif' or k is None:
                        break
                    cond = a if k == 'elif' else None
                out.append(('if', branches, pos))
            else:
                out.append(('text', line, pos - 1))
        return out, None, None
    tree, k, a = parse(())
    return tree

ID_RE = re.compile(r'id="\{(\$?\w+)\[anchor\]\}"')
HREF_RE = re.compile(r'href="#\{(\$?\w+)\[anchor\]\}"')

def id_counts(nodes, var):
    """(min, max) number of id="{var[anchor]}" emissions over the paths through `nodes` (nested loops over other variables are skipped)."""
    lo = hi = 0
    sites = []
    for n in nodes:
        if n[0] == 'text':
            c = sum(1 for m in ID_RE.finditer(n[1]) if m.group(1) == var)
            lo += c; hi += c
            if c:
                sites.append(n[2])
        elif n[0] == 'if':
            blo, bhi = None, 0
            has_else = any(c is None for c, b in n[1])
            for cond, body in n[1]:
                l2, h2, s2 = id_counts(body, var)
                blo = l2 if blo is None else min(blo, l2)
                bhi = max(bhi, h2)
                sites += s2
            if not has_else:
                blo = 0
            lo += blo or 0
            hi += bhi
        elif n[0] == 'foreach':
            if n[1] == var:
                continue
            l2, h2, s2 = id_counts(n[3], var)
            # a nested loop may run zero or many times
            if h2:
                hi += 2 * h2
                sites += s2
    return lo, hi, sites

def loops(nodes, out):
    for n in nodes:
        if n[0] == 'foreach':
            out.append(n)
            loops(n[3], out)
        elif n[0] == 'if':
            for c, b in n[1]:
                loops(b, out)
    return out

def all_text(nodes):
    for n in nodes:
        if n[0] == 'text':
            yield n[1]
        elif n[0] == 'if':
            for c, b in n[1]:
                yield from all_text(b)
        elif n[0] == 'foreach':
            yield from all_text(n[3])

def template_rule(ctx, repo):
    ctx.rule('C16.1-one-anchor', 'per loop iteration an anchor id is emitted at most once on every path; address-anchor producers do not share a page', floor=6)
    ctx.rule('C16.2-href-has-id', 'every href="#{$x[anchor]}" has an id producer for the same loop collection in the same template', floor=2)
    mod = repo.mod('defaults')
    src = mod.src
    templates = {}
    for n in ast.walk(mod.tree):
        if isinstance(n, ast.Assign) and isinstance(n.targets[0], ast.Subscript) and ast.unparse(n.targets[0].value) == 'SECTIONS' \
           and isinstance(n.targets[0].slice, ast.Constant) and str(n.targets[0].slice.value).startswith('Template:') and isinstance(n.value, ast.Constant):
            templates[n.targets[0].slice.value] = (n.value.value, n.lineno)
    if len(templates) < 10:
        raise FactError('skoolkit/defaults.py: only %d templates found' % len(templates))
    nid = nhref = 0
    for name, (text, line0) in sorted(templates.items()):
        tree = parse_template(text)
        for lp in loops(tree, []):
            var = lp[1]
            lo, hi, sites = id_counts(lp[3], var)
            if hi == 0:
                continue
            nid += 1
            where = 'skoolkit/defaults.py:%d' % (line0 + (sites[0] if sites else 0))
            if hi > 1:
                ctx.violation('%s %s id' % (name, var), where, 'in %s an element with id="{%s[anchor]}" can be emitted %d times for one %s (template lines %s): the HTML has duplicate ids and the link target is ambiguous' %
                              (name, var, hi, var.lstrip('$'), [line0 + s for s in sites]), rule='C16.1-one-anchor')
            else:
                ctx.ok({'template': name, 'loop variable': var, 'ids per iteration': [lo, hi]}, rule='C16.1-one-anchor')
        # two producers fed by asm_anchor(address) in one page: $entry and $instruction anchors (an entry's address is its first instruction's)
        texts = '\n'.join(all_text(tree))
        producers = set(m.group(1) for m in ID_RE.finditer(texts))
        if {'$entry', '$instruction'} <= producers:
            ctx.violation('%s entry/instruction ids' % name, 'skoolkit/defaults.py:%d' % line0,
                          'in %s both id="{$entry[anchor]}" and id="{$instruction[anchor]}" are emitted on one page; both come from asm_anchor(address) and an entry starts at its first instruction, so that id appears twice' % name, rule='C16.1-one-anchor')
        for m in HREF_RE.finditer(texts):
            nhref += 1
            v = m.group(1)
            if v in producers:
                ctx.ok({'template': name, 'href': '#{%s[anchor]}' % v}, rule='C16.2-href-has-id')
            else:
                ctx.violation('%s href %s' % (name, v), 'skoolkit/defaults.py:%d' % line0, 'in %s a link to #{%s[anchor]} has no element with that id in the same template' % (name, v), rule='C16.2-href-has-id')
    if nid < 6 or nhref < 2:
        raise FactError('skoolkit/defaults.py: expected at least 6 anchor-id loops and 2 fragment links, found %d / %d' % (nid, nhref))
    return templates

def single_source_rule(ctx, repo):
    ctx.rule('C16.3-single-source', 'the anchor and file-name templates are read in one function each; entry/instruction hrefs and file names go through asm_anchor / asm_fname / _asm_relpath', floor=6)
    mod = repo.mod('skoolhtml')
    cls = mod.cls('HtmlWriter')
    for attr, owner in (('asm_anchor_template', 'asm_anchor'), ('asm_fname_template', 'asm_fname')):
        readers = set()
        for f in cls.body:
            if not isinstance(f, ast.FunctionDef):
                continue
            for n in ast.walk(f):
                if isinstance(n, ast.Attribute) and n.attr == attr and isinstance(n.ctx, ast.Load):
                    readers.add(f.name)
        if readers != {owner}:
            ctx.violation(attr, 'skoolkit/skoolhtml.py', 'self.%s is read in %s; anchors/file names formatted anywhere but %s() can disagree with the ids/files that are written' % (attr, sorted(readers), owner))
        else:
            ctx.ok({'attribute': attr, 'read only in': owner})
    # every dict key 'anchor' / 'href' for entries and instructions is produced by the owner functions
    sites = 0
    for f in cls.body:
        if not isinstance(f, ast.FunctionDef):
            continue
        for n in ast.walk(f):
            if isinstance(n, ast.Dict):
                for k, v in zip(n.keys, n.values):
                    if isinstance(k, ast.Constant) and k.value == 'anchor' and f.name in ('_get_entry_dict', '_get_asm_entry', '_get_instruction_dict', '_get_asm_instruction_dict', '_get_map_entry_dict', '_get_asm_entry_dict'):
                        sites += 1
                        if 'asm_anchor' in ast.unparse(v):
                            ctx.ok({'function': f.name, 'anchor': ast.unparse(v)[:60]})
                        else:
                            ctx.violation('%s anchor' % f.name, 'skoolkit/skoolhtml.py:%d' % v.lineno, "%s builds 'anchor' as %s, not through asm_anchor()" % (f.name, ast.unparse(v)[:80]))
            if isinstance(n, ast.Call) and isinstance(n.func, ast.Name) and n.func.id == 'format_template' and n.args and isinstance(n.args[0], ast.Attribute):
                if n.args[0].attr in ('asm_anchor_template', 'asm_fname_template'):
                    sites += 1
                    ctx.ok({'function': f.name, 'formats': n.args[0].attr})
    if sites < 4:
        raise FactError('skoolkit/skoolhtml.py: anchor producer sites not recognised (%d)' % sites)
    # the fragment of an operand/R-macro link is the anchor function of the target address
    rp = [f for f in cls.body if isinstance(f, ast.FunctionDef) and f.name == '_asm_relpath']
    if not rp:
        raise FactError('skoolkit/skoolhtml.py: _asm_relpath not found')
    if 'asm_fname' in ast.unparse(rp[0]) or 'get_entry' in ast.unparse(rp[0]):
        ctx.ok({'function': '_asm_relpath', 'uses': 'asm_fname / entry lookup'})
    else:
        ctx.violation('_asm_relpath', 'skoolkit/skoolhtml.py:%d' % rp[0].lineno, '_asm_relpath no longer derives the page of an address from asm_fname()')

def fields_rule(ctx, repo, templates):
    ctx.rule('C16.4-fields', 'every field a template reads from entry / instruction / map-entry dictionaries is produced by a dictionary builder of HtmlWriter', floor=30)
    mod = repo.mod('skoolhtml')
    produced = set()
    for n in ast.walk(mod.tree):
        if isinstance(n, ast.Dict):
            for k in n.keys:
                if isinstance(k, ast.Constant) and isinstance(k.value, str):
                    produced.add(k.value)
        if isinstance(n, ast.Assign):
            for t in n.targets:
                if isinstance(t, ast.Subscript) and isinstance(t.slice, ast.Constant) and isinstance(t.slice.value, str):
                    produced.add(t.slice.value)
        if isinstance(n, ast.Call) and isinstance(n.func, ast.Name) and n.func.id == 'dict':
            for k in n.keywords:
                if k.arg:
                    produced.add(k.arg)
        if isinstance(n, ast.Call) and isinstance(n.func, ast.Attribute) and n.func.attr in ('update', 'setdefault') and n.args and isinstance(n.args[0], ast.Constant):
            produced.add(n.args[0].value)
        # dict(zip(KEYS, values)) / dict.fromkeys(KEYS): the keys are the strings of KEYS (a literal, or a name bound to one in the module)
        if isinstance(n, ast.Call) and isinstance(n.func, ast.Name) and n.func.id == 'zip' and n.args:
            k = n.args[0]
            cands = [k]
            if isinstance(k, ast.Name):
                cands = [a.value for a in ast.walk(mod.tree) if isinstance(a, ast.Assign) and any(isinstance(t, ast.Name) and t.id == k.id for t in a.targets)]
            for c in cands:
                if isinstance(c, (ast.Tuple, ast.List)):
                    produced.update(e.value for e in c.elts if isinstance(e, ast.Constant) and isinstance(e.value, str))
    FIELD = re.compile(r'\{?(\$?(?:entry|instruction|next_entry|prev_entry|reg|item|list_entry|row|cell))\[(\w+)\]')
    seen = set()
    for name, (text, line0) in sorted(templates.items()):
        for m in FIELD.finditer(text):
            var, key = m.group(1), m.group(2)
            if (var, key) in seen:
                continue
            seen.add((var, key))
            if key in produced:
                ctx.ok({'template': name, 'field': '%s[%s]' % (var, key)})
            else:
                ctx.violation('%s %s[%s]' % (name, var, key), 'skoolkit/defaults.py:%d' % line0, '%s reads %s[%s] but no dictionary builder in skoolhtml.py produces the key %r' % (name, var, key, key))

def page_predicate_rule(ctx, repo):
    ctx.rule('C16.5-page-predicate', 'an operand link is created only if the *entry* that owns the target instruction passes the same test HtmlWriter uses to decide which entries get pages', floor=1)
    hw = repo.mod('skoolhtml').method('HtmlWriter', '__init__')
    pred = None
    for n in ast.walk(hw):
        if isinstance(n, ast.ListComp) and 'memory_map' in ast.unparse(n.generators[0].iter) and n.generators[0].ifs:
            t = n.generators[0].ifs[0]
            var = n.generators[0].target.id
            if isinstance(t, ast.Compare) and isinstance(t.left, ast.Attribute) and isinstance(t.left.value, ast.Name) and t.left.value.id == var:
                pred = (t.left.attr, type(t.ops[0]).__name__, ast.unparse(t.comparators[0]))
    if pred is None:
        raise FactError('skoolkit/skoolhtml.py: filter of parser.memory_map in HtmlWriter.__init__ not found')
    sp = repo.mod('skoolparser')
    cr = None
    for c in sp.classes:
        if 'calculate_references' in sp.methods(c):
            cr = sp.methods(c)['calculate_references']
    if cr is None:
        raise FactError('skoolkit/skoolparser.py: calculate_references not found')
    # which local holds the owning entry: instructions = {i.address: (i, e) ...}; ref_i, ref_e = instructions.get(...)
    entry_var = None
    for n in ast.walk(cr):
        if isinstance(n, ast.Assign) and isinstance(n.targets[0], ast.Tuple) and len(n.targets[0].elts) == 2 and isinstance(n.value, ast.Call) and ast.unparse(n.value.func).endswith('.get'):
            entry_var = n.targets[0].elts[1].id
    found = False
    for n in ast.walk(cr):
        if isinstance(n, ast.If) and any(isinstance(x, ast.Assign) and ast.unparse(x.targets[0]).startswith('references[') for x in n.body):
            found = True
            conj = n.test.values if isinstance(n.test, ast.BoolOp) and isinstance(n.test.op, ast.And) else [n.test]
            ok = any(isinstance(c, ast.Compare) and isinstance(c.left, ast.Attribute) and isinstance(c.left.value, ast.Name) and c.left.value.id == entry_var
                     and (c.left.attr, type(c.ops[0]).__name__, ast.unparse(c.comparators[0])) == pred for c in conj)
            if ok:
                ctx.ok({'link guard': '%s.%s %s %s' % (entry_var, pred[0], pred[1], pred[2])})
            else:
                ctx.violation('calculate_references guard', 'skoolkit/skoolparser.py:%d' % n.lineno,
                              'operand links are created under `%s`, which does not test the owning entry (%s.%s %s %s) the way HtmlWriter decides which entries get pages: a link into an unwritten page can be produced' % (ast.unparse(n.test)[:120], entry_var, pred[0], pred[1], pred[2]))
    if not found or entry_var is None:
        raise FactError('skoolkit/skoolparser.py: reference creation site in calculate_references not recognised')

def run(ctx):
    repo = pyfacts.Repo(ctx.repo_root)
    page_predicate_rule(ctx, repo)
    templates = template_rule(ctx, repo)
    single_source_rule(ctx, repo)
    fields_rule(ctx, repo, templates)
    from sa.rules import C16links
    C16links.run(ctx, repo)
    C16links.run_ignored(ctx, repo)
    C16links.run_operands(ctx, repo)
    C16links.run_link(ctx, repo)
    from sa.rules import stalecopy
    stalecopy.run(ctx, repo, 'C16.6-stale-copy', ('skoolhtml', 'skool2html', 'skoolparser'))
    from sa.rules import memo
    memo.run_for(ctx, repo, 'C16')
    return report.finish(ctx, EXPLANATION)
