"""Bulk behaviour-preserving twins of the whole package (each was confirmed to leave the pinned suite at 4577 passed / 14 failed when it
was written; see DESIGN 9.65).  apply(kind, root) rewrites root/skoolkit/*.py (or root/c/csimulator.c for `crename`) in place.

  rename   every local variable of every function X -> X_rn
  rettemp  return E -> _rv = E; return _rv
  invert   if C: A else: B -> if not C: B else: A
  flip     a < b -> b > a (all six comparison operators)
  mask     x % 2^k -> x & (2^k - 1), x // 2^k -> x >> k   (simulator modules)
  aug      registers[i] += x -> registers[i] = registers[i] + x   (simulator modules)
  fstring  f'...{x}...' -> '...{}...'.format(x)
  swap     two adjacent assignments to plain names that do not mention each other's target and contain no call: exchanged
  untuple  a, b = x, y -> a = x; b = y when no target occurs in a value
  crename  every local variable of every C function X -> X_rn (token offsets from clang's JSON AST)
  cflip    C comparisons outside macros: A op B -> (B) flipped-op (A)"""
import ast, copy, json, os, subprocess, sysconfig

KINDS = ('rename', 'rettemp', 'invert', 'flip', 'mask', 'aug', 'fstring', 'swap', 'untuple', 'crename', 'cflip')
SIM = ('simulator.py', 'cmiosimulator.py', 'loadtracer.py', 'pagingtracer.py', 'simutils.py')

def _outer(tree):
    for n in tree.body:
        if isinstance(n, ast.FunctionDef):
            yield n
        elif isinstance(n, ast.ClassDef):
            for m in n.body:
                if isinstance(m, ast.FunctionDef):
                    yield m

def _rename(fn):
    params, assigned, declared = set(), set(), set()
    for n in ast.walk(fn):
        if isinstance(n, (ast.FunctionDef, ast.Lambda)):
            a = n.args
            for x in a.args + a.kwonlyargs + a.posonlyargs:
                params.add(x.arg)
            if a.vararg: params.add(a.vararg.arg)
            if a.kwarg: params.add(a.kwarg.arg)
            if isinstance(n, ast.FunctionDef) and n is not fn:
                declared.add(n.name)
        elif isinstance(n, (ast.Global, ast.Nonlocal)):
            declared |= set(n.names)
        elif isinstance(n, ast.Name) and isinstance(n.ctx, (ast.Store, ast.Del)):
            assigned.add(n.id)
        elif isinstance(n, ast.ExceptHandler) and n.name:
            declared.add(n.name)
        elif isinstance(n, (ast.Import, ast.ImportFrom)):
            for al in n.names:
                declared.add((al.asname or al.name).split('.')[0])
    names = {x for x in assigned - params - declared if not x.startswith('__')}
    for n in ast.walk(fn):
        if isinstance(n, ast.Name) and n.id in names:
            n.id = n.id + '_rn'

class _T(ast.NodeTransformer):
    def __init__(self, kind):
        self.kind = kind
    def visit_Return(self, node):
        self.generic_visit(node)
        v = node.value
        if self.kind != 'rettemp' or v is None or isinstance(v, (ast.Name, ast.Constant)):
            return node
        return [ast.Assign(targets=[ast.Name(id='_rv', ctx=ast.Store())], value=v, lineno=node.lineno, col_offset=node.col_offset),
                ast.Return(value=ast.Name(id='_rv', ctx=ast.Load()), lineno=node.lineno, col_offset=node.col_offset)]
    def visit_If(self, node):
        self.generic_visit(node)
        if self.kind == 'invert' and node.orelse and not (len(node.orelse) == 1 and isinstance(node.orelse[0], ast.If)):
            return ast.If(test=ast.UnaryOp(op=ast.Not(), operand=node.test), body=node.orelse, orelse=node.body)
        return node
    def visit_Compare(self, node):
        self.generic_visit(node)
        if self.kind == 'flip' and len(node.ops) == 1 and isinstance(node.ops[0], (ast.Lt, ast.Gt, ast.LtE, ast.GtE, ast.Eq, ast.NotEq)):
            f = {ast.Lt: ast.Gt, ast.Gt: ast.Lt, ast.LtE: ast.GtE, ast.GtE: ast.LtE, ast.Eq: ast.Eq, ast.NotEq: ast.NotEq}[type(node.ops[0])]
            return ast.Compare(left=node.comparators[0], ops=[f()], comparators=[node.left])
        return node
    def visit_BinOp(self, node):
        self.generic_visit(node)
        if self.kind == 'mask' and isinstance(node.right, ast.Constant) and isinstance(node.right.value, int) and node.right.value in (2, 4, 8, 16, 32, 64, 128, 256, 65536):
            k = node.right.value
            if isinstance(node.op, ast.Mod):
                return ast.BinOp(left=node.left, op=ast.BitAnd(), right=ast.Constant(value=k - 1))
            if isinstance(node.op, ast.FloorDiv):
                return ast.BinOp(left=node.left, op=ast.RShift(), right=ast.Constant(value=k.bit_length() - 1))
        return node
    def visit_AugAssign(self, node):
        self.generic_visit(node)
        if self.kind == 'aug' and isinstance(node.target, ast.Subscript) and isinstance(node.op, (ast.Add, ast.Sub)) and isinstance(node.target.value, ast.Name) and node.target.value.id == 'registers':
            load = copy.deepcopy(node.target)
            load.ctx = ast.Load()
            return ast.Assign(targets=[node.target], value=ast.BinOp(left=load, op=node.op, right=node.value), lineno=node.lineno, col_offset=node.col_offset)
        return node
    def visit_JoinedStr(self, node):
        if self.kind != 'fstring':
            return self.generic_visit(node)
        for v in node.values:
            if isinstance(v, ast.FormattedValue) and v.format_spec is not None and not all(isinstance(x, ast.Constant) for x in v.format_spec.values):
                return node
        fmt, args = '', []
        for v in node.values:
            if isinstance(v, ast.Constant):
                fmt += v.value.replace('{', '{{').replace('}', '}}')
            else:
                v.value = self.visit(v.value)
                spec = ':' + ''.join(x.value for x in v.format_spec.values) if v.format_spec is not None else ''
                fmt += '{' + {-1: '', 115: '!s', 114: '!r', 97: '!a'}[v.conversion] + spec + '}'
                args.append(v.value)
        return ast.Call(func=ast.Attribute(value=ast.Constant(value=fmt), attr='format', ctx=ast.Load()), args=args, keywords=[])

def _names(e):
    return {n.id for n in ast.walk(e) if isinstance(n, ast.Name)}

def _pure(e):
    return not any(isinstance(n, (ast.Call, ast.Yield, ast.YieldFrom, ast.Await, ast.NamedExpr)) for n in ast.walk(e))

def _blocks(tree):
    for n in ast.walk(tree):
        for field in ('body', 'orelse', 'finalbody'):
            b = getattr(n, field, None)
            if isinstance(b, list) and b and isinstance(b[0], ast.stmt):
                yield b

def _swap(tree):
    for b in _blocks(tree):
        i = 0
        while i + 1 < len(b):
            s1, s2 = b[i], b[i + 1]
            if all(isinstance(s, ast.Assign) and len(s.targets) == 1 and isinstance(s.targets[0], ast.Name) and _pure(s.value) for s in (s1, s2)):
                t1, t2 = s1.targets[0].id, s2.targets[0].id
                if t1 != t2 and t1 not in _names(s2.value) and t2 not in _names(s1.value):
                    b[i], b[i + 1] = s2, s1
                    i += 2
                    continue
            i += 1

def _untuple(tree):
    for b in _blocks(tree):
        i = 0
        while i < len(b):
            s = b[i]
            if isinstance(s, ast.Assign) and len(s.targets) == 1 and isinstance(s.targets[0], ast.Tuple) and isinstance(s.value, ast.Tuple) and len(s.targets[0].elts) == len(s.value.elts) \
               and all(isinstance(t, ast.Name) for t in s.targets[0].elts) and all(_pure(v) for v in s.value.elts):
                tn = {t.id for t in s.targets[0].elts}
                if len(tn) == len(s.targets[0].elts) and not any(tn & _names(v) for v in s.value.elts):
                    new = [ast.Assign(targets=[t], value=v, lineno=s.lineno, col_offset=s.col_offset) for t, v in zip(s.targets[0].elts, s.value.elts)]
                    b[i:i + 1] = new
                    i += len(new)
                    continue
            i += 1

def apply(kind, root):
    if kind == 'crename':
        return _crename(root)
    if kind == 'cflip':
        return _cflip(root)
    files = sorted(f for f in os.listdir(os.path.join(root, 'skoolkit')) if f.endswith('.py') and f != '__init__.py')
    if kind in ('mask', 'aug'):
        files = [f for f in files if f in SIM]
    for f in files:
        p = os.path.join(root, 'skoolkit', f)
        tree = ast.parse(open(p).read())
        if kind == 'rename':
            for fn in _outer(tree):
                _rename(fn)
        elif kind == 'swap':
            _swap(tree)
            ast.fix_missing_locations(tree)
        elif kind == 'untuple':
            _untuple(tree)
            ast.fix_missing_locations(tree)
        else:
            tree = _T(kind).visit(tree)
            ast.fix_missing_locations(tree)
        out = ast.unparse(tree)
        compile(out, p, 'exec')
        with open(p, 'w') as fh:
            fh.write(out + '\n')

def _crename(root):
    src_p = os.path.join(root, 'c', 'csimulator.c')
    src = open(src_p, 'rb').read()
    edits = {}
    def off(loc):
        for key in ('spellingLoc', None):
            l = loc.get(key) if key else loc
            if l and 'offset' in l and 'includedFrom' not in l:
                return l
        return None
    for flags in ([], ['-DCONTENTION']):
        p = subprocess.run(['clang', '-I' + sysconfig.get_paths()['include']] + flags + ['-fsyntax-only', '-Xclang', '-ast-dump=json', src_p], capture_output=True)
        tu = json.loads(p.stdout)
        curfile = None
        for d in tu['inner']:
            loc = d.get('loc') or {}
            for s_ in (loc, loc.get('expansionLoc') or {}, loc.get('spellingLoc') or {}):
                if 'file' in s_:
                    curfile = s_['file']
            rb = (d.get('range') or {}).get('begin') or {}
            for s_ in (rb, rb.get('expansionLoc') or {}):
                if 'file' in s_:
                    curfile = s_['file']
            if not (curfile and curfile.endswith('csimulator.c')):
                continue
            if d.get('kind') != 'FunctionDecl' or not any(c.get('kind') == 'CompoundStmt' for c in d.get('inner', [])):
                continue
            locals_ = {}
            def collect(n):
                if n.get('kind') == 'VarDecl' and n.get('name'):
                    loc_ = n.get('loc', {})
                    sp = loc_.get('spellingLoc')
                    l = off(loc_)
                    if (sp is None or ('file' not in sp or sp['file'].endswith('csimulator.c'))) and l and 'includedFrom' not in (sp or {}) \
                       and src[l['offset']:l['offset'] + len(n['name'])] == n['name'].encode():
                        locals_[n['id']] = n['name']
                for c in n.get('inner', []):
                    collect(c)
            for c in d['inner']:
                if c.get('kind') == 'CompoundStmt':
                    collect(c)
            def ren(n):
                if n.get('kind') == 'VarDecl' and n.get('id') in locals_:
                    l = off(n.get('loc', {}))
                    if l:
                        edits[l['offset']] = n['name']
                if n.get('kind') == 'DeclRefExpr':
                    rd = n.get('referencedDecl', {})
                    if rd.get('id') in locals_:
                        l = off((n.get('range') or {}).get('begin', {}))
                        if l and src[l['offset']:l['offset'] + len(rd['name'])] == rd['name'].encode():
                            edits[l['offset']] = rd['name']
                        else:
                            raise RuntimeError('cannot locate a use of %s' % rd['name'])
                for c in n.get('inner', []):
                    ren(c)
            ren(d)
    out = bytearray(src)
    for o in sorted(edits, reverse=True):
        name = edits[o]
        out[o:o + len(name)] = (name + '_rn').encode()
    with open(src_p, 'wb') as fh:
        fh.write(out)

def _cflip(root):
    src_p = os.path.join(root, 'c', 'csimulator.c')
    src = open(src_p, 'rb').read()
    FLIP = {'<': '>', '>': '<', '<=': '>=', '>=': '<=', '==': '==', '!=': '!='}
    edits = {}
    def plain(loc):
        return bool(loc) and 'offset' in loc and 'spellingLoc' not in loc and 'expansionLoc' not in loc and 'includedFrom' not in loc
    for flags in ([], ['-DCONTENTION']):
        p = subprocess.run(['clang', '-I' + sysconfig.get_paths()['include']] + flags + ['-fsyntax-only', '-Xclang', '-ast-dump=json', src_p], capture_output=True)
        tu = json.loads(p.stdout)
        curfile = None
        for d in tu['inner']:
            loc = d.get('loc') or {}
            for s_ in (loc, loc.get('expansionLoc') or {}, loc.get('spellingLoc') or {}):
                if 'file' in s_:
                    curfile = s_['file']
            rb = (d.get('range') or {}).get('begin') or {}
            for s_ in (rb, rb.get('expansionLoc') or {}):
                if 'file' in s_:
                    curfile = s_['file']
            if not (curfile and curfile.endswith('csimulator.c')) or d.get('kind') != 'FunctionDecl':
                continue
            def walk(n, inside=False):
                done = False
                if n.get('kind') == 'BinaryOperator' and n.get('opcode') in FLIP and not inside:
                    a, b = n['inner']
                    ra, rb_ = a.get('range', {}), b.get('range', {})
                    if all(plain(x) for x in (ra.get('begin'), ra.get('end'), rb_.get('begin'), rb_.get('end'))):
                        a0, a1 = ra['begin']['offset'], ra['end']['offset'] + ra['end']['tokLen']
                        b0, b1 = rb_['begin']['offset'], rb_['end']['offset'] + rb_['end']['tokLen']
                        if a1 <= b0 and src[a1:b0].decode().strip() == n['opcode']:
                            edits[(a0, b1)] = '(%s) %s (%s)' % (src[b0:b1].decode(), FLIP[n['opcode']], src[a0:a1].decode())
                            done = True
                for c in n.get('inner', []):
                    walk(c, inside or done)
            walk(d)
    out = bytearray(src)
    for (a0, b1) in sorted(edits, reverse=True):
        out[a0:b1] = edits[(a0, b1)].encode()
    with open(src_p, 'wb') as fh:
        fh.write(out)
