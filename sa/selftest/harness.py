"""Checker self-test (thorough tier): the rules of a property are run on scratch copies of the *current* tree

  * with each seeded breaking change recorded for that property applied  -> must report a violation,
  * with behaviour-preserving twin edits applied                          -> must stay silent.

Scratch copies live in a mkdtemp directory outside /repo and /verif and are removed afterwards. Output uses the
word SELFTEST, never VIOLATION.  Returns an error string (analysis broken) or None."""
import json, os, re, shutil, subprocess, sys, tempfile
from concurrent.futures import ThreadPoolExecutor

VERIF = os.path.dirname(os.path.dirname(os.path.dirname(os.path.abspath(__file__))))

def _copy_tree(repo, dst):
    os.makedirs(dst)
    for sub in ('skoolkit', 'c'):
        shutil.copytree(os.path.join(repo, sub), os.path.join(dst, sub), ignore=shutil.ignore_patterns('*.so', '__pycache__', '*.pyc'))

def _run_rule(prop, root):
    env = dict(os.environ, VERIF_EVIDENCE_DIR=os.path.join(root, '_evidence'))
    r = subprocess.run([sys.executable, os.path.join(VERIF, 'sa', 'run.py'), '--property', prop, '--tier', 'quick', '--repo', root, '--no-selftest'],
                       capture_output=True, text=True, env=env)
    return r.returncode, r.stdout

# behaviour-preserving twins: (file, regex, replacement, description); applied to the first match only
TWINS = [
    ('skoolkit/simulator.py', r'registers\[24\] = \(registers\[24\] \+ 1\) % 65536 # PC\n        return func\n\n    def af_n', 'registers[24] = (registers[24] + 1) & 65535 # PC\n        return func\n\n    def af_n', 'af_hl: % 65536 -> & 65535'),
    ('skoolkit/simulator.py', r'            pcn = registers\[24\] \+ 1\n            registers\[:2\] = af\[registers\[0\]\]\[memory\[pcn % 65536\]\]', '            pcn = registers[24] + 1\n            operand = memory[pcn % 65536]\n            registers[:2] = af[registers[0]][operand]', 'af_n: introduce a temporary'),
    ('skoolkit/cmiosimulator.py', r'            pc = registers\[24\]\n            hl = registers\[7\] \+ 256 \* registers\[6\]\n            tm = registers\[25\] % frame_duration', '            hl = registers[7] + 256 * registers[6]\n            pc = registers[24]\n            tm = registers[25] % frame_duration', 'af_hl (contended): swap two independent statements'),
    ('c/csimulator.c', r'    unsigned h = REG\(H\);\n    unsigned hl = REG\(L\) \+ 256 \* h;', '    unsigned h = REG(H);\n    unsigned lo = REG(L);\n    unsigned hl = lo + 256 * h;', 'C adc_hl: introduce a temporary'),
    ('skoolkit/snapshot.py', r"    'a': 0,\n    'f': 1,", "    'f': 1,\n    'a': 0,", 'Z80_REGISTERS: reorder two entries'),
    ('skoolkit/tape.py', r'pulses = \(\(3223 \+ 4840 \* \(first_byte == 0\), 2168\), \(1, 667\), \(1, 735\)\)', 'pilot = 3223 + 4840 * (first_byte == 0)\n    pulses = ((pilot, 2168), (1, 667), (1, 735))', '_get_tape_block_timings: name the pilot length'),
    ('skoolkit/bin2tap.py', r'    table_addr = address \+ 38\n', '    table_addr = 38 + address\n', '_get_bank_loader: commute an addition'),
    ('skoolkit/snapshot.py', r'        self\.border = \(self\.header\[12\] // 2\) % 8\n', '        self.border = (self.header[12] >> 1) & 7\n', 'Z80._read: border bits by shift and mask'),
    ('skoolkit/snapshot.py', r'            if count > 4 or \(count > 1 and prev_b == 237\):\n                block\.extend\(\(237, 237, count, prev_b\)\)\n            elif prev_b == 237:', '            long_run = count > 4 or (count > 1 and prev_b == 237)\n            if long_run:\n                block.extend((237, 237, count, prev_b))\n            elif prev_b == 237:', '_make_z80_ram_block: name the run test inside the loop'),
    ('skoolkit/snapshot.py', r'        self\.a = self\.header\[0\]\n        self\.f = self\.header\[1\]\n', '        h = self.header\n        self.a, self.f = h[0], h[1]\n', 'Z80._read: header through a local, tuple assignment'),
    ('skoolkit/trace.py', r'            next_int = \(\(tstates \+ frame_duration - int_active\) // frame_duration\) \* frame_duration\n', '            frame_start = (tstates // frame_duration) * frame_duration\n            next_int = frame_start if tstates < frame_start + int_active else frame_start + frame_duration\n', 'trace.run: next interrupt in the two-step form'),
    ('skoolkit/tape.py', r'                key = \(timings\.zero, timings\.one\)\n', '                key = (tuple(timings.zero), tuple(timings.one))\n', 'get_edges: cache key through tuple()'),
    ('skoolkit/image.py', r'        min_x, min_y = x1, y1\n', '        min_x = x1\n        min_y = y1\n', '_get_colours: split a tuple assignment'),
    ('skoolkit/graphics.py', r'    udg\.flip\(flip\)\n    udg\.rotate\(rotate\)\n', '    if flip:\n        udg.flip(flip)\n    if rotate:\n        udg.rotate(rotate)\n', 'build_udg: skip no-op flip/rotate'),
    ('skoolkit/snactl.py', r'                    next_ctl = ctls\[a\]\n                    del ctls\[a\]\n', '                    next_ctl = ctls.pop(a)\n', '_find_terminal_instruction: pop instead of read + del'),
    ('skoolkit/skoolhtml.py', r'        key = \(cwd, address, desc\)\n', '        key = (desc, cwd, address)\n', '_get_map_entry_dict: reorder the cache key'),
    ('skoolkit/cmiosimulator.py', r"            registers\[29\] = \(\(memory\[pc1\] \+ 1\) % 256\) \+ 256 \* registers\[0\] # MEMPTR\n            if self\.out_tracer:\n                a = registers\[0\]\n                self\.out_tracer\(registers, memory\[pc1\] \+ 256 \* a, a, 12 \+ delay\)", "            n = memory[pc1]\n            registers[29] = ((n + 1) % 256) + 256 * registers[0] # MEMPTR\n            if self.out_tracer:\n                a = registers[0]\n                self.out_tracer(registers, n + 256 * a, a, 12 + delay)", 'CMIOSimulator.out_a: operand byte through a local'),
    ('skoolkit/rzxplay.py', r"        self\.out7ffd = context\.snapshot\.out7ffd\n        self\.outfffd = context\.snapshot\.outfffd\n", "        self.outfffd = context.snapshot.outfffd\n        self.out7ffd = context.snapshot.out7ffd\n", 'RZXTracer.__init__: reorder two initialisations'),
    ('skoolkit/loadtracer.py', r"        registers\[0:2\], registers\[16:18\] = registers\[16:18\], registers\[0:2\]\n        registers\[IFF\] = 0\n", "        registers[IFF] = 0\n        registers[0:2], registers[16:18] = registers[16:18], registers[0:2]\n", 'fast_load: swap two independent statements'),
    ('skoolkit/skoolmacro.py', r"        if _writer:\n            params = _writer\.expand\(params, \*_cwd\)\n        if fields is not None:\n            params = _format_params\(params, params, \*\*fields\)\n", "        if _writer:\n            expanded = _writer.expand(params, *_cwd)\n        else:\n            expanded = params\n        if fields is not None:\n            params = _format_params(expanded, expanded, **fields)\n        else:\n            params = expanded\n", 'parse_ints: expanded text through its own variable'),
    ('skoolkit/skoolctl.py', r"            write_line\('\{\} \{\}'\.format\(ctl, address\)\)\n        if grouped:", "            write_line(f'{ctl} {address}')\n        if grouped:", 'CtlWriter._write_lines: f-string instead of format'),
    ('skoolkit/ctlparser.py', r"                elif ctl == 'N':\n                    self\._mid_block_comments\[start\]\.append\(comment\)\n                    self\._subctls\.setdefault\(start, None\)\n                elif ctl == 'E':\n                    self\._end_comments\[start\]\.append\(comment\)\n", "                elif ctl == 'E':\n                    self._end_comments[start].append(comment)\n                elif ctl == 'N':\n                    self._mid_block_comments[start].append(comment)\n                    self._subctls.setdefault(start, None)\n", 'parse_ctls: swap two dispatch branches'),
    ('skoolkit/snaskool.py', r"        comment_width = max\(self\.comment_width - op_width - 8, self\.config\['CommentWidthMin'\]\)\n", "        room = self.comment_width - op_width - 8\n        comment_width = max(room, self.config['CommentWidthMin'])\n", 'SkoolWriter._write_body: comment column through a local'),
    ('skoolkit/skoolasm.py', r"            lines = self\.format\(paragraph, self\.desc_width\)\n", "            width = self.desc_width\n            lines = self.format(paragraph, width)\n", 'print_comment_lines: width through a local'),
    ('skoolkit/__init__.py', r"    WRAPPER\.width = width\n    return WRAPPER\.wrap\(text\)\n", "    w = WRAPPER\n    w.width = width\n    return w.wrap(text)\n", 'wrap: the wrapper through a local alias'),
    ('skoolkit/loadtracer.py', r"registers\[acc\.counter\], registers\[1\] = DEC0\[counter - loops \+ 1\]", "registers[acc.counter], registers[1] = DEC0[counter + 1 - loops]", '_read_port: commute the DEC table index'),
    ('c/csimulator.c', r"DEC\[0\]\[counter - loops \+ 1\]", "DEC[0][counter + 1 - loops]", 'C read_port: commute the DEC table index'),
    ('skoolkit/simulator.py', r"                if bc == 0 or pc <= de <= pc \+ 1:\n                    repeat = False\n", "                done = bc == 0 or pc <= de <= pc + 1\n                if done:\n                    repeat = False\n", 'ldir_fast: name the stop test'),
    ('skoolkit/rzxplay.py', r"                registers\[1\] &= 0b11111011\n", "                registers[1] = registers[1] & 251\n", 'process_block: P/V reset written out'),
    ('skoolkit/tap2sna.py', r"        accelerators\.clear\(\)\n        options\.accelerate_dec_a = 0\n", "        options.accelerate_dec_a = 0\n        accelerators.clear()\n", 'sim_load: swap two independent settings'),
    ('skoolkit/tape.py', r"                b = data\[-1\]\n                for j in range\(timings\.used_bits\):\n                    for d in timings\.one if b & 0x80 else timings\.zero:\n                        tstates \+= d\n                        edges\.append\(tstates\)\n                    b \*= 2\n", "                last = data[-1]\n                for j in range(timings.used_bits):\n                    pulses = timings.one if last & (0x80 >> j) else timings.zero\n                    for d in pulses:\n                        tstates += d\n                        edges.append(tstates)\n", 'get_edges: last byte by bit mask instead of shifting'),
    ('skoolkit/skoolutils.py', r"                self\.num_cols = max\(self\.num_cols, col_index \+ cell\.colspan\)\n", "                end_col = col_index + cell.colspan\n                if end_col > self.num_cols:\n                    self.num_cols = end_col\n", 'Table.prepare_cells: column count through a local'),
    ('skoolkit/snactl.py', r"        if ctl != 'c' and i_addr \+ size > limit:", "        cut_off = i_addr + size > limit\n        if cut_off and ctl != 'c':", '_find_terminal_instruction: name the cut-off test'),
]

# which checks read which source file (a twin is only run against the checks that can see it)
READERS = {
    'skoolkit/simulator.py': {'C05', 'C06', 'C07', 'C08', 'C10', 'C13', 'C19', 'C20'},
    'skoolkit/cmiosimulator.py': {'C05', 'C06', 'C07', 'C08', 'C19'},
    'c/csimulator.c': {'C05', 'C06', 'C07', 'C08', 'C10', 'C13', 'C19', 'C20'},
    'skoolkit/snapshot.py': {'C09', 'C10', 'C20'},
    'skoolkit/trace.py': {'C06', 'C08', 'C10', 'C13', 'C20'},
    'skoolkit/tape.py': {'C11', 'C12', 'C13'},
    'skoolkit/bin2tap.py': {'C12'},
    'skoolkit/image.py': {'C15'},
    'skoolkit/graphics.py': {'C15'},
    'skoolkit/snactl.py': {'C14'},
    'skoolkit/skoolhtml.py': {'C16', 'C17'},
    'skoolkit/rzxplay.py': {'C10', 'C20'},
    'skoolkit/loadtracer.py': {'C06', 'C08', 'C10', 'C13', 'C20'},
    'skoolkit/skoolmacro.py': {'C04', 'C15', 'C16', 'C17'},
    'skoolkit/skoolctl.py': {'C03'},
    'skoolkit/simtables.py': {'C05', 'C06', 'C19'},
    'skoolkit/opcodes.py': {'C07', 'C14'},
    'skoolkit/traceutils.py': {'C05', 'C07'},
    'skoolkit/z80.py': {'C01', 'C02', 'C04', 'C07', 'C13', 'C14'},
    'skoolkit/disassembler.py': {'C01', 'C02', 'C07', 'C12', 'C13', 'C14'},
    'skoolkit/skool2bin.py': {'C01', 'C04', 'C14'},
    'skoolkit/simutils.py': {'C06', 'C09', 'C10', 'C19', 'C20'},
    'skoolkit/pagingtracer.py': {'C06', 'C08', 'C10', 'C20'},
    'skoolkit/skool2html.py': {'C16'},
    'skoolkit/skoolparser.py': {'C04', 'C16', 'C17', 'C18'},
    'skoolkit/defaults.py': {'C16', 'C18'},
    'skoolkit/tapinfo.py': {'C11'},
    'skoolkit/loadsample.py': {'C13'},
    'skoolkit/pngwriter.py': {'C15'},
    'skoolkit/sna2img.py': {'C15'},
    'skoolkit/sna2ctl.py': {'C14'},
    'skoolkit/textutils.py': {'C02', 'C03', 'C04'},
    'skoolkit/snapmod.py': {'C09'},
    'skoolkit/bin2sna.py': {'C09'},
    'skoolkit/kbtracer.py': {'C12'},
    'skoolkit/rzxinfo.py': {'C20'},
    'skoolkit/sna2skool.py': {'C01', 'C14'},
    'skoolkit/skool2ctl.py': {'C03'},
    'skoolkit/refparser.py': {'C16'},
    'skoolkit/tap2sna.py': {'C12', 'C13'},
    'skoolkit/skoolutils.py': {'C01', 'C03', 'C04', 'C14', 'C17', 'C18'},
    'skoolkit/ctlparser.py': {'C01', 'C03', 'C14', 'C18'},
    'skoolkit/snaskool.py': {'C01', 'C03', 'C14', 'C18'},
    'skoolkit/skoolasm.py': {'C04', 'C17', 'C18'},
    'skoolkit/__init__.py': {'C01', 'C03', 'C04', 'C14', 'C17', 'C18'},
}

def run(prop, mod, repo):
    seeded = os.path.join(VERIF, 'seeded')
    cases = []
    if os.path.isdir(seeded):
        for sid in sorted(os.listdir(seeded)):
            meta_p = os.path.join(seeded, sid, 'meta.json')
            if not os.path.exists(meta_p):
                continue
            meta = json.load(open(meta_p))
            if prop in meta.get('detected_by', {}):
                cases.append((sid, os.path.join(seeded, sid, 'patch.diff')))
    base = tempfile.mkdtemp(prefix='sa-selftest-')
    problems = []
    try:
        jobs = []
        for sid, patch in cases:
            root = os.path.join(base, 'seed-' + sid.replace('/', '_'))
            _copy_tree(repo, root)
            a = subprocess.run(['patch', '-p1', '-s', '-f', '-d', root, '-i', patch], capture_output=True, text=True)
            if a.returncode != 0:
                print('SELFTEST %s seed %s: patch no longer applies to the current tree (skipped)' % (prop, sid))
                shutil.rmtree(root, ignore_errors=True)
                continue
            jobs.append(('seed', sid, root, 1))
        for i, (rel, pat, rep, desc) in enumerate(TWINS):
            if desc is None:
                continue
            if prop not in READERS.get(rel, {prop}):
                continue
            src_p = os.path.join(repo, rel)
            if not os.path.exists(src_p):
                continue
            src = open(src_p).read()
            new, n = re.subn(pat, rep.replace('\\', '\\\\'), src, count=1)
            if n != 1:
                continue
            root = os.path.join(base, 'twin-%d' % i)
            _copy_tree(repo, root)
            with open(os.path.join(root, rel), 'w') as f:
                f.write(new)
            jobs.append(('twin', desc, root, 0))
        # twins written by independent sub-agents (twins/<ID>-<v>/patch.diff), applied when they touch a file this check reads
        twins_dir = os.path.join(VERIF, 'twins')
        if os.path.isdir(twins_dir):
            for tid in sorted(os.listdir(twins_dir)):
                pf = os.path.join(twins_dir, tid, 'patch.diff')
                mp = os.path.join(twins_dir, tid, 'meta.json')
                if not (os.path.exists(pf) and os.path.exists(mp)):
                    continue
                files = json.load(open(mp)).get('files', [])
                if not any(prop in READERS.get(f, {prop}) for f in files):
                    continue
                root = os.path.join(base, 'atwin-%s' % tid)
                _copy_tree(repo, root)
                a = subprocess.run(['patch', '-p1', '-s', '-f', '-d', root, '-i', pf], capture_output=True, text=True)
                if a.returncode != 0:
                    shutil.rmtree(root, ignore_errors=True)
                    continue          # the twin no longer applies to this tree
                jobs.append(('twin', 'agent: ' + tid, root, 0))
        # bulk twins of the whole package (sa/selftest/bulk.py)
        from sa.selftest import bulk
        C_READERS = {'C05', 'C06', 'C07', 'C08', 'C10', 'C12', 'C13', 'C19', 'C20'}
        for kind in bulk.KINDS:
            if kind in ('crename', 'cflip') and prop not in C_READERS:
                continue
            root = os.path.join(base, 'bulk-%s' % kind)
            _copy_tree(repo, root)
            try:
                bulk.apply(kind, root)
            except Exception as e:
                problems.append('bulk twin %s could not be built: %s' % (kind, e))
                shutil.rmtree(root, ignore_errors=True)
                continue
            jobs.append(('twin', 'bulk: ' + kind, root, 0))
        def work(j):
            kind, name, root, want = j
            rc, out = _run_rule(prop, root)
            shutil.rmtree(root, ignore_errors=True)
            return kind, name, want, rc, out
        with ThreadPoolExecutor(8) as ex:
            results = list(ex.map(work, jobs))
        for kind, name, want, rc, out in results:
            ok = (rc == want)
            print('SELFTEST %s %s %-60s expected exit %d, got %d%s' % (prop, kind, name[:60], want, rc, '' if ok else '  <-- MISMATCH'))
            if not ok:
                tail = [l for l in out.splitlines() if 'rule ' in l and not l.startswith('rule')][:2]
                problems.append('%s %s: expected exit %d, got %d %s' % (kind, name, want, rc, ' | '.join(t.replace('VIOLATION', 'report')[:200] for t in tail)))
        print('SELFTEST %s: %d seeded changes re-detected, %d twins silent, %d mismatches' % (
            prop, sum(1 for r in results if r[0] == 'seed' and r[3] == 1), sum(1 for r in results if r[0] == 'twin' and r[3] == 0), len(problems)))
    finally:
        shutil.rmtree(base, ignore_errors=True)
    return '; '.join(problems) if problems else None
