"""Checker self-test (thorough tier): the rules of a property are run on scratch copies of the *current* tree

  * with each seeded breaking change recorded for that property applied  -> must report a violation,
  * with behaviour-preserving twin edits applied                          -> must stay silent.

Scratch copies live in a mkdtemp directory outside /repo and /verif and are removed afterwards. Output uses the
word SELFTEST, never VIOLATION.  Returns an error string (analysis broken) or None."""
import json, os, re, shutil, subprocess, sys, tempfile
from concurrent.futures import ThreadPoolExecutor

VERIF = os.path.dirname(os.path.dirname(os.path.dirname(os.path.abspath(__file__))))

def _copy_tree(repo, dst):
    os.makedirs(dst)
    for sub in ('skoolkit', 'c'):
        shutil.copytree(os.path.join(repo, sub), os.path.join(dst, sub), ignore=shutil.ignore_patterns('*.so', '__pycache__', '*.pyc'))

def _run_rule(prop, root):
    env = dict(os.environ, VERIF_EVIDENCE_DIR=os.path.join(root, '_evidence'))
    r = subprocess.run([sys.executable, os.path.join(VERIF, 'sa', 'run.py'), '--property', prop, '--tier', 'quick', '--repo', root, '--no-selftest'],
                       capture_output=True, text=True, env=env)
    return r.returncode, r.stdout

# behaviour-preserving twins: (file, regex, replacement, description); applied to the first match only
TWINS = [
    ('skoolkit/simulator.py', r'registers\[24\] = \(registers\[24\] \+ 1\) % 65536 # PC\n        return func\n\n    def af_n', 'registers[24] = (registers[24] + 1) & 65535 # PC\n        return func\n\n    def af_n', 'af_hl: % 65536 -> & 65535'),
    ('skoolkit/simulator.py', r'            pcn = registers\[24\] \+ 1\n            registers\[:2\] = af\[registers\[0\]\]\[memory\[pcn % 65536\]\]', '            pcn = registers[24] + 1\n            operand = memory[pcn % 65536]\n            registers[:2] = af[registers[0]][operand]', 'af_n: introduce a temporary'),
    ('skoolkit/cmiosimulator.py', r'            pc = registers\[24\]\n            hl = registers\[7\] \+ 256 \* registers\[6\]\n            tm = registers\[25\] % frame_duration', '            hl = registers[7] + 256 * registers[6]\n            pc = registers[24]\n            tm = registers[25] % frame_duration', 'af_hl (contended): swap two independent statements'),
    ('c/csimulator.c', r'    unsigned h = REG\(H\);\n    unsigned hl = REG\(L\) \+ 256 \* h;', '    unsigned h = REG(H);\n    unsigned lo = REG(L);\n    unsigned hl = lo + 256 * h;', 'C adc_hl: introduce a temporary'),
    ('skoolkit/snapshot.py', r"    'a': 0,\n    'f': 1,", "    'f': 1,\n    'a': 0,", 'Z80_REGISTERS: reorder two entries'),
    ('skoolkit/tape.py', r'pulses = \(\(3223 \+ 4840 \* \(first_byte == 0\), 2168\), \(1, 667\), \(1, 735\)\)', 'pilot = 3223 + 4840 * (first_byte == 0)\n    pulses = ((pilot, 2168), (1, 667), (1, 735))', '_get_tape_block_timings: name the pilot length'),
    ('skoolkit/bin2tap.py', r'    table_addr = address \+ 38\n', '    table_addr = 38 + address\n', '_get_bank_loader: commute an addition'),
]

def run(prop, mod, repo):
    seeded = os.path.join(VERIF, 'seeded')
    cases = []
    if os.path.isdir(seeded):
        for sid in sorted(os.listdir(seeded)):
            meta_p = os.path.join(seeded, sid, 'meta.json')
            if not os.path.exists(meta_p):
                continue
            meta = json.load(open(meta_p))
            if prop in meta.get('detected_by', {}):
                cases.append((sid, os.path.join(seeded, sid, 'patch.diff')))
    base = tempfile.mkdtemp(prefix='sa-selftest-')
    problems = []
    try:
        jobs = []
        for sid, patch in cases:
            root = os.path.join(base, 'seed-' + sid.replace('/', '_'))
            _copy_tree(repo, root)
            a = subprocess.run(['patch', '-p1', '-s', '-f', '-d', root, '-i', patch], capture_output=True, text=True)
            if a.returncode != 0:
                print('SELFTEST %s seed %s: patch no longer applies to the current tree (skipped)' % (prop, sid))
                shutil.rmtree(root, ignore_errors=True)
                continue
            jobs.append(('seed', sid, root, 1))
        for i, (rel, pat, rep, desc) in enumerate(TWINS):
            if desc is None:
                continue
            src_p = os.path.join(repo, rel)
            if not os.path.exists(src_p):
                continue
            src = open(src_p).read()
            new, n = re.subn(pat, rep.replace('\\', '\\\\'), src, count=1)
            if n != 1:
                continue
            root = os.path.join(base, 'twin-%d' % i)
            _copy_tree(repo, root)
            with open(os.path.join(root, rel), 'w') as f:
                f.write(new)
            jobs.append(('twin', desc, root, 0))
        def work(j):
            kind, name, root, want = j
            rc, out = _run_rule(prop, root)
            shutil.rmtree(root, ignore_errors=True)
            return kind, name, want, rc, out
        with ThreadPoolExecutor(8) as ex:
            results = list(ex.map(work, jobs))
        for kind, name, want, rc, out in results:
            ok = (rc == want)
            print('SELFTEST %s %s %-60s expected exit %d, got %d%s' % (prop, kind, name[:60], want, rc, '' if ok else '  <-- MISMATCH'))
            if not ok:
                tail = [l for l in out.splitlines() if 'rule ' in l and not l.startswith('rule')][:2]
                problems.append('%s %s: expected exit %d, got %d %s' % (kind, name, want, rc, ' | '.join(t.replace('VIOLATION', 'report')[:200] for t in tail)))
        print('SELFTEST %s: %d seeded changes re-detected, %d twins silent, %d mismatches' % (
            prop, sum(1 for r in results if r[0] == 'seed' and r[3] == 1), sum(1 for r in results if r[0] == 'twin' and r[3] == 0), len(problems)))
    finally:
        shutil.rmtree(base, ignore_errors=True)
    return '; '.join(problems) if problems else None
