"""Finite-domain folder: decides equality of two closed terms by tabulating both over the (finite) domain
of their free atoms.  Atoms are entry registers, memory reads, tracer results and any opaque sub-term that
occurs identically in both terms (table lookups, contend() results); each atom ranges over the values its
mask allows.  Exhaustive when the domain has at most LIMIT points; otherwise a deterministic sample can only
produce a *witness of difference* (a proven difference), never a proof of equality."""
import itertools, random
from .terms import C, isc, mask_of, walk, COMM, CMP

LIMIT = 1 << 20
OPAQUE = ('reg', 'mem', 'call', 'sym', 'idx', 'contend', 'T', 'pat', 'pe', 'ioc', 'pyobj', 'undef', 'bank', 'member', 'deref', 'addr')

def atoms(t, acc=None):
    if acc is None:
        acc = []
    k = t[0]
    if k == 'c':
        return acc
    if k in OPAQUE:
        if t not in acc:
            acc.append(t)
        return acc
    for x in t[1:]:
        if isinstance(x, tuple):
            atoms(x, acc)
    return acc

def domain(a):
    m = mask_of(a)
    if a[0] == 'sym':
        return None
    if m is None:
        return None
    if m & (m + 1) == 0:
        return range(m + 1)
    # sparse mask: enumerate subsets
    bits = [1 << i for i in range(m.bit_length()) if m >> i & 1]
    if len(bits) > 16:
        return None
    vals = []
    for r in range(1 << len(bits)):
        v = 0
        for i, b in enumerate(bits):
            if r >> i & 1:
                v |= b
        vals.append(v)
    return vals

def _src(t, names):
    k = t[0]
    if k == 'c':
        return '(%d)' % t[1]
    if t in names:
        return names[t]
    if k in COMM:
        return '(' + (' %s ' % k).join(_src(x, names) for x in t[1:]) + ')'
    if k in CMP:
        return '(1 if %s %s %s else 0)' % (_src(t[1], names), k, _src(t[2], names))
    if k in ('>>', '<<', '//', '%'):
        return '(%s %s %s)' % (_src(t[1], names), k, _src(t[2], names))
    if k == 'and':
        return '(1 if (' + ' and '.join(_src(x, names) for x in t[1:]) + ') else 0)'
    if k == 'or':
        return '(1 if (' + ' or '.join(_src(x, names) for x in t[1:]) + ') else 0)'
    if k == 'not':
        return '(0 if %s else 1)' % _src(t[1], names)
    if k == 'bool':
        return '(1 if %s else 0)' % _src(t[1], names)
    if k == 'sel':
        return '(%s if %s else 0)' % (_src(t[2], names), _src(t[1], names))
    if k == 'ite':
        return '(%s if %s else %s)' % (_src(t[2], names), _src(t[1], names), _src(t[3], names))
    if k == 'rinc':
        x = _src(t[1], names)
        return '((%s & 128) + ((%s + %d) & 127))' % (x, x, t[2])
    if k == 's8':
        x = _src(t[1], names)
        return '(%s if %s < 128 else %s - 256)' % (x, x, x)
    if k == 'tuple':
        return '(' + ', '.join(_src(x, names) for x in t[1:]) + ',)'
    raise ValueError('cannot fold %r' % (k,))

def compile_term(t, atom_list):
    names = {a: 'v%d' % i for i, a in enumerate(atom_list)}
    src = 'lambda %s: %s' % (', '.join(names[a] for a in atom_list), _src(t, names))
    return eval(src, {'__builtins__': {}})

def decide(a, b, limit=LIMIT, samples=4096):
    """-> ('equal', n) | ('differ', witness dict) | ('limit', reason)"""
    if a == b:
        return ('equal', 0)
    al = atoms(a)
    only_a = [x for x in al]
    bl = atoms(b)
    cross = [x for x in al if x not in bl and x[0] != 'reg'] + [x for x in bl if x not in al and x[0] != 'reg']
    for x in bl:
        if x not in al:
            al.append(x)
    # a difference found while treating unshared opaque atoms as independent is proven only for memory
    # reads / tracer results (free-valued cells), and only at a valuation where the cells are distinct
    can_differ = all(x[0] in ('mem', 'call') for x in cross)
    doms = []
    size = 1
    for x in al:
        d = domain(x)
        if d is None:
            return ('limit', 'atom without finite domain: %s' % (x[0],))
        doms.append(d)
        size *= len(d)
    try:
        fa = compile_term(a, al)
        fb = compile_term(b, al)
        cells = [(i, x, compile_term(('tuple',) + tuple(y for y in x[1:] if isinstance(y, tuple)), al))
                 for i, x in enumerate(al) if x[0] in ('mem', 'call')]
    except (ValueError, SyntaxError, RecursionError) as e:
        return ('limit', str(e))
    def witness(vals):
        return {repr(x): v for x, v in zip(al, vals)}
    def consistent(vals):
        seen = {}
        for i, x, f in cells:
            k = (x[0], x[1] if x[0] == 'call' else x[2], x[-1] if x[0] == 'call' else None, f(*vals))
            if k in seen and seen[k] != vals[i]:
                return False
            seen[k] = vals[i]
        return True
    found_unproven = False
    try:
        if size <= limit:
            for vals in itertools.product(*doms):
                if fa(*vals) != fb(*vals) and consistent(vals):
                    if can_differ:
                        return ('differ', witness(vals))
                    found_unproven = True
                    break
            if not found_unproven:
                return ('equal', size)
            return ('limit', 'terms differ only through unshared opaque atoms (%s)' % ', '.join(sorted({x[0] for x in cross})))
        rnd = random.Random(12345)
        corner = [sorted({d[0], d[-1], d[len(d) // 2], d[min(1, len(d) - 1)]}) for d in doms]
        for vals in itertools.islice(itertools.product(*corner), samples):
            if fa(*vals) != fb(*vals) and consistent(vals):
                if can_differ:
                    return ('differ', witness(vals))
                found_unproven = True
                break
        if not found_unproven:
            for _ in range(samples):
                vals = tuple(d[rnd.randrange(len(d))] for d in doms)
                if fa(*vals) != fb(*vals) and consistent(vals):
                    if can_differ:
                        return ('differ', witness(vals))
                    found_unproven = True
                    break
    except (ZeroDivisionError, TypeError, IndexError) as e:
        return ('limit', 'evaluation error %s' % e)
    if found_unproven:
        return ('limit', 'terms differ only through unshared opaque atoms (%s)' % ', '.join(sorted({x[0] for x in cross})))
    return ('limit', 'domain of %d points exceeds %d' % (size, limit))

_SIG_LIMIT = 1 << 16
PURE = COMM | CMP | {'>>', '<<', '//', '%', 'and', 'or', 'not', 'bool', 'sel', 'ite', 'rinc', 's8'}

def canon_fold(t, cache):
    """Rewrite every pure arithmetic sub-term over a small finite domain to one representative per
    truth table, so that semantically equal leaf expressions become structurally equal."""
    if not isinstance(t, tuple) or not t or t[0] in ('c', 'reg', 'sym', 'T'):
        return t
    memo = cache.setdefault('memo', {})
    if t in memo:
        return memo[t]
    new = tuple(canon_fold(x, cache) if isinstance(x, tuple) and x and isinstance(x[0], str) else x for x in t)
    res = new
    if new[0] in PURE:
        al = atoms(new)
        size = 1
        doms = []
        ok = bool(al)
        for x in al:
            d = domain(x)
            if d is None:
                ok = False
                break
            doms.append(d)
            size *= len(d)
            if size > _SIG_LIMIT:
                ok = False
                break
        if ok:
            try:
                order = sorted(range(len(al)), key=lambda i: repr(al[i]))
                al2 = [al[i] for i in order]
                doms2 = [doms[i] for i in order]
                f = compile_term(new, al2)
                sig = (tuple(al2), hash(tuple(f(*vals) for vals in itertools.product(*doms2))))
                reps = cache.setdefault('reps', {})
                if sig in reps:
                    res = reps[sig]
                else:
                    reps[sig] = new
            except (ValueError, SyntaxError, RecursionError, ZeroDivisionError, TypeError):
                pass
    memo[t] = res
    return res

def diff_pairs(a, b):
    """Smallest aligned differing sub-term pairs (anti-unification)."""
    if a == b:
        return []
    if not isinstance(a, tuple) or not isinstance(b, tuple):
        return [(a, b)]
    if a[0] == b[0] and a[0] in COMM:
        ra = list(a[1:]); rb = list(b[1:])
        for x in list(ra):
            if x in rb:
                ra.remove(x); rb.remove(x)
        if len(ra) == 1 and len(rb) == 1:
            return diff_pairs(ra[0], rb[0])
        # pair children with the same opaque head when that head is unique on both sides
        pairs = []
        for x in list(ra):
            if x[0] in OPAQUE:
                cand = [y for y in rb if y[0] == x[0] and len(y) == len(x)]
                same = [z for z in ra if z[0] == x[0] and len(z) == len(x)]
                if len(cand) == 1 and len(same) == 1:
                    pairs.extend(diff_pairs(x, cand[0]))
                    ra.remove(x); rb.remove(cand[0])
        if ra or rb:
            from .terms import mk
            ident = {'+': 0, '*': 1, '|': 0, '^': 0, '&': -1}[a[0]]
            ta = mk(a[0], *ra) if ra else C(ident)
            tb = mk(a[0], *rb) if rb else C(ident)
            pairs.append((ta, tb))
        return pairs
    if a[0] != b[0] or len(a) != len(b) or a[0] in ('c', 'reg', 'sym', 'T'):
        return [(a, b)]
    out = []
    for x, y in zip(a[1:], b[1:]):
        if x == y:
            continue
        if isinstance(x, tuple) and isinstance(y, tuple):
            out.extend(diff_pairs(x, y))
        else:
            return [(a, b)]
    return out

def equal_modulo_fold(a, b, limit=LIMIT):
    """Decide a == b: structurally, else by folding each differing aligned sub-term pair.
    -> ('equal'|'differ'|'limit', detail)"""
    if a == b:
        return ('equal', None)
    worst = ('equal', None)
    for x, y in diff_pairs(a, b):
        r = decide(x, y, limit)
        if r[0] == 'differ':
            return ('differ', {'a': x, 'b': y, 'witness': r[1]})
        if r[0] == 'limit':
            # retry on the enclosing terms is pointless; remember the limit
            worst = ('limit', {'a': x, 'b': y, 'reason': r[1]})
    return worst
