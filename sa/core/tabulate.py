"""Constant folding of lookup-table definitions by closure compilation (the checker's own evaluator):
Python comprehensions of simtables.py and C init_* loop nests of csimulator.c are compiled into closures over
an environment and evaluated once; the result is the table the program would build.  Only a whitelisted,
pure subset is accepted (arithmetic, comparisons, and/or with value semantics, subscripts of earlier tables,
range loops, bin(x).count('1')); anything else raises TabError (analysis limit, never a verdict)."""
import ast
from .cfacts import strip

class TabError(Exception):
    pass

# ------------------------------------------------------------------------------------------ Python side

def _py(node, names):
    """Compile an expression AST to a closure f(env)."""
    if isinstance(node, ast.Constant):
        v = node.value
        if isinstance(v, bool):
            v = int(v)
        return lambda env: v
    if isinstance(node, ast.Name):
        nm = node.id
        return lambda env: env[nm]
    if isinstance(node, ast.BinOp):
        l, r = _py(node.left, names), _py(node.right, names)
        op = type(node.op)
        if op is ast.Add: return lambda env: l(env) + r(env)
        if op is ast.Sub: return lambda env: l(env) - r(env)
        if op is ast.Mult: return lambda env: l(env) * r(env)
        if op is ast.FloorDiv: return lambda env: l(env) // r(env)
        if op is ast.Mod: return lambda env: l(env) % r(env)
        if op is ast.BitAnd: return lambda env: l(env) & r(env)
        if op is ast.BitOr: return lambda env: l(env) | r(env)
        if op is ast.BitXor: return lambda env: l(env) ^ r(env)
        if op is ast.LShift: return lambda env: l(env) << r(env)
        if op is ast.RShift: return lambda env: l(env) >> r(env)
        raise TabError('operator ' + op.__name__)
    if isinstance(node, ast.UnaryOp):
        o = _py(node.operand, names)
        if isinstance(node.op, ast.USub): return lambda env: -o(env)
        if isinstance(node.op, ast.Not): return lambda env: not o(env)
        if isinstance(node.op, ast.Invert): return lambda env: ~o(env)
        raise TabError('unary')
    if isinstance(node, ast.BoolOp):
        parts = [_py(v, names) for v in node.values]
        if isinstance(node.op, ast.And):
            def f(env):
                v = True
                for p in parts:
                    v = p(env)
                    if not v:
                        return v
                return v
            return f
        def g(env):
            v = False
            for p in parts:
                v = p(env)
                if v:
                    return v
            return v
        return g
    if isinstance(node, ast.Compare):
        first = _py(node.left, names)
        rest = [(type(o), _py(c, names)) for o, c in zip(node.ops, node.comparators)]
        def f(env):
            a = first(env)
            for o, c in rest:
                b = c(env)
                if o is ast.Eq: ok = a == b
                elif o is ast.NotEq: ok = a != b
                elif o is ast.Lt: ok = a < b
                elif o is ast.LtE: ok = a <= b
                elif o is ast.Gt: ok = a > b
                elif o is ast.GtE: ok = a >= b
                else: raise TabError('comparison')
                if not ok:
                    return False
                a = b
            return True
        return f
    if isinstance(node, ast.IfExp):
        t, a, b = _py(node.test, names), _py(node.body, names), _py(node.orelse, names)
        return lambda env: a(env) if t(env) else b(env)
    if isinstance(node, ast.Subscript):
        b, i = _py(node.value, names), _py(node.slice, names)
        return lambda env: b(env)[i(env)]
    if isinstance(node, ast.Tuple):
        parts = [_py(e, names) for e in node.elts]
        return lambda env: tuple(p(env) for p in parts)
    if isinstance(node, ast.Call):
        fn = node.func
        if isinstance(fn, ast.Name) and fn.id in ('tuple', 'list') and len(node.args) == 1 and isinstance(node.args[0], (ast.GeneratorExp, ast.ListComp)):
            return _comp(node.args[0], names)
        if isinstance(fn, ast.Name) and fn.id == 'range':
            parts = [_py(a, names) for a in node.args]
            return lambda env: range(*[p(env) for p in parts])
        if isinstance(fn, ast.Attribute) and fn.attr == 'count' and isinstance(fn.value, ast.Call) and isinstance(fn.value.func, ast.Name) \
           and fn.value.func.id == 'bin' and len(node.args) == 1 and isinstance(node.args[0], ast.Constant) and node.args[0].value == '1':
            x = _py(fn.value.args[0], names)
            return lambda env: bin(x(env)).count('1')
        if isinstance(fn, ast.Name) and fn.id in ('int', 'bool', 'abs', 'min', 'max'):
            f0 = {'int': int, 'bool': bool, 'abs': abs, 'min': min, 'max': max}[fn.id]
            parts = [_py(a, names) for a in node.args]
            return lambda env: f0(*[p(env) for p in parts])
        raise TabError('call ' + ast.unparse(fn))
    if isinstance(node, (ast.GeneratorExp, ast.ListComp)):
        return _comp(node, names)
    raise TabError('expression ' + type(node).__name__)

def _comp(node, names):
    if len(node.generators) != 1:
        raise TabError('nested generators in one comprehension')
    g = node.generators[0]
    if not isinstance(g.target, ast.Name):
        raise TabError('comprehension target')
    var = g.target.id
    it = _py(g.iter, names)
    elt = _py(node.elt, names)
    conds = [_py(c, names) for c in g.ifs]
    def f(env):
        out = []
        saved = env.get(var, None)
        had = var in env
        for v in it(env):
            env[var] = v
            if all(c(env) for c in conds):
                out.append(elt(env))
        if had:
            env[var] = saved
        else:
            env.pop(var, None)
        return tuple(out)
    return f

def python_tables(mod, wanted=None):
    """Evaluate the module-level table definitions of simtables.py in order.  -> {name: nested tuple}"""
    env = {}
    out = {}
    for st in mod.tree.body:
        if isinstance(st, ast.Assign) and len(st.targets) == 1 and isinstance(st.targets[0], ast.Name):
            name = st.targets[0].id
            try:
                val = _py(st.value, None)(env)
            except TabError:
                raise
            except Exception as e:
                raise TabError('%s: %s' % (name, e))
            env[name] = val
            out[name] = val
    return out

# ------------------------------------------------------------------------------------------ C side

class _Brk(Exception):
    pass

def _c_lv(n):
    n = strip(n)
    k = n.get('kind')
    if k == 'DeclRefExpr':
        nm = n['ref']
        return ('var', nm, None)
    if k == 'ArraySubscriptExpr':
        idx = []
        b = n
        while b.get('kind') == 'ArraySubscriptExpr':
            idx.append(_c(b['inner'][1]))
            b = strip(b['inner'][0])
        if b.get('kind') != 'DeclRefExpr':
            raise TabError('array base')
        idx.reverse()
        return ('arr', b['ref'], idx)
    raise TabError('lvalue ' + str(k))

def _cdiv(a, b):
    q = abs(a) // abs(b)
    return q if (a >= 0) == (b >= 0) else -q

def _cmod(a, b):
    r = abs(a) % abs(b)
    return r if a >= 0 else -r

def _c(n):
    """Compile a C expression (clang JSON) to f(env, tabs)."""
    k = n.get('kind')
    inner = n.get('inner', [])
    if k in ('ImplicitCastExpr', 'ParenExpr', 'ConstantExpr'):
        return _c(inner[0])
    if k == 'CStyleCastExpr':
        f = _c(inner[-1])
        if n.get('type') in ('byte', 'unsigned char'):
            return lambda env, tabs: f(env, tabs) & 0xFF
        return f
    if k == 'IntegerLiteral':
        v = int(n['value'])
        return lambda env, tabs: v
    if k == 'DeclRefExpr':
        nm = n['ref']
        return lambda env, tabs: env[nm]
    if k == 'ArraySubscriptExpr':
        kind, nm, idx = _c_lv(n)
        def f(env, tabs):
            t = tabs[nm]
            for i in idx:
                t = t[i(env, tabs)]
            return t
        return f
    if k == 'BinaryOperator':
        op = n['opcode']
        if op == '=':
            return _c_assign(inner[0], _c(inner[1]))
        l, r = _c(inner[0]), _c(inner[1])
        if op == '&&': return lambda env, tabs: 1 if (l(env, tabs) and r(env, tabs)) else 0
        if op == '||': return lambda env, tabs: 1 if (l(env, tabs) or r(env, tabs)) else 0
        if op == '+': return lambda env, tabs: l(env, tabs) + r(env, tabs)
        if op == '-': return lambda env, tabs: l(env, tabs) - r(env, tabs)
        if op == '*': return lambda env, tabs: l(env, tabs) * r(env, tabs)
        if op == '/': return lambda env, tabs: _cdiv(l(env, tabs), r(env, tabs))
        if op == '%': return lambda env, tabs: _cmod(l(env, tabs), r(env, tabs))
        if op == '&': return lambda env, tabs: l(env, tabs) & r(env, tabs)
        if op == '|': return lambda env, tabs: l(env, tabs) | r(env, tabs)
        if op == '^': return lambda env, tabs: l(env, tabs) ^ r(env, tabs)
        if op == '<<': return lambda env, tabs: l(env, tabs) << r(env, tabs)
        if op == '>>': return lambda env, tabs: l(env, tabs) >> r(env, tabs)
        if op == '==': return lambda env, tabs: int(l(env, tabs) == r(env, tabs))
        if op == '!=': return lambda env, tabs: int(l(env, tabs) != r(env, tabs))
        if op == '<': return lambda env, tabs: int(l(env, tabs) < r(env, tabs))
        if op == '>': return lambda env, tabs: int(l(env, tabs) > r(env, tabs))
        if op == '<=': return lambda env, tabs: int(l(env, tabs) <= r(env, tabs))
        if op == '>=': return lambda env, tabs: int(l(env, tabs) >= r(env, tabs))
        raise TabError('binary ' + op)
    if k == 'CompoundAssignOperator':
        op = n['opcode'][:-1]
        cur = _c(inner[0])
        rhs = _c(inner[1])
        fn = {'+': lambda a, b: a + b, '-': lambda a, b: a - b, '*': lambda a, b: a * b, '/': _cdiv, '%': _cmod,
              '&': lambda a, b: a & b, '|': lambda a, b: a | b, '^': lambda a, b: a ^ b, '<<': lambda a, b: a << b, '>>': lambda a, b: a >> b}[op]
        return _c_assign(inner[0], lambda env, tabs: fn(cur(env, tabs), rhs(env, tabs)))
    if k == 'UnaryOperator':
        op = n['opcode']
        if op in ('++', '--'):
            cur = _c(inner[0])
            d = 1 if op == '++' else -1
            st = _c_assign(inner[0], lambda env, tabs: cur(env, tabs) + d)
            if n.get('isPostfix'):
                def f(env, tabs):
                    v = cur(env, tabs)
                    st(env, tabs)
                    return v
                return f
            return st
        o = _c(inner[0])
        if op == '-': return lambda env, tabs: -o(env, tabs)
        if op == '!': return lambda env, tabs: 0 if o(env, tabs) else 1
        if op == '~': return lambda env, tabs: ~o(env, tabs)
        if op == '+': return o
        raise TabError('unary ' + op)
    if k == 'ConditionalOperator':
        c, a, b = _c(inner[0]), _c(inner[1]), _c(inner[2])
        return lambda env, tabs: a(env, tabs) if c(env, tabs) else b(env, tabs)
    raise TabError('C expression ' + str(k))

def _c_assign(lhs, rhs):
    kind, nm, idx = _c_lv(lhs)
    if kind == 'var':
        def f(env, tabs):
            v = rhs(env, tabs)
            env[nm] = v
            return v
        return f
    def g(env, tabs):
        v = rhs(env, tabs) & 0xFF          # tables are `byte` arrays
        t = tabs[nm]
        for i in idx[:-1]:
            t = t[i(env, tabs)]
        t[idx[-1](env, tabs)] = v
        return v
    return g

def _cs(n, top=False):
    """Compile a C statement to f(env, tabs)."""
    k = n.get('kind')
    inner = n.get('inner', [])
    if k == 'CompoundStmt':
        parts = [_cs(c, top) for c in inner]
        def f(env, tabs):
            for p in parts:
                p(env, tabs)
        return f
    if k == 'DeclStmt':
        parts = []
        for v in inner:
            if v.get('kind') == 'VarDecl':
                vin = v.get('inner', [])
                init = _c(vin[-1]) if vin else (lambda env, tabs: 0)
                parts.append((v['name'], init))
        def f(env, tabs):
            for nm, init in parts:
                env[nm] = init(env, tabs)
        return f
    if k == 'ForStmt':
        init, _, cond, inc, body = (inner + [{}] * 5)[:5]
        fi = _cs(init) if init.get('kind') else None
        fc = _c(cond) if cond.get('kind') else None
        fn = _c(inc) if inc.get('kind') else None
        fb = _cs(body)
        def f(env, tabs):
            if fi: fi(env, tabs)
            while fc is None or fc(env, tabs):
                fb(env, tabs)
                if fn: fn(env, tabs)
        return f
    if k == 'WhileStmt':
        fc, fb = _c(inner[-2]), _cs(inner[-1])
        def f(env, tabs):
            while fc(env, tabs):
                fb(env, tabs)
        return f
    if k == 'IfStmt':
        if top:
            # the once-only guard `if (TABLE[..] == 0) { ... }`: always initialise
            return _cs(inner[1])
        fc = _c(inner[0])
        fa = _cs(inner[1])
        fb = _cs(inner[2]) if len(inner) > 2 else None
        def f(env, tabs):
            if fc(env, tabs): fa(env, tabs)
            elif fb: fb(env, tabs)
        return f
    if k == 'CallExpr':
        callee = strip(inner[0])
        if callee.get('kind') == 'DeclRefExpr' and callee.get('ref', '').startswith('init_'):
            return lambda env, tabs: None     # dependencies are initialised by the driver, in order
        raise TabError('call ' + str(callee.get('ref')))
    if k == 'NullStmt':
        return lambda env, tabs: None
    if k in ('BinaryOperator', 'CompoundAssignOperator', 'UnaryOperator', 'ParenExpr', 'ImplicitCastExpr'):
        return _c(n)
    raise TabError('C statement ' + str(k))

def _dims(ty):
    import re
    return [int(x) for x in re.findall(r'\[(\d+)\]', ty or '')]

def _alloc(dims):
    if len(dims) == 1:
        return [0] * dims[0]
    return [_alloc(dims[1:]) for _ in range(dims[0])]

def c_tables(unit, names, order):
    """Run init_<name> for each table in `order`.  -> {name: nested lists}"""
    tabs = {}
    for nm in names:
        d = unit.vars.get(nm)
        if d is None:
            raise TabError('C table %s not declared' % nm)
        dims = _dims(d.get('type'))
        if not dims:
            raise TabError('C table %s has no array type' % nm)
        tabs[nm] = _alloc(dims)
    for nm in order:
        fn = 'init_' + nm
        if fn not in unit.funcs:
            raise TabError('c/csimulator.c: %s not found' % fn)
        try:
            _cs(unit.body(fn), top=True)({}, tabs)
        except TabError:
            raise
        except Exception as e:
            raise TabError('%s: %s: %s' % (fn, type(e).__name__, e))
    return tabs
