"""Witness search for a difference between two canonical path sets.

Each path set is read as a function machine-state -> effects.  Free atoms (entry registers, symbols) get
sample values that satisfy the entry invariant; opaque function atoms (memory reads, tracer results, table
lookups, contend()) are evaluated as *uninterpreted functions* of their evaluated arguments, so equal
arguments always give equal values.  A valuation on which the two sides produce different effects is a
witness that the two bodies are not the same function; it is reported with the valuation.  Equality is never
concluded from sampling (that is the job of the structural / exhaustive comparison)."""
import random, zlib
from .terms import C, isc, mask_of, walk, COMM, CMP, show

SYM_SAMPLES = {
    'frame_duration': (69888, 70908),
    't0': (14312, 14338),
    't1': (57245, 58035),
    'int_active': (32, 36),
}
T_SAMPLES = (0, 1, 31, 32, 35, 36, 14311, 14312, 14313, 14335, 14336, 14337, 14338, 14339, 14340, 14341, 14342, 14343, 20000, 20001, 20002,
             20003, 20004, 20005, 20006, 20007, 30000, 57244, 57245, 57246, 58034, 58035, 69880, 69884, 69885, 69886, 69887, 69888, 70900, 70904, 70907, 70908,
             69888 * 3 + 14400, 70908 * 2 + 20000, 69888 * 240 + 69886, 16777216 + 5000)

class Undef(Exception):
    pass

def _uf(kind, args, mask):
    h = zlib.crc32(repr((kind, args)).encode())
    if mask is None:
        return h & 0xFF
    if mask & (mask + 1) == 0:
        return h & mask
    return h & mask

CORNERS = (0, 1, 0x3F, 0x40, 0x7F, 0x80, 0xBF, 0xC0, 0xFE, 0xFF, 0xFF, 0x00)

class Evaluator:
    def __init__(self, val, corner=False, salt=0):
        self.val = val
        self.memo = {}
        self.corner = corner
        self.salt = salt

    pool8 = ()

    def byte_uf(self, kind, args):
        h = zlib.crc32(repr((kind, args, self.salt)).encode())
        if self.corner:
            pool = CORNERS + self.pool8
            return pool[h % len(pool)]
        return h & 0xFF

    def ev(self, t):
        if t in self.memo:
            return self.memo[t]
        r = self._ev(t)
        self.memo[t] = r
        return r

    def _ev(self, t):
        k = t[0]
        if k == 'c':
            return t[1]
        if k == 'reg' or k == 'sym':
            return self.val[t]
        if k in COMM:
            vals = [self.ev(x) for x in t[1:]]
            r = vals[0]
            for v in vals[1:]:
                if k == '+': r += v
                elif k == '*': r *= v
                elif k == '&': r &= v
                elif k == '|': r |= v
                else: r ^= v
            return r
        if k in CMP:
            a, b = self.ev(t[1]), self.ev(t[2])
            return int({'==': a == b, '!=': a != b, '<': a < b, '>': a > b, '<=': a <= b, '>=': a >= b}[k])
        if k == '>>': return self.ev(t[1]) >> self.ev(t[2])
        if k == '<<': return self.ev(t[1]) << self.ev(t[2])
        if k == '//':
            d = self.ev(t[2])
            if d == 0: raise Undef()
            return self.ev(t[1]) // d
        if k == '%':
            d = self.ev(t[2])
            if d == 0: raise Undef()
            return self.ev(t[1]) % d
        if k == 'and':
            return int(all(self.ev(x) for x in t[1:]))
        if k == 'or':
            return int(any(self.ev(x) for x in t[1:]))
        if k == 'not':
            return int(not self.ev(t[1]))
        if k == 'bool':
            return int(bool(self.ev(t[1])))
        if k == 'sel':
            return self.ev(t[2]) if self.ev(t[1]) else 0
        if k == 'ite':
            return self.ev(t[2]) if self.ev(t[1]) else self.ev(t[3])
        if k == 'rinc':
            x = self.ev(t[1])
            return (x & 128) + ((x + t[2]) & 127)
        if k == 's8':
            x = self.ev(t[1])
            return x if x < 128 else x - 256
        if k == 'tuple':
            return tuple(self.ev(x) for x in t[1:])
        if k == 'mem':
            return self.byte_uf('mem', (self.ev(t[1]) if t[1][0] != 'bank' else ('bank', self.ev(t[1][1]), self.ev(t[1][2])), t[2]))
        if k == 'call':
            return self.byte_uf('call', (t[1], tuple(self.ev(x) for x in t[2]), t[3]))
        if k == 'idx':
            chain = []
            b = t
            while b[0] == 'idx':
                chain.append(self.ev(b[2]))
                b = b[1]
            chain.reverse()
            if b[0] == 'T':
                return _uf('T:' + b[1], tuple(chain), mask_of(t))
            base = self.ev(b)
            if isinstance(base, tuple):
                v = base
                for i in chain:
                    if not isinstance(v, tuple) or not (0 <= i < len(v)):
                        raise Undef()
                    v = v[i]
                return v
            return _uf('idx', (base, tuple(chain)), 0xFF)
        if k == 'contend':
            return _uf('contend', (self.ev(t[1]), self.pat(t[2])), 7)
        if k == 'T':
            return ('T', t[1])
        if k in ('pyobj',):
            return self.ev(t[1])
        if k == 'undef':
            raise Undef()
        raise Undef()

    def pat(self, p):
        out = []
        for e in p[1:]:
            if e[0] == 'ioc':
                out.append(('ioc', self.ev(e[1])))
            elif e[0] == 'pe':
                out.append((self.ev(e[1]), self.ev(e[2])))
            else:
                out.append(('?', repr(e)))
        return tuple(out)

def free_atoms(items):
    regs, syms = set(), set()
    def visit(t):
        for x in walk(t):
            if x[0] == 'reg': regs.add(x)
            elif x[0] == 'sym': syms.add(x)
            elif x[0] == 'call':
                for y in x[2]:
                    visit(y)
    for g, e in items:
        for x in g: visit(x)
        for k, v in e[0]: visit(v)
        for a, v in e[1]: visit(a); visit(v)
        for x in e[2]:
            for y in x[1:]:
                if isinstance(y, tuple):
                    for z in (y if y and isinstance(y[0], tuple) else (y,)):
                        if isinstance(z, tuple) and z and isinstance(z[0], str):
                            visit(z)
        if isinstance(e[3], tuple): visit(e[3])
    return regs, syms

def sample_valuations(regs, syms, n, seed=1):
    rnd = random.Random(seed)
    regs = sorted(regs); syms = sorted(syms)
    for i in range(n):
        val = {}
        mode = i % 4
        for r in regs:
            k = r[1]
            if k == 25:
                val[r] = rnd.choice(T_SAMPLES) if mode != 3 else rnd.randrange(0, 70908 * 4)
            elif k in (12, 24, 29):
                if mode == 0:
                    val[r] = rnd.choice((0, 1, 2, 0x3FFE, 0x3FFF, 0x4000, 0x4001, 0x7FFF, 0x8000, 0xBFFF, 0xC000, 0xFFFD, 0xFFFE, 0xFFFF))
                else:
                    val[r] = rnd.randrange(65536)
            elif k in (26, 28):
                val[r] = rnd.randrange(2)
            elif k == 27:
                val[r] = rnd.randrange(3)
            elif k == 13:
                val[r] = rnd.randrange(65536)
            else:
                if mode == 0:
                    val[r] = rnd.choice((0, 1, 2, 0x0F, 0x10, 0x3F, 0x40, 0x7F, 0x80, 0xBF, 0xC0, 0xFE, 0xFF))
                else:
                    val[r] = rnd.randrange(256)
        which = rnd.randrange(2)
        for s in syms:
            nm = s[1]
            if nm in SYM_SAMPLES:
                val[s] = SYM_SAMPLES[nm][which]
            elif nm.endswith('_tracer') or nm in ('read_port', '$mem', 'tracer'):
                val[s] = rnd.randrange(2)
            elif nm in ('out7ffd', 'memory.o7ffd'):
                val[s] = rnd.randrange(256)
            else:
                val[s] = rnd.choice((0, 1, 2, 5, 0x20, 0xFF, 0x100, 0x4000, 0xFFFF))
        yield val

def _active(items, ev):
    hits = []
    for g, e in items:
        if all(ev.ev(x) for x in g):
            hits.append((g, e))
    return hits

def _effects(e, ev):
    regs, mw, evs, ret = e
    r = {k: ev.ev(v) for k, v in regs}
    r = {k: v for k, v in r.items() if v != ev.val.get(('reg', k), None) or ('reg', k) not in ev.val}
    m = tuple((ev.ev(a) if a[0] != 'bank' else ('bank', ev.ev(a[1]), ev.ev(a[2])), ev.ev(v)) for a, v in mw)
    x = []
    for z in evs:
        if z[0] == 'tracer':
            x.append(('tracer', z[1], tuple(ev.ev(a) for a in z[2])))
        else:
            x.append((z[0],) + tuple(ev.ev(a) if isinstance(a, tuple) else a for a in z[1:]))
    rv = ev.ev(ret) if isinstance(ret, tuple) else ret
    return r, m, tuple(x), rv

def _constants(items):
    cs = set()
    eqs = []
    def visit(t):
        for x in walk(t):
            if x[0] == 'c' and 0 <= x[1] < 65536:
                cs.add(x[1])
            elif x[0] in ('==', '!=') and x[1][0] in ('reg', 'sym') and not isc(x[2]):
                eqs.append((x[1], x[2]))
            elif x[0] in ('==', '!=') and x[2][0] in ('reg', 'sym') and not isc(x[1]):
                eqs.append((x[2], x[1]))
    for g, e in items:
        for x in g: visit(x)
        for k, v in e[0]: visit(v)
        for a_, v in e[1]: visit(a_); visit(v)
    return cs, eqs

def find_witness(a, b, samples=None, seed=1):
    """-> None or dict(valuation=..., a=effects, b=effects, note=...)"""
    import os
    if samples is None:
        samples = 6000 if os.environ.get('VERIF_TIER') == 'thorough' else 1200
    seed = seed + int(os.environ.get('VERIF_SEED', '0') or 0)
    ra, sa_ = free_atoms(a)
    rb, sb = free_atoms(b)
    regs, syms = ra | rb, sa_ | sb
    ca, ea = _constants(a)
    cb, eb_ = _constants(b)
    consts = ca | cb
    eqs = ea + eb_
    pool8 = tuple(sorted({v for c in consts for v in (c - 1, c, c + 1) if 0 <= v < 256}))
    pool16 = tuple(sorted({v for c in consts for v in (c - 1, c, c + 1) if 0 <= v < 65536}))
    rnd = random.Random(seed + 99)
    for n, val in enumerate(sample_valuations(regs, syms, samples, seed)):
        # make sure every changed register has an entry value to compare against
        for items in (a, b):
            for g, e in items:
                for k, v in e[0]:
                    val.setdefault(('reg', k), 0)
        if pool16 and n % 2 == 0:
            # steer some free atoms to constants that occur in the code being compared
            for k_ in list(val):
                if rnd.random() < 0.25:
                    if k_[0] == 'sym' and k_[1] not in SYM_SAMPLES and not k_[1].endswith('_tracer'):
                        val[k_] = rnd.choice(pool16)
                    elif k_[0] == 'reg' and k_[1] in (12, 24, 29):
                        val[k_] = rnd.choice(pool16)
                    elif k_[0] == 'reg' and k_[1] not in (25, 26, 27, 28, 13) and pool8:
                        val[k_] = rnd.choice(pool8)
        ev = Evaluator(val, corner=(n % 3 != 1), salt=n)
        ev.pool8 = pool8
        if eqs and n % 2 == 1:
            # steer towards equalities between a free atom and an expression (x == f(...))
            try:
                for x_, t_ in eqs:
                    if rnd.random() < 0.6:
                        val[x_] = ev.ev(t_)
                        ev.memo.clear()
            except (Undef, KeyError, TypeError):
                pass
        try:
            ha = _active(a, ev)
            hb = _active(b, ev)
            if len(ha) != 1 or len(hb) != 1:
                continue
            ea = _effects(ha[0][1], ev)
            eb = _effects(hb[0][1], ev)
        except (Undef, KeyError, TypeError, ValueError, OverflowError):
            continue
        if ea != eb:
            diff = []
            for k in sorted(set(ea[0]) | set(eb[0])):
                if ea[0].get(k) != eb[0].get(k):
                    diff.append('reg[%d]: %s vs %s' % (k, ea[0].get(k, 'unchanged'), eb[0].get(k, 'unchanged')))
            if ea[1] != eb[1]:
                diff.append('memory writes: %s vs %s' % (list(ea[1]), list(eb[1])))
            if ea[2] != eb[2]:
                diff.append('events: %s vs %s' % (list(ea[2]), list(eb[2])))
            if ea[3] != eb[3]:
                diff.append('return: %s vs %s' % (ea[3], eb[3]))
            return {'valuation': {show(k): v for k, v in sorted(val.items())}, 'difference': diff,
                    'guards_a': sorted(show(x) for x in ha[0][0]), 'guards_b': sorted(show(x) for x in hb[0][0])}
    return None
