"""Folding of small class hierarchies (instances as model objects): constructors, methods, super(), attributes.
Used to fold writer -> reader round trips of the snapshot codecs on model inputs (section 0 item 7 of DESIGN.md)."""
import ast
from .pyfacts import Lit, NotLiteral, FuncFold, FactError, FOLDED_NONE

class SliceLit:
    """A slice passed to a folded __getitem__/__setitem__ (attribute access start/stop/step is allowed on it)."""
    _sa_fold_ok = True
    def __init__(self, s):
        self.start, self.stop, self.step = s.start, s.stop, s.step

class Closure:
    """A folded lambda: body evaluated in the environment captured at creation."""
    _sa_fold_ok = True
    def __init__(self, node, env, folder, cls, self_obj):
        self.node, self.env, self.folder, self.cls, self.self_obj = node, dict(env), folder, cls, self_obj
    def __call__(self, *args, **kw):
        env = dict(self.env)
        env.update(kw)
        for a, v in zip(self.node.args.args, args):
            env[a.arg] = v
        return Lit(self.folder.repo, self.folder.modname, env, self.folder.hook(self.cls, self.self_obj)).ev(self.node.body)

class DefClosure:
    """A folded nested function (`def func(): ...` inside a method or function): the body runs in the enclosing environment as it is at the
    time of the call (reads see later assignments of the enclosing scope, assignments stay local; `nonlocal` is not supported)."""
    _sa_fold_ok = True
    def __init__(self, node, env, folder, cls, self_obj):
        self.node, self.env, self.folder, self.cls, self.self_obj = node, env, folder, cls, self_obj
        if any(isinstance(x, ast.Nonlocal) for x in ast.walk(node)):
            raise NotLiteral('nonlocal in a nested function')
    def __call__(self, *args, **kw):
        fn = self.node
        params = [a.arg for a in fn.args.args]
        env = dict(self.env)
        env.update(zip(params, args))
        if fn.args.vararg is not None:
            env[fn.args.vararg.arg] = tuple(args[len(params):])
        env.update(kw)
        defaults = fn.args.defaults
        for p, d in zip(params[len(params) - len(defaults):], defaults):
            if p not in dict(zip(params, args)) and p not in kw:
                env[p] = Lit(self.folder.repo, self.folder.modname, dict(self.env), self.folder.hook(self.cls, self.self_obj)).ev(d)
        self.folder.depth += 1
        if self.folder.depth > 60:
            self.folder.depth -= 1
            raise NotLiteral('call depth')
        try:
            ff = FuncFold(self.folder.repo, self.folder.modname, {}, self.folder.hook(self.cls, self.self_obj))
            ff.attrs = None
            return ff.call(fn, env)
        finally:
            self.folder.depth -= 1

class _Env:
    def __init__(self, env):
        self.env = env

class BoundMethod:
    """self.method taken as a value (stored in a dispatch table, passed as a callback) and called later."""
    _sa_fold_ok = True
    def __init__(self, inst, cls, fn, folder):
        self.inst, self.cls, self.fn, self.folder = inst, cls, fn, folder
    def __call__(self, *args, **kw):
        return self.folder.call_method(self.inst, self.cls, self.fn, list(args), kw)

class Partial:
    """functools.partial over a folded callable."""
    _sa_fold_ok = True
    def __init__(self, func, args, kw):
        self.func, self.args, self.kw = func, tuple(args), dict(kw)
    def __call__(self, *args, **kw):
        k = dict(self.kw)
        k.update(kw)
        return self.func(*(self.args + tuple(args)), **k)

class ClassRef:
    """A class of the repository held as a value (to be instantiated, or to call a classmethod / staticmethod on)."""
    _sa_fold_ok = True
    def __init__(self, modname, name):
        self.modname, self.name = modname, name
    def __repr__(self):
        return '<class %s.%s>' % (self.modname, self.name)

class ModuleRef:
    """A module of the repository used as a component object (its functions are called as attributes)."""
    _sa_fold_ok = True
    def __init__(self, folder, modname):
        self._folder, self._modname = folder, modname
    def __getattr__(self, name):
        if name.startswith('_'):
            raise AttributeError(name)
        mod = self._folder.repo.mod(self._modname)
        if name in mod.funcs:
            return FuncRef(self._folder.sibling(self._modname), self._modname, name)
        if name in mod.classes:
            return ClassRef(self._modname, name)
        if name in mod.assigns:
            return self._folder.sibling(self._modname).module_value(name)
        raise AttributeError(name)

def components_hook(get_folder, overrides=None):
    """Hook for skoolkit.components: get_component(name, *args) / get_value(name) resolved from the defaults table in config.py
    (COMMANDS['skoolkit']); `overrides` maps a component name to a factory of model objects."""
    overrides = overrides or {}
    table = {}
    def f(n, lit):
        if isinstance(n, ast.Call) and isinstance(n.func, ast.Name) and n.func.id in ('get_component', 'get_value') and n.func.id not in lit.env:
            cf = get_folder()
            if not table:
                cmds = Lit(cf.repo, 'config').ev(cf.repo.mod('config').assigns['COMMANDS'][-1])
                table.update(cmds['skoolkit'])
            a = lit._seq(n.args)
            name = a[0]
            if n.func.id == 'get_value':
                return table[name]
            if name in overrides:
                return overrides[name](*a[1:])
            spec = table[name]
            parts = spec.split('.')
            if parts[0] != 'skoolkit':
                raise NotLiteral('component ' + spec)
            if len(parts) == 2:
                return ModuleRef(cf, parts[1])
            return cf.sibling(parts[1]).new(parts[2], *a[1:])
        return None
    f.wants_lit = True
    return f

class FuncRef:
    """A module-level function of the repository held as a value."""
    _sa_fold_ok = True
    def __init__(self, folder, modname, name):
        self.folder, self.modname, self.name = folder, modname, name
    def __call__(self, *args, **kw):
        return self.folder.call_func(self.modname, self.name, list(args), kw)

class FakeFile:
    _sa_fold_ok = True
    def __init__(self, name, mode, sink):
        self.name, self.mode, self.sink = name, mode, sink
    def write(self, data):
        self.sink.setdefault(self.name, bytearray()).extend(data)

class Inst:
    _sa_fold_ok = True
    def __init__(self, modname, clsname, folder=None):
        self._mod, self._cls, self._folder = modname, clsname, folder
    def __repr__(self):
        return '<%s.%s>' % (self._mod, self._cls)
    def _dunder(self, name, *args):
        c, m = self._folder.find_method(self._cls, name)
        if m is None:
            raise TypeError('%r has no %s' % (self, name))
        return self._folder.call_method(self, c, m, list(args), {})
    def __getitem__(self, idx):
        return self._dunder('__getitem__', SliceLit(idx) if isinstance(idx, slice) else idx)
    def __setitem__(self, idx, value):
        return self._dunder('__setitem__', SliceLit(idx) if isinstance(idx, slice) else idx, value)
    def __len__(self):
        return self._dunder('__len__')
    def __bool__(self):
        if self._folder is not None:
            if self._folder.sibling(self._mod).find_method(self._cls, '__bool__')[1] is not None:
                return bool(self._dunder('__bool__'))
            if self._folder.sibling(self._mod).find_method(self._cls, '__len__')[1] is not None:
                return self._dunder('__len__') > 0
        return True
    def __eq__(self, other):
        if self._folder is not None and self._folder.find_method(self._cls, '__eq__')[1] is not None:
            return bool(self._dunder('__eq__', other))
        return self is other
    def __ne__(self, other):
        return not self.__eq__(other)
    def __hash__(self):
        return id(self)

class ClassFolder:
    def __init__(self, repo, modname, extra_hook=None):
        self.repo, self.modname = repo, modname
        self.mod = repo.mod(modname)
        self.extra_hook = extra_hook
        self.depth = 0
        self.files = None        # name -> bytearray written through open(name, 'wb') when set to a dict
        self.modglobals = {}     # module -> {name: value} for names a folded function declared `global` and assigned
        self.override_names = set(getattr(extra_hook, 'override_names', ()))
        self.lazy_singletons = set()
        self._singletons()

    def _singletons(self):
        """Module-level mutable containers (`_cache = {}`) are one object per fold session, not a fresh literal at every use."""
        for name, nodes in self.mod.assigns.items():
            node = nodes[-1]
            mutable = isinstance(node, (ast.Dict, ast.List, ast.Set)) and not (getattr(node, 'keys', None) or getattr(node, 'elts', None))
            if isinstance(node, ast.Call) and isinstance(node.func, ast.Name) and node.func.id in ('dict', 'list', 'set', 'defaultdict') and not node.args:
                mutable = True
            if isinstance(node, ast.Call) and not node.args and not node.keywords and isinstance(node.func, ast.Attribute) and isinstance(node.func.value, ast.Name) \
               and node.func.value.id in self.mod.imports and node.func.attr[:1].isupper():
                mutable = True          # NAME = module.Class(): one instance per session
            if isinstance(node, ast.Call) and isinstance(node.func, ast.Attribute) and isinstance(node.func.value, ast.Name) and node.func.value.id == 'textwrap' and node.func.attr == 'TextWrapper':
                mutable = True          # WRAPPER = textwrap.TextWrapper(...): its width attribute is assigned before every use
            if mutable:
                self.lazy_singletons.add(name)
                self.override_names.add(name)

    lazy_singletons = None

    def module_value(self, name):
        """The one object a module-level name is bound to in this fold session (mutable containers, component instances)."""
        g = self.modglobals.setdefault(self.modname, {})
        if name not in g:
            g[name] = Lit(self.repo, self.modname, {}, self.hook()).ev(self.mod.assigns[name][-1])
        return g[name]

    def sibling(self, modname):
        """Folder for another module sharing this one's hook, model files and module globals."""
        if modname == self.modname:
            return self
        o = ClassFolder(self.repo, modname, self.extra_hook)
        self.override_names |= o.override_names          # the sibling's own module-level singletons stay overridden names
        o.files, o.modglobals, o.override_names, o.depth = self.files, self.modglobals, self.override_names, self.depth
        return o

    # class helpers
    def bases(self, clsname):
        c = self.mod.classes[clsname]
        return [b.id for b in c.bases if isinstance(b, ast.Name) and b.id in self.mod.classes]

    def mro(self, clsname):
        out = [clsname]
        for b in self.bases(clsname):
            for x in self.mro(b):
                if x not in out:
                    out.append(x)
        return out

    def find_method(self, clsname, name, after=None):
        chain = self.mro(clsname)
        if after is not None:
            chain = chain[chain.index(after) + 1:]
        for c in chain:
            for f in self.mod.classes[c].body:
                if isinstance(f, ast.FunctionDef) and f.name == name:
                    return c, f
        return None, None

    def hook(self, cur_cls=None, cur_self=None):
        def f(n, lit):
            if self.extra_hook is not None:
                v = self.extra_hook(n, lit)
                if v is not None:
                    return v
            if isinstance(n, ast.Name):
                if n.id in self.modglobals.get(self.modname, {}):
                    v = self.modglobals[self.modname][n.id]
                    return FOLDED_NONE if v is None else v
                if n.id in self.lazy_singletons and n.id in self.mod.assigns:
                    return self.module_value(n.id)
                if n.id in self.mod.classes:
                    return ClassRef(self.modname, n.id)
                if n.id in self.mod.funcs:
                    return ('f', n.id)
                if n.id in self.mod.imports:
                    src, orig = self.mod.imports[n.id]
                    m2 = '__init__' if src == 'skoolkit' else (src.split('.', 1)[1] if src.startswith('skoolkit.') else None)
                    if m2 is not None:
                        try:
                            if orig in self.repo.mod(m2).funcs:
                                return ('fx', m2, orig)
                            if orig in self.repo.mod(m2).classes:
                                return ClassRef(m2, orig)
                            if orig in self.sibling(m2).lazy_singletons:
                                return self.sibling(m2).module_value(orig)
                        except FactError:
                            pass
                    if src == 'skoolkit':
                        try:
                            self.repo.mod(orig)
                            return ModuleRef(self, orig)          # `from skoolkit import z80`
                        except FactError:
                            pass
                return None
            if isinstance(n, ast.Lambda):
                return Closure(n, lit.env, self, cur_cls, cur_self)
            if isinstance(n, ast.FunctionDef):
                return DefClosure(n, lit.env, self, cur_cls, cur_self)
            if isinstance(n, ast.Attribute) and isinstance(n.ctx, ast.Load):
                try:
                    base = lit.ev(n.value)
                except NotLiteral:
                    return None
                if isinstance(base, Inst) and n.attr not in vars(base):
                    folder = self.sibling(base._mod)
                    c, m = folder.find_method(base._cls, n.attr)
                    if m is not None:
                        if any(isinstance(d, ast.Name) and d.id == 'property' for d in m.decorator_list):
                            r = folder.call_method(base, c, m, [], {})
                            return FOLDED_NONE if r is None else r
                        return BoundMethod(base, c, m, folder)
                return None
            if isinstance(n, ast.Call):
                fn = n.func
                if isinstance(fn, ast.Name) and fn.id == 'hasattr' and len(n.args) == 2:
                    obj, name = lit.ev(n.args[0]), lit.ev(n.args[1])
                    if isinstance(obj, Inst):
                        folder = self.sibling(obj._mod)
                        return hasattr(obj, name) or folder.find_method(obj._cls, name)[1] is not None
                    return hasattr(obj, name)
                if isinstance(fn, ast.Attribute) and isinstance(fn.value, ast.Name) and fn.value.id == 'inspect' and fn.attr == 'getmembers' and n.args:
                    obj = lit.ev(n.args[0])
                    if isinstance(obj, Inst):
                        folder = self.sibling(obj._mod)
                        out = {}
                        for cname in reversed(folder.mro(obj._cls)):
                            for f_ in folder.mod.classes[cname].body:
                                if isinstance(f_, ast.FunctionDef):
                                    out[f_.name] = BoundMethod(obj, cname, f_, folder)
                        return sorted(out.items())
                    return []
                if isinstance(fn, ast.Name) and fn.id == 'partial' and fn.id not in lit.env and n.args:
                    a = lit._seq(n.args)
                    if isinstance(a[0], tuple) and a[0] and a[0][0] in ('f', 'fx'):
                        a[0] = FuncRef(self, self.modname if a[0][0] == 'f' else a[0][1], a[0][-1])
                    if isinstance(a[0], (BoundMethod, Closure, Partial, FuncRef)):
                        return Partial(a[0], a[1:], lit._kw(n.keywords))
                if isinstance(fn, ast.Name) and fn.id == 'open' and fn.id not in lit.env and self.files is not None:
                    args = lit._seq(n.args)
                    return FakeFile(args[0], args[1] if len(args) > 1 else 'r', self.files)
                # isinstance
                if isinstance(fn, ast.Name) and fn.id == 'isinstance' and len(n.args) == 2:
                    obj = lit.ev(n.args[0])
                    t = n.args[1]
                    names = [t.id] if isinstance(t, ast.Name) else [x.id for x in getattr(t, 'elts', []) if isinstance(x, ast.Name)]
                    for nm in names:
                        cname = nm if nm in self.mod.classes else (self.mod.imports[nm][1] if nm in self.mod.imports else None)
                        if cname is not None and (nm in self.mod.classes or isinstance(obj, Inst)):
                            if isinstance(obj, Inst) and cname in self.sibling(obj._mod).mro(obj._cls):
                                return True
                            if nm in self.mod.classes or isinstance(obj, Inst):
                                continue
                        elif nm in ('dict', 'list', 'tuple', 'int', 'str', 'bytes', 'bytearray'):
                            if isinstance(obj, {'dict': dict, 'list': list, 'tuple': tuple, 'int': int, 'str': str, 'bytes': bytes, 'bytearray': bytearray}[nm]):
                                return True
                    return False
                # super().method(...)
                if isinstance(fn, ast.Attribute) and isinstance(fn.value, ast.Call) and isinstance(fn.value.func, ast.Name) and fn.value.func.id == 'super' and cur_cls:
                    c, m = self.find_method(cur_self._cls, fn.attr, after=cur_cls)
                    if m is None:
                        return FOLDED_NONE      # object.__init__
                    r = self.call_method(cur_self, c, m, lit._seq(n.args), lit._kw(n.keywords))
                    return FOLDED_NONE if r is None else r
                target = None
                if isinstance(fn, ast.Name):
                    try:
                        target = lit.ev(fn)
                    except NotLiteral:
                        target = None
                    if isinstance(target, (Closure, BoundMethod, Partial, FuncRef)):
                        r = target(*lit._seq(n.args), **lit._kw(n.keywords))
                        return FOLDED_NONE if r is None else r
                    if isinstance(target, ClassRef):
                        other = self.sibling(target.modname)
                        return other.new(target.name, *lit._seq(n.args), **lit._kw(n.keywords))
                    if isinstance(target, tuple) and target and target[0] == 'f':
                        r = self.call_func(self.modname, target[1], lit._seq(n.args), lit._kw(n.keywords))
                        return FOLDED_NONE if r is None else r
                    if isinstance(target, tuple) and target and target[0] == 'fx':
                        r = self.sibling(target[1]).call_func(target[1], target[2], lit._seq(n.args), lit._kw(n.keywords))
                        return FOLDED_NONE if r is None else r
                if isinstance(fn, ast.Attribute):
                    try:
                        obj = lit.ev(fn.value)
                    except NotLiteral:
                        obj = None
                    if isinstance(obj, Inst):
                        folder = self.sibling(obj._mod)
                        c, m = folder.find_method(obj._cls, fn.attr)
                        if m is not None:
                            r = folder.call_method(obj, c, m, lit._seq(n.args), lit._kw(n.keywords))
                            return FOLDED_NONE if r is None else r
                    if isinstance(obj, (BoundMethod, Closure)):
                        pass
                    if isinstance(obj, ClassRef):
                        # classmethod / staticmethod call on the class
                        other = self.sibling(obj.modname)
                        c, m = other.find_method(obj.name, fn.attr)
                        if m is not None:
                            args = lit._seq(n.args)
                            if any(isinstance(d, ast.Name) and d.id == 'classmethod' for d in m.decorator_list):
                                args = [obj] + args
                            r = other._run(m, [a.arg for a in m.args.args], args, lit._kw(n.keywords), c, None)
                            return FOLDED_NONE if r is None else r
                # a folded callable held in a variable, a table or an attribute
                try:
                    target = lit.ev(fn)
                except NotLiteral:
                    target = None
                if isinstance(target, (BoundMethod, Closure, Partial, FuncRef)):
                    r = target(*lit._seq(n.args), **lit._kw(n.keywords))
                    return FOLDED_NONE if r is None else r
                if isinstance(target, ClassRef):
                    return self.sibling(target.modname).new(target.name, *lit._seq(n.args), **lit._kw(n.keywords))
                if target is not None and any(target is v for v in Lit.PURE.values()):
                    r = target(*lit._seq(n.args), **lit._kw(n.keywords))
                    return FOLDED_NONE if r is None else r
            return None
        f.wants_lit = True
        f.override_names = self.override_names
        f.modglobals = self.modglobals
        return f

    def _run(self, fn, params, args, kw, cls, self_obj):
        self.depth += 1
        if self.depth > 60:
            raise NotLiteral('call depth')
        try:
            env = dict(zip(params, args))
            if fn.args.vararg is not None:
                env[fn.args.vararg.arg] = tuple(args[len(params):])
            known = set(params) | {a.arg for a in fn.args.kwonlyargs}
            if fn.args.kwarg is not None:
                env[fn.args.kwarg.arg] = {k: v for k, v in kw.items() if k not in known}
                env.update({k: v for k, v in kw.items() if k in known})
            else:
                env.update(kw)
            defaults = fn.args.defaults
            for p, d in zip(params[len(params) - len(defaults):], defaults):
                if p not in env:
                    env[p] = Lit(self.repo, self.modname).ev(d)
            for a, d in zip(fn.args.kwonlyargs, fn.args.kw_defaults):
                if a.arg not in env and d is not None:
                    env[a.arg] = Lit(self.repo, self.modname).ev(d)
            missing = [p for p in params if p not in env]
            if missing:
                raise TypeError("%s() missing %d required positional argument%s: %s" % (fn.name, len(missing), 's' if len(missing) > 1 else '', ', '.join(repr(m) for m in missing)))
            if len(args) > len(params) and fn.args.vararg is None:
                raise TypeError("%s() takes %d positional arguments but %d were given" % (fn.name, len(params), len(args)))
            ff = FuncFold(self.repo, self.modname, {}, self.hook(cls, self_obj))
            ff.attrs = None
            return ff.call(fn, env)
        finally:
            self.depth -= 1

    def call_method(self, inst, cls, fn, args, kw):
        params = [a.arg for a in fn.args.args]
        return self._run(fn, params, [inst] + list(args), kw, cls, inst)

    def call_func(self, modname, name, args, kw=None):
        fn = self.repo.mod(modname).funcs[name]
        folder = self.sibling(modname)
        return folder._run(fn, [a.arg for a in fn.args.args], list(args), kw or {}, None, None)

    def new(self, clsname, *args, **kw):
        inst = Inst(self.modname, clsname, self)
        c, m = self.find_method(clsname, '__init__')
        if m is not None:
            self.call_method(inst, c, m, list(args), kw)
        return inst

    def call(self, inst, name, *args, **kw):
        c, m = self.find_method(inst._cls, name)
        if m is None:
            raise FactError('%s.%s has no method %s' % (self.modname, inst._cls, name))
        return self.call_method(inst, c, m, list(args), kw)
