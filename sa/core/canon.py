"""Alpha-normalisation of local variable names.

Several rules recognise a construct by the local names the pinned tree uses (`tstates`, `first_char`, `opcode`, ...).  A behaviour-preserving
rename of such a local must not turn a rule off or on.  For every function of the pinned tree, `canon_names.json` (written by
tools/gen_canon.py, committed) lists its local variables in order of first binding.  When a module is parsed, each function's current list
is compared with that list: names that are in the canonical list but no longer in the function (`missing`) and names that are new, taken in
order of first binding, are paired one to one when there are equally many, and the new names are renamed back in the syntax tree the rules
see.  Nothing is renamed when the counts differ (a local was added or removed: the function was restructured, and the rules look at it as it
is).  Line numbers are untouched; the repository is never modified."""
import ast, json, os

_TABLE = None

def table():
    global _TABLE
    if _TABLE is None:
        p = os.path.join(os.path.dirname(os.path.abspath(__file__)), 'canon_names.json')
        try:
            with open(p) as f:
                _TABLE = json.load(f)
        except (OSError, ValueError):
            _TABLE = {}
    return _TABLE

def outer_functions(tree):
    """(qualified name, node) of module-level functions and of methods of module-level classes"""
    for n in tree.body:
        if isinstance(n, ast.FunctionDef):
            yield n.name, n
        elif isinstance(n, ast.ClassDef):
            for m in n.body:
                if isinstance(m, ast.FunctionDef):
                    yield '%s.%s' % (n.name, m.name), m

def local_names(fn):
    """local variables of the function tree (nested functions included) in order of first binding; parameters, names declared global /
    nonlocal, names of nested functions, exception and import names are not locals in this sense"""
    params, declared = set(), set()
    stores = []
    for n in ast.walk(fn):
        if isinstance(n, (ast.FunctionDef, ast.Lambda)):
            a = n.args
            for x in a.args + a.kwonlyargs + a.posonlyargs:
                params.add(x.arg)
            if a.vararg:
                params.add(a.vararg.arg)
            if a.kwarg:
                params.add(a.kwarg.arg)
            if isinstance(n, ast.FunctionDef) and n is not fn:
                declared.add(n.name)
        elif isinstance(n, (ast.Global, ast.Nonlocal)):
            declared |= set(n.names)
        elif isinstance(n, ast.ExceptHandler) and n.name:
            declared.add(n.name)
        elif isinstance(n, (ast.Import, ast.ImportFrom)):
            for al in n.names:
                declared.add((al.asname or al.name).split('.')[0])
        elif isinstance(n, ast.Name) and isinstance(n.ctx, (ast.Store, ast.Del)):
            stores.append((n.lineno, n.col_offset, n.id))
    out = []
    for _, _, name in sorted(stores):
        if name not in params and name not in declared and name not in out:
            out.append(name)
    return out

def _to_format(node):
    """f-string -> '...'.format(...) (constant format specs only), or None"""
    fmt, args = '', []
    for v in node.values:
        if isinstance(v, ast.Constant):
            fmt += str(v.value).replace('{', '{{').replace('}', '}}')
        else:
            spec = ''
            if v.format_spec is not None:
                if not all(isinstance(x, ast.Constant) for x in v.format_spec.values):
                    return None
                spec = ':' + ''.join(str(x.value) for x in v.format_spec.values)
            conv = {-1: '', 115: '!s', 114: '!r', 97: '!a'}.get(v.conversion)
            if conv is None:
                return None
            fmt += '{' + conv + spec + '}'
            args.append(v.value)
    return ast.Call(func=ast.Attribute(value=ast.Constant(value=fmt), attr='format', ctx=ast.Load()), args=args, keywords=[])

def _to_fstring(node):
    """'...{}...{:spec}'.format(a, b) with automatic numbering and positional arguments only -> f-string, or None"""
    import string
    if not (isinstance(node, ast.Call) and isinstance(node.func, ast.Attribute) and node.func.attr == 'format' and isinstance(node.func.value, ast.Constant)
            and isinstance(node.func.value.value, str) and not node.keywords and not any(isinstance(a, ast.Starred) for a in node.args)):
        return None
    values, k = [], 0
    try:
        for lit, field, spec, conv in string.Formatter().parse(node.func.value.value):
            if lit:
                values.append(ast.Constant(value=lit))
            if field is None:
                continue
            if field != '' or k >= len(node.args) or (spec and ('{' in spec)):
                return None
            fs = ast.JoinedStr(values=[ast.Constant(value=spec)]) if spec else None
            values.append(ast.FormattedValue(value=node.args[k], conversion={None: -1, 's': 115, 'r': 114, 'a': 97}[conv], format_spec=fs))
            k += 1
    except (ValueError, KeyError):
        return None
    if k != len(node.args):
        return None
    return ast.JoinedStr(values=values)

def shapes(fn):
    """the comparison, branch-test, mask / shift and string-formatting expressions of a function, as text"""
    out = set()
    for n in ast.walk(fn):
        if isinstance(n, ast.JoinedStr) or _to_fstring(n) is not None:
            try:
                out.add(ast.unparse(n))
            except Exception:
                pass
        if isinstance(n, ast.Compare):
            out.add(ast.unparse(n))
        elif isinstance(n, (ast.If, ast.While, ast.IfExp)):
            out.add(ast.unparse(n.test))
        elif isinstance(n, ast.BinOp) and isinstance(n.op, (ast.Mod, ast.FloorDiv, ast.BitAnd, ast.RShift)):
            out.add(ast.unparse(n))
    return out

_FLIP = {ast.Lt: ast.Gt, ast.Gt: ast.Lt, ast.LtE: ast.GtE, ast.GtE: ast.LtE, ast.Eq: ast.Eq, ast.NotEq: ast.NotEq}

class _Restore(ast.NodeTransformer):
    """bottom-up: an expression the pinned function does not contain, whose equivalent form it does contain, is put back into that form"""
    def __init__(self, known):
        self.known, self.count = known, 0
    def visit_Compare(self, node):
        self.generic_visit(node)
        if len(node.ops) == 1 and type(node.ops[0]) in _FLIP and ast.unparse(node) not in self.known:
            f = ast.Compare(left=node.comparators[0], ops=[_FLIP[type(node.ops[0])]()], comparators=[node.left])
            if ast.unparse(f) in self.known:
                self.count += 1
                return ast.copy_location(f, node)
        return node
    def visit_BinOp(self, node):
        self.generic_visit(node)
        if isinstance(node.right, ast.Constant) and isinstance(node.right.value, int) and ast.unparse(node) not in self.known:
            k = node.right.value
            alt = None
            if isinstance(node.op, ast.BitAnd) and k > 0 and (k + 1) & k == 0:
                alt = ast.BinOp(left=node.left, op=ast.Mod(), right=ast.Constant(value=k + 1))
            elif isinstance(node.op, ast.RShift) and 0 < k < 32:
                alt = ast.BinOp(left=node.left, op=ast.FloorDiv(), right=ast.Constant(value=1 << k))
            elif isinstance(node.op, ast.Mod) and k > 1 and k & (k - 1) == 0:
                alt = ast.BinOp(left=node.left, op=ast.BitAnd(), right=ast.Constant(value=k - 1))
            elif isinstance(node.op, ast.FloorDiv) and k > 1 and k & (k - 1) == 0:
                alt = ast.BinOp(left=node.left, op=ast.RShift(), right=ast.Constant(value=k.bit_length() - 1))
            if alt is not None and ast.unparse(alt) in self.known:
                self.count += 1
                return ast.copy_location(alt, node)
        return node
    def visit_JoinedStr(self, node):
        self.generic_visit(node)
        try:
            if ast.unparse(node) not in self.known:
                alt = _to_format(node)
                if alt is not None and ast.unparse(alt) in self.known:
                    self.count += 1
                    return ast.copy_location(alt, node)
        except Exception:
            pass
        return node
    def visit_Call(self, node):
        self.generic_visit(node)
        alt = _to_fstring(node)
        if alt is not None:
            try:
                if ast.unparse(node) not in self.known and ast.unparse(alt) in self.known:
                    self.count += 1
                    return ast.copy_location(alt, node)
            except Exception:
                pass
        return node
    def visit_If(self, node):
        self.generic_visit(node)
        t = node.test
        if isinstance(t, ast.UnaryOp) and isinstance(t.op, ast.Not) and node.orelse and ast.unparse(t) not in self.known and ast.unparse(t.operand) in self.known:
            self.count += 1
            node.test, node.body, node.orelse = t.operand, node.orelse, node.body
        return node

def normalise(modname, tree):
    """rename locals back to their canonical names where that is unambiguous; -> {function: {current name: canonical name}}"""
    t0 = table().get(modname)
    done = {}
    if not t0:
        return done
    t = {q: (v['locals'] if isinstance(v, dict) else v) for q, v in t0.items()}
    exprs = {q: set(v.get('exprs', ())) for q, v in t0.items() if isinstance(v, dict)}
    for qname, fn in outer_functions(tree):
        canon = t.get(qname)
        if canon is None:
            continue
        cur = local_names(fn)
        cs, ks = set(cur), set(canon)
        new = [x for x in cur if x not in ks]
        missing = [x for x in canon if x not in cs]
        if not new or len(new) != len(missing):
            continue
        used = {n.id for n in ast.walk(fn) if isinstance(n, ast.Name)} | {a.arg for n in ast.walk(fn) if isinstance(n, (ast.FunctionDef, ast.Lambda)) for a in n.args.args}
        if any(m in used for m in missing):
            continue          # the canonical name is in use for something else now
        mp = dict(zip(new, missing))
        for n in ast.walk(fn):
            if isinstance(n, ast.Name) and n.id in mp:
                n.id = mp[n.id]
        done[qname] = mp
    for qname, fn in outer_functions(tree):
        canon = t.get(qname)
        if canon is None:
            continue
        n = inline_new_temps(fn, set(canon))
        if n:
            done.setdefault(qname, {})['(temporaries put back in place)'] = n
        known = exprs.get(qname)
        if known:
            r = _Restore(known)
            r.visit(fn)
            if r.count:
                ast.fix_missing_locations(fn)
                done.setdefault(qname, {})['(expressions put back into the pinned form)'] = r.count
    return done

def _has_call(node, skip=None):
    for x in ast.walk(node):
        if x is skip:
            continue
        if isinstance(x, (ast.Call, ast.Await, ast.Yield, ast.YieldFrom)):
            return True
    return False

class _Subst(ast.NodeTransformer):
    def __init__(self, name, value):
        self.name, self.value, self.count = name, value, 0
    def visit_Name(self, node):
        if node.id == self.name and isinstance(node.ctx, ast.Load):
            self.count += 1
            return self.value
        return node
    def visit_FunctionDef(self, node):
        return node
    def visit_Lambda(self, node):
        return node

def inline_new_temps(fn, canon):
    """`X = E` followed directly by a statement that reads X exactly once, X unknown to the pinned tree and every binding of X of that
    form: substitute"""
    params = {a.arg for n in ast.walk(fn) if isinstance(n, (ast.FunctionDef, ast.Lambda)) for a in n.args.args + n.args.kwonlyargs}
    uses = {}
    for n in ast.walk(fn):
        if isinstance(n, ast.Name):
            k = uses.setdefault(n.id, [0, 0])
            k[0 if isinstance(n.ctx, ast.Load) else 1] += 1
    def blocks(node):
        for field in ('body', 'orelse', 'finalbody'):
            b = getattr(node, field, None)
            if isinstance(b, list) and b and isinstance(b[0], ast.stmt):
                yield b
        for h in getattr(node, 'handlers', []) or []:
            yield h.body
    def header_of(nxt):
        return nxt.test if isinstance(nxt, ast.If) else nxt
    # candidate pairs
    pairs = {}
    work = [fn]
    while work:
        node = work.pop()
        for b in blocks(node):
            for i in range(len(b) - 1):
                st, nxt = b[i], b[i + 1]
                if isinstance(st, ast.Assign) and len(st.targets) == 1 and isinstance(st.targets[0], ast.Name):
                    x = st.targets[0].id
                    if x in canon or x in params or isinstance(nxt, (ast.FunctionDef, ast.ClassDef, ast.For, ast.While, ast.With, ast.Try)):
                        continue
                    header = header_of(nxt)
                    reads = [n for n in ast.walk(header) if isinstance(n, ast.Name) and n.id == x and isinstance(n.ctx, ast.Load)]
                    if len(reads) == 1 and not (_has_call(st.value) and _has_call(header)):
                        pairs.setdefault(x, []).append((b, st))
            for stt in b:
                work.append(stt)
    total = 0
    for x, ps in pairs.items():
        if uses.get(x) != [len(ps), len(ps)]:
            continue
        for b, st in ps:
            i = next((k for k, y in enumerate(b) if y is st), None)
            if i is None or i + 1 >= len(b):
                continue
            nxt = b[i + 1]
            sub = _Subst(x, st.value)
            if isinstance(nxt, ast.If):
                nxt.test = sub.visit(nxt.test)
            else:
                b[i + 1] = sub.visit(nxt)
            del b[i]
            total += 1
    return total


# ------------------------------------------------------------------------------------------------------------------------------ C side
def c_locals(fn):
    """names of the variables declared inside a C function (reduced clang node), in order of declaration"""
    out = []
    def walk(n, top):
        if n.get('kind') == 'VarDecl' and n.get('name') and not top:
            if n['name'] not in out:
                out.append(n['name'])
        for c in n.get('inner', []) or []:
            walk(c, False)
    for c in fn.get('inner', []) or []:
        if c.get('kind') == 'CompoundStmt':
            walk(c, False)
    return out

def c_normalise(facts):
    """the same pairing of missing and new local names as on the Python side, applied to the reduced clang facts in memory"""
    t = table().get('__c__') or {}
    done = {}
    for build, decls in facts.items():
        canon_b = t.get(build) or {}
        for d in decls:
            if d.get('kind') != 'FunctionDecl' or d.get('name') not in canon_b:
                continue
            canon = canon_b[d['name']]
            cur = c_locals(d)
            ks, cs = set(canon), set(cur)
            new = [x for x in cur if x not in ks]
            missing = [x for x in canon if x not in cs]
            if not new or len(new) != len(missing):
                continue
            mp = dict(zip(new, missing))
            def ren(n):
                if n.get('kind') == 'VarDecl' and n.get('name') in mp:
                    n['name'] = mp[n['name']]
                if n.get('kind') == 'DeclRefExpr' and n.get('refkind') == 'VarDecl' and n.get('ref') in mp:
                    n['ref'] = mp[n['ref']]
                for c in n.get('inner', []) or []:
                    ren(c)
            ren(d)
            done['%s:%s' % (build, d['name'])] = mp
    return done
