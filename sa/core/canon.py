"""Alpha-normalisation of local variable names.

Several rules recognise a construct by the local names the pinned tree uses (`tstates`, `first_char`, `opcode`, ...).  A behaviour-preserving
rename of such a local must not turn a rule off or on.  For every function of the pinned tree, `canon_names.json` (written by
tools/gen_canon.py, committed) lists its local variables in order of first binding.  When a module is parsed, each function's current list
is compared with that list: names that are in the canonical list but no longer in the function (`missing`) and names that are new, taken in
order of first binding, are paired one to one when there are equally many, and the new names are renamed back in the syntax tree the rules
see.  Nothing is renamed when the counts differ (a local was added or removed: the function was restructured, and the rules look at it as it
is).  Line numbers are untouched; the repository is never modified."""
import ast, json, os

_TABLE = None

def table():
    global _TABLE
    if _TABLE is None:
        p = os.path.join(os.path.dirname(os.path.abspath(__file__)), 'canon_names.json')
        try:
            with open(p) as f:
                _TABLE = json.load(f)
        except (OSError, ValueError):
            _TABLE = {}
    return _TABLE

def outer_functions(tree):
    """(qualified name, node) of module-level functions and of methods of module-level classes"""
    for n in tree.body:
        if isinstance(n, ast.FunctionDef):
            yield n.name, n
        elif isinstance(n, ast.ClassDef):
            for m in n.body:
                if isinstance(m, ast.FunctionDef):
                    yield '%s.%s' % (n.name, m.name), m

def local_names(fn):
    """local variables of the function tree (nested functions included) in order of first binding; parameters, names declared global /
    nonlocal, names of nested functions, exception and import names are not locals in this sense"""
    params, declared = set(), set()
    stores = []
    for n in ast.walk(fn):
        if isinstance(n, (ast.FunctionDef, ast.Lambda)):
            a = n.args
            for x in a.args + a.kwonlyargs + a.posonlyargs:
                params.add(x.arg)
            if a.vararg:
                params.add(a.vararg.arg)
            if a.kwarg:
                params.add(a.kwarg.arg)
            if isinstance(n, ast.FunctionDef) and n is not fn:
                declared.add(n.name)
        elif isinstance(n, (ast.Global, ast.Nonlocal)):
            declared |= set(n.names)
        elif isinstance(n, ast.ExceptHandler) and n.name:
            declared.add(n.name)
        elif isinstance(n, (ast.Import, ast.ImportFrom)):
            for al in n.names:
                declared.add((al.asname or al.name).split('.')[0])
        elif isinstance(n, ast.Name) and isinstance(n.ctx, (ast.Store, ast.Del)):
            stores.append((n.lineno, n.col_offset, n.id))
    out = []
    for _, _, name in sorted(stores):
        if name not in params and name not in declared and name not in out:
            out.append(name)
    return out

def _to_format(node):
    """f-string -> '...'.format(...) (constant format specs only), or None"""
    fmt, args = '', []
    for v in node.values:
        if isinstance(v, ast.Constant):
            fmt += str(v.value).replace('{', '{{').replace('}', '}}')
        else:
            spec = ''
            if v.format_spec is not None:
                if not all(isinstance(x, ast.Constant) for x in v.format_spec.values):
                    return None
                spec = ':' + ''.join(str(x.value) for x in v.format_spec.values)
            conv = {-1: '', 115: '!s', 114: '!r', 97: '!a'}.get(v.conversion)
            if conv is None:
                return None
            fmt += '{' + conv + spec + '}'
            args.append(v.value)
    return ast.Call(func=ast.Attribute(value=ast.Constant(value=fmt), attr='format', ctx=ast.Load()), args=args, keywords=[])

def _to_fstring(node):
    """'...{}...{:spec}'.format(a, b) with automatic numbering and positional arguments only -> f-string, or None"""
    import string
    if not (isinstance(node, ast.Call) and isinstance(node.func, ast.Attribute) and node.func.attr == 'format' and isinstance(node.func.value, ast.Constant)
            and isinstance(node.func.value.value, str) and not node.keywords and not any(isinstance(a, ast.Starred) for a in node.args)):
        return None
    values, k = [], 0
    try:
        for lit, field, spec, conv in string.Formatter().parse(node.func.value.value):
            if lit:
                values.append(ast.Constant(value=lit))
            if field is None:
                continue
            if field != '' or k >= len(node.args) or (spec and ('{' in spec)):
                return None
            fs = ast.JoinedStr(values=[ast.Constant(value=spec)]) if spec else None
            values.append(ast.FormattedValue(value=node.args[k], conversion={None: -1, 's': 115, 'r': 114, 'a': 97}[conv], format_spec=fs))
            k += 1
    except (ValueError, KeyError):
        return None
    if k != len(node.args):
        return None
    return ast.JoinedStr(values=values)

def shapes(fn):
    """the comparison, branch-test, mask / shift and string-formatting expressions of a function, as text"""
    out = set()
    for n in ast.walk(fn):
        if isinstance(n, ast.JoinedStr) or _to_fstring(n) is not None:
            try:
                out.add(ast.unparse(n))
            except Exception:
                pass
        if isinstance(n, ast.Compare):
            out.add(ast.unparse(n))
        elif isinstance(n, (ast.If, ast.While, ast.IfExp)):
            out.add(ast.unparse(n.test))
        elif isinstance(n, ast.BinOp) and isinstance(n.op, (ast.Mod, ast.FloorDiv, ast.BitAnd, ast.RShift)):
            out.add(ast.unparse(n))
    return out

_FLIP = {ast.Lt: ast.Gt, ast.Gt: ast.Lt, ast.LtE: ast.GtE, ast.GtE: ast.LtE, ast.Eq: ast.Eq, ast.NotEq: ast.NotEq}

class _Restore(ast.NodeTransformer):
    """bottom-up: an expression the pinned function does not contain, whose equivalent form it does contain, is put back into that form"""
    def __init__(self, known):
        self.known, self.count = known, 0
    def visit_Compare(self, node):
        self.generic_visit(node)
        if len(node.ops) == 1 and type(node.ops[0]) in _FLIP and ast.unparse(node) not in self.known:
            f = ast.Compare(left=node.comparators[0], ops=[_FLIP[type(node.ops[0])]()], comparators=[node.left])
            if ast.unparse(f) in self.known:
                self.count += 1
                return ast.copy_location(f, node)
        return node
    def visit_BinOp(self, node):
        self.generic_visit(node)
        if isinstance(node.right, ast.Constant) and isinstance(node.right.value, int) and ast.unparse(node) not in self.known:
            k = node.right.value
            alt = None
            if isinstance(node.op, ast.BitAnd) and k > 0 and (k + 1) & k == 0:
                alt = ast.BinOp(left=node.left, op=ast.Mod(), right=ast.Constant(value=k + 1))
            elif isinstance(node.op, ast.RShift) and 0 < k < 32:
                alt = ast.BinOp(left=node.left, op=ast.FloorDiv(), right=ast.Constant(value=1 << k))
            elif isinstance(node.op, ast.Mod) and k > 1 and k & (k - 1) == 0:
                alt = ast.BinOp(left=node.left, op=ast.BitAnd(), right=ast.Constant(value=k - 1))
            elif isinstance(node.op, ast.FloorDiv) and k > 1 and k & (k - 1) == 0:
                alt = ast.BinOp(left=node.left, op=ast.RShift(), right=ast.Constant(value=k.bit_length() - 1))
            if alt is not None and ast.unparse(alt) in self.known:
                self.count += 1
                return ast.copy_location(alt, node)
        return node
    def visit_JoinedStr(self, node):
        self.generic_visit(node)
        try:
            if ast.unparse(node) not in self.known:
                alt = _to_format(node)
                if alt is not None and ast.unparse(alt) in self.known:
                    self.count += 1
                    return ast.copy_location(alt, node)
        except Exception:
            pass
        return node
    def visit_Call(self, node):
        self.generic_visit(node)
        alt = _to_fstring(node)
        if alt is not None:
            try:
                if ast.unparse(node) not in self.known and ast.unparse(alt) in self.known:
                    self.count += 1
                    return ast.copy_location(alt, node)
            except Exception:
                pass
        return node
    def visit_If(self, node):
        self.generic_visit(node)
        t = node.test
        if isinstance(t, ast.UnaryOp) and isinstance(t.op, ast.Not) and node.orelse and ast.unparse(t) not in self.known and ast.unparse(t.operand) in self.known:
            self.count += 1
            node.test, node.body, node.orelse = t.operand, node.orelse, node.body
        return node

def normalise(modname, tree):
    """rename locals back to their canonical names where that is unambiguous; -> {function: {current name: canonical name}}"""
    t0 = table().get(modname)
    done = {}
    if not t0:
        return done
    t = {q: (v['locals'] if isinstance(v, dict) else v) for q, v in t0.items()}
    exprs = {q: set(v.get('exprs', ())) for q, v in t0.items() if isinstance(v, dict)}
    k = inline_helpers(modname, tree, set(t), {q: set(v.get('nested', ())) for q, v in t0.items() if isinstance(v, dict) and 'nested' in v})
    if k:
        done['(calls to helpers the pinned tree does not have, expanded in place)'] = k
    for qname, fn in outer_functions(tree):
        canon = t.get(qname)
        if canon is None:
            continue
        cur = local_names(fn)
        cs, ks = set(cur), set(canon)
        new = [x for x in cur if x not in ks]
        missing = [x for x in canon if x not in cs]
        if not new or len(new) != len(missing):
            continue
        used = {n.id for n in ast.walk(fn) if isinstance(n, ast.Name)} | {a.arg for n in ast.walk(fn) if isinstance(n, (ast.FunctionDef, ast.Lambda)) for a in n.args.args}
        if any(m in used for m in missing):
            continue          # the canonical name is in use for something else now
        mp = dict(zip(new, missing))
        for n in ast.walk(fn):
            if isinstance(n, ast.Name) and n.id in mp:
                n.id = mp[n.id]
        done[qname] = mp
    for qname, fn in outer_functions(tree):
        canon = t.get(qname)
        if canon is None:
            continue
        n = inline_new_temps(fn, set(canon))
        if n:
            done.setdefault(qname, {})['(temporaries put back in place)'] = n
        known = exprs.get(qname)
        if known:
            r = _Restore(known)
            r.visit(fn)
            if r.count:
                ast.fix_missing_locations(fn)
                done.setdefault(qname, {})['(expressions put back into the pinned form)'] = r.count
    return done

def _has_call(node, skip=None):
    for x in ast.walk(node):
        if x is skip:
            continue
        if isinstance(x, (ast.Call, ast.Await, ast.Yield, ast.YieldFrom)):
            return True
    return False

class _Subst(ast.NodeTransformer):
    def __init__(self, name, value):
        self.name, self.value, self.count = name, value, 0
    def visit_Name(self, node):
        if node.id == self.name and isinstance(node.ctx, ast.Load):
            self.count += 1
            return self.value
        return node
    def visit_FunctionDef(self, node):
        return node
    def visit_Lambda(self, node):
        return node

def inline_new_temps(fn, canon):
    """`X = E` followed directly by a statement that reads X exactly once, X unknown to the pinned tree and every binding of X of that
    form: substitute"""
    params = {a.arg for n in ast.walk(fn) if isinstance(n, (ast.FunctionDef, ast.Lambda)) for a in n.args.args + n.args.kwonlyargs}
    uses = {}
    for n in ast.walk(fn):
        if isinstance(n, ast.Name):
            k = uses.setdefault(n.id, [0, 0])
            k[0 if isinstance(n.ctx, ast.Load) else 1] += 1
    def blocks(node):
        for field in ('body', 'orelse', 'finalbody'):
            b = getattr(node, field, None)
            if isinstance(b, list) and b and isinstance(b[0], ast.stmt):
                yield b
        for h in getattr(node, 'handlers', []) or []:
            yield h.body
    def header_of(nxt):
        return nxt.test if isinstance(nxt, ast.If) else nxt
    # candidate pairs
    pairs = {}
    work = [fn]
    while work:
        node = work.pop()
        for b in blocks(node):
            for i in range(len(b) - 1):
                st, nxt = b[i], b[i + 1]
                if isinstance(st, ast.Assign) and len(st.targets) == 1 and isinstance(st.targets[0], ast.Name):
                    x = st.targets[0].id
                    if x in canon or x in params or isinstance(nxt, (ast.FunctionDef, ast.ClassDef, ast.For, ast.While, ast.With, ast.Try)):
                        continue
                    header = header_of(nxt)
                    reads = [n for n in ast.walk(header) if isinstance(n, ast.Name) and n.id == x and isinstance(n.ctx, ast.Load)]
                    if len(reads) == 1 and not (_has_call(st.value) and _has_call(header)):
                        pairs.setdefault(x, []).append((b, st))
            for stt in b:
                work.append(stt)
    total = 0
    for x, ps in pairs.items():
        if uses.get(x) != [len(ps), len(ps)]:
            continue
        for b, st in ps:
            i = next((k for k, y in enumerate(b) if y is st), None)
            if i is None or i + 1 >= len(b):
                continue
            nxt = b[i + 1]
            sub = _Subst(x, st.value)
            if isinstance(nxt, ast.If):
                nxt.test = sub.visit(nxt.test)
            else:
                b[i + 1] = sub.visit(nxt)
            del b[i]
            total += 1
    return total


# ------------------------------------------------------------------------------------------------------------------------------ C side
def c_locals(fn):
    """names of the variables declared inside a C function (reduced clang node), in order of declaration"""
    out = []
    def walk(n, top):
        if n.get('kind') == 'VarDecl' and n.get('name') and not top:
            if n['name'] not in out:
                out.append(n['name'])
        for c in n.get('inner', []) or []:
            walk(c, False)
    for c in fn.get('inner', []) or []:
        if c.get('kind') == 'CompoundStmt':
            walk(c, False)
    return out

def c_normalise(facts):
    """the same pairing of missing and new local names as on the Python side, applied to the reduced clang facts in memory"""
    t = table().get('__c__') or {}
    done = {}
    for build, decls in facts.items():
        canon_b = t.get(build) or {}
        for d in decls:
            if d.get('kind') != 'FunctionDecl' or d.get('name') not in canon_b:
                continue
            canon = canon_b[d['name']]
            cur = c_locals(d)
            ks, cs = set(canon), set(cur)
            new = [x for x in cur if x not in ks]
            missing = [x for x in canon if x not in cs]
            if not new or len(new) != len(missing):
                continue
            mp = dict(zip(new, missing))
            def ren(n):
                if n.get('kind') == 'VarDecl' and n.get('name') in mp:
                    n['name'] = mp[n['name']]
                if n.get('kind') == 'DeclRefExpr' and n.get('refkind') == 'VarDecl' and n.get('ref') in mp:
                    n['ref'] = mp[n['ref']]
                for c in n.get('inner', []) or []:
                    ren(c)
            ren(d)
            done['%s:%s' % (build, d['name'])] = mp
    return done


# ---------------------------------------------------------------------------------------------------- helpers a refactoring extracted
class _Inliner:
    """Calls to functions that the pinned tree does not have (a helper extracted by a refactoring: a new module-level function, or a new
    method called through `self.` / the class name) are expanded at the call site inside the functions the pinned tree does have, so that
    the rules see the code where it used to be.  Supported helper shapes: `return E` (expression helper, usable anywhere); statements
    without a return value, guard-style early `return`s allowed (call used as a statement); statements followed by one final `return E`
    (call used as the whole right-hand side of an assignment, as a returned value, or as a statement).  Anything else is left as a call."""
    def __init__(self, modname, tree, known):
        self.known = known                      # qualified names of the pinned module
        self.funcs, self.methods = {}, {}       # new helpers: name -> FunctionDef ; (class, name) -> (FunctionDef, kind)
        for n in tree.body:
            if isinstance(n, ast.FunctionDef) and n.name not in known:
                self.funcs[n.name] = n
            elif isinstance(n, ast.ClassDef):
                for m in n.body:
                    if isinstance(m, ast.FunctionDef) and '%s.%s' % (n.name, m.name) not in known:
                        kind = 'instance'
                        for d in m.decorator_list:
                            if isinstance(d, ast.Name) and d.id in ('staticmethod', 'classmethod'):
                                kind = d.id
                            elif isinstance(d, ast.Name) and d.id == 'property':
                                kind = 'property'
                        self.methods[(n.name, m.name)] = (m, kind)
        self.count = 0
        self.nested = {}
        self.known_nested = {}

    def helper_for(self, call, cls):
        """-> (FunctionDef, bound first argument or None) when the call targets a new helper"""
        f = call.func
        if isinstance(f, ast.Name) and f.id in self.nested:
            return self.nested[f.id], None
        if isinstance(f, ast.Name) and f.id in self.funcs:
            return self.funcs[f.id], None
        if isinstance(f, ast.Attribute) and isinstance(f.value, ast.Name) and cls is not None:
            if f.value.id in ('self', cls) and (cls, f.attr) in self.methods:
                m, kind = self.methods[(cls, f.attr)]
                if kind == 'staticmethod':
                    return m, None
                if kind == 'instance' and f.value.id == 'self':
                    return m, ast.Name(id='self', ctx=ast.Load())
        return None, None

    @staticmethod
    def simple(e):
        if isinstance(e, (ast.Name, ast.Constant)):
            return True
        if isinstance(e, ast.Attribute):
            return _Inliner.simple(e.value)
        if isinstance(e, ast.Subscript):
            return _Inliner.simple(e.value) and isinstance(e.slice, (ast.Constant, ast.Name))
        return False

    def bind(self, fn, call, first):
        """parameter -> argument expression, or None when the call does not fit the signature in a simple way"""
        a = fn.args
        if a.vararg or a.kwarg or a.kwonlyargs or a.posonlyargs or any(isinstance(x, ast.Starred) for x in call.args) or any(k.arg is None for k in call.keywords):
            return None
        params = [x.arg for x in a.args]
        args = ([first] if first is not None else []) + list(call.args)
        if len(args) > len(params):
            return None
        m = dict(zip(params, args))
        for k in call.keywords:
            if k.arg not in params or k.arg in m:
                return None
            m[k.arg] = k.value
        defaults = dict(zip(params[len(params) - len(a.defaults):], a.defaults))
        for p in params:
            if p not in m:
                if p not in defaults:
                    return None
                m[p] = defaults[p]
        return m

    @staticmethod
    def body_of(fn):
        b = list(fn.body)
        if b and isinstance(b[0], ast.Expr) and isinstance(b[0].value, ast.Constant) and isinstance(b[0].value.value, str):
            b = b[1:]
        return b

    @staticmethod
    def fold_guards(stmts):
        """`if c: return` + rest  ->  `if not c: rest` (guard-style early returns of a helper that returns nothing)"""
        out = []
        for i, st in enumerate(stmts):
            if isinstance(st, ast.If) and not st.orelse and len(st.body) == 1 and isinstance(st.body[0], ast.Return) and st.body[0].value is None:
                rest = _Inliner.fold_guards(stmts[i + 1:])
                if rest is None:
                    return None
                if rest:
                    out.append(ast.If(test=ast.UnaryOp(op=ast.Not(), operand=st.test), body=rest, orelse=[]))
                return out
            if isinstance(st, ast.Return):
                if st.value is None and i == len(stmts) - 1:
                    return out
                return None
            if any(isinstance(x, ast.Return) for x in ast.walk(st)):
                return None
            out.append(st)
        return out

    def instantiate(self, fn, mapping, caller_names, want_value):
        """-> (statements, value expression or None) of the helper with parameters replaced; None when the shape is not supported"""
        import copy
        body = copy.deepcopy(self.body_of(fn))
        # `if c: return X` ... `return Y` with nothing else: one conditional expression
        def as_expression(stmts):
            if len(stmts) == 1 and isinstance(stmts[0], ast.Return) and stmts[0].value is not None:
                return stmts[0].value
            if stmts and isinstance(stmts[0], ast.If) and len(stmts[0].body) == 1 and isinstance(stmts[0].body[0], ast.Return) and stmts[0].body[0].value is not None:
                rest = stmts[0].orelse if stmts[0].orelse else stmts[1:]
                if stmts[0].orelse and len(stmts) > 1:
                    return None
                other = as_expression(rest)
                if other is not None:
                    return ast.IfExp(test=stmts[0].test, body=stmts[0].body[0].value, orelse=other)
            return None
        if len(body) > 1 or (body and isinstance(body[0], ast.If)):
            e = as_expression(body)
            if e is not None:
                body = [ast.Return(value=e)]
        value = None
        if body and isinstance(body[-1], ast.Return) and body[-1].value is not None:
            value = body[-1].value
            body = body[:-1]
        elif want_value:
            return None
        if any(isinstance(x, (ast.Yield, ast.YieldFrom, ast.Nonlocal, ast.Global, ast.FunctionDef, ast.Lambda)) for st in body for x in ast.walk(st)):
            return None
        stmts = self.fold_guards(body)
        if stmts is None:
            return None
        # parameters: substitute simple arguments and arguments of parameters read at most once; others get a temporary named after the parameter
        loads, stores = {}, set()
        for st in stmts + ([ast.Expr(value=value)] if value is not None else []):
            for x in ast.walk(st):
                if isinstance(x, ast.Name):
                    if isinstance(x.ctx, ast.Load):
                        loads[x.id] = loads.get(x.id, 0) + 1
                    else:
                        stores.add(x.id)
        pre = []
        subst = {}
        for p, arg in mapping.items():
            if p in stores:
                pre.append(ast.Assign(targets=[ast.Name(id=p, ctx=ast.Store())], value=arg))
            elif self.simple(arg) or loads.get(p, 0) <= 1:
                subst[p] = arg
            else:
                pre.append(ast.Assign(targets=[ast.Name(id=p, ctx=ast.Store())], value=arg))
        if pre and not stmts and value is not None and want_value == 'expr':
            return None
        # locals of the helper that clash with names of the caller are suffixed
        local = {n for n in stores if n not in mapping}
        ren = {n: n + '_h' for n in local if n in caller_names}
        class S(ast.NodeTransformer):
            def visit_Name(self, node):
                if node.id in subst and isinstance(node.ctx, ast.Load):
                    return copy.deepcopy(subst[node.id])
                if node.id in ren:
                    node.id = ren[node.id]
                return node
        s = S()
        stmts = [s.visit(st) for st in stmts]
        if value is not None:
            value = s.visit(value)
        return pre + stmts, value

    def run(self, fn, cls):
        """expand helper calls inside one pinned function; repeated to a fixed point (helpers that call helpers), at most 4 rounds"""
        qual = '%s.%s' % (cls, fn.name) if cls else fn.name
        pinned_nested = self.known_nested.get(qual)
        self.nested = {}
        if pinned_nested is not None:
            for n in ast.walk(fn):
                if isinstance(n, ast.FunctionDef) and n is not fn and n.name not in pinned_nested:
                    self.nested[n.name] = n
        for _ in range(4):
            before = self.count
            names = {n.id for n in ast.walk(fn) if isinstance(n, ast.Name)}
            self._block_pass(fn, cls, names)
            self._expr_pass(fn, cls, names)
            if self.count == before:
                break
        for name, h in list(self.nested.items()):
            inside_h = {id(y) for y in ast.walk(h)}
            if not any(isinstance(x, ast.Name) and x.id == name and id(x) not in inside_h for x in ast.walk(fn)):
                for parent in ast.walk(fn):
                    for field in ('body', 'orelse', 'finalbody'):
                        b = getattr(parent, field, None)
                        if isinstance(b, list) and h in b:
                            b.remove(h)
        self.nested = {}

    def _blocks(self, node):
        for field in ('body', 'orelse', 'finalbody'):
            b = getattr(node, field, None)
            if isinstance(b, list) and b and isinstance(b[0], ast.stmt):
                yield b
        for h in getattr(node, 'handlers', []) or []:
            yield h.body

    def _block_pass(self, fn, cls, names):
        work = [fn]
        while work:
            node = work.pop()
            if node is not fn and isinstance(node, ast.FunctionDef) and node.name in self.nested:
                continue
            for b in self._blocks(node):
                i = 0
                while i < len(b):
                    st = b[i]
                    call, kind = None, None
                    if isinstance(st, ast.Expr) and isinstance(st.value, ast.Call):
                        call, kind = st.value, 'stmt'
                    elif isinstance(st, ast.Assign) and isinstance(st.value, ast.Call):
                        call, kind = st.value, 'assign'
                    elif isinstance(st, ast.Return) and isinstance(st.value, ast.Call):
                        call, kind = st.value, 'return'
                    if call is not None and self.helper_for(call, cls)[0] is None:
                        call = None
                    if call is None and isinstance(st, (ast.Expr, ast.Assign, ast.AugAssign, ast.Return)) and st.value is not None:
                        # a helper call nested in the statement (an argument of another call, an operand): its statements are hoisted in
                        # front of the statement and the call is replaced by the value it returns
                        nested = [x for x in ast.walk(st.value) if isinstance(x, ast.Call) and self.helper_for(x, cls)[0] not in (None, fn)]
                        if len(nested) == 1:
                            h, first = self.helper_for(nested[0], cls)
                            mp = self.bind(h, nested[0], first)
                            r = self.instantiate(h, mp, names, True) if mp is not None else None
                            if r is not None and r[0]:
                                stmts, value = r
                                target = nested[0]
                                class R(ast.NodeTransformer):
                                    def visit_Call(self, node):
                                        if node is target:
                                            return value
                                        return self.generic_visit(node)
                                st.value = R().visit(st.value)
                                for x in stmts:
                                    ast.copy_location(x, st)
                                    ast.fix_missing_locations(x)
                                ast.fix_missing_locations(st)
                                b[i:i] = stmts
                                i += len(stmts) + 1
                                self.count += 1
                                continue
                    if call is not None:
                        h, first = self.helper_for(call, cls)
                        if h is not None and h is not fn:
                            mp = self.bind(h, call, first)
                            if mp is not None:
                                r = self.instantiate(h, mp, names, kind != 'stmt')
                                if r is not None:
                                    stmts, value = r
                                    if kind == 'stmt':
                                        new = stmts
                                    elif kind == 'assign':
                                        new = stmts + [ast.Assign(targets=st.targets, value=value)]
                                    else:
                                        new = stmts + [ast.Return(value=value)]
                                    for x in new:
                                        ast.copy_location(x, st)
                                        ast.fix_missing_locations(x)
                                    b[i:i + 1] = new or [ast.copy_location(ast.Pass(), st)]
                                    self.count += 1
                                    continue
                    i += 1
                for stt in b:
                    work.append(stt)

    def _expr_pass(self, fn, cls, names):
        inl = self
        class E(ast.NodeTransformer):
            def visit_FunctionDef(self, node):
                self.generic_visit(node)
                return node
            def visit_Call(self, node):
                self.generic_visit(node)
                h, first = inl.helper_for(node, cls)
                if h is None or h is fn:
                    return node
                mp = inl.bind(h, node, first)
                if mp is None:
                    return node
                r = inl.instantiate(h, mp, names, 'expr')
                if r is None or r[0]:
                    return node
                inl.count += 1
                return ast.copy_location(r[1], node)
        E().visit(fn)
        ast.fix_missing_locations(fn)

def inline_helpers(modname, tree, known, known_nested=None):
    inl = _Inliner(modname, tree, known)
    inl.known_nested = known_nested or {}
    for n in tree.body:
        if isinstance(n, ast.FunctionDef) and n.name in known:
            inl.run(n, None)
        elif isinstance(n, ast.ClassDef):
            for m in n.body:
                if isinstance(m, ast.FunctionDef) and '%s.%s' % (n.name, m.name) in known:
                    inl.run(m, n.name)
    # a helper with no call left is dropped from the tree the rules see (its code now stands where it was called)
    if inl.count:
        def referenced(name, skip):
            for x in ast.walk(tree):
                if x is skip:
                    continue
                if isinstance(x, ast.Name) and x.id == name and not _inside(x, skip):
                    return True
                if isinstance(x, ast.Attribute) and x.attr == name and not _inside(x, skip):
                    return True
            return False
        inside = {}
        def _inside(x, fn):
            if id(fn) not in inside:
                inside[id(fn)] = {id(y) for y in ast.walk(fn)}
            return id(x) in inside[id(fn)]
        for name, fn in list(inl.funcs.items()):
            if not referenced(name, fn):
                tree.body.remove(fn)
        for (cls, name), (fn, kind) in list(inl.methods.items()):
            if not referenced(name, fn):
                for c in tree.body:
                    if isinstance(c, ast.ClassDef) and c.name == cls and fn in c.body:
                        c.body.remove(fn)
    return inl.count
