"""Per-opcode tables of the disassemblers, the control-file decoder and the timing module, extracted from
literal displays (with constant-bound loop unrolling for the `Opcodes=` option chain)."""
import ast
from .pyfacts import Lit, NotLiteral, FactError

OPTIONS = ('ED63', 'ED6B', 'ED70', 'ED71', 'IM', 'NEG', 'RETN', 'XYCB')
SEQ_TABLES = ('ops', 'after_CB', 'after_ED', 'after_DD', 'after_FD', 'after_DDCB', 'after_FDCB')

def _opaque(n):
    if isinstance(n, ast.Attribute) and isinstance(n.value, ast.Name) and n.value.id == 'self':
        return ('m', n.attr)
    if isinstance(n, ast.Name):
        return ('f', n.id)
    return None

class StoreFold:
    """Constant folding of straight-line table-initialisation code: Assign / For over literal iterables / If on
    foldable tests.  Records stores `self.<attr>[key] = value`."""
    def __init__(self, repo, modname, env=None):
        self.repo, self.modname = repo, modname
        self.env = dict(env or {})
        self.stores = []     # (attr, key, value, lineno)

    def lit(self):
        return Lit(self.repo, self.modname, self.env, _opaque)

    def run(self, body):
        for st in body:
            self.stmt(st)

    def stmt(self, st):
        if isinstance(st, ast.Assign):
            v = self.lit().ev(st.value)
            for tg in st.targets:
                if isinstance(tg, ast.Name):
                    self.env[tg.id] = v
                elif isinstance(tg, ast.Subscript) and isinstance(tg.value, ast.Attribute) and isinstance(tg.value.value, ast.Name) and tg.value.value.id == 'self':
                    self.stores.append((tg.value.attr, self.lit().ev(tg.slice), v, st.lineno))
                else:
                    raise NotLiteral('store target ' + ast.unparse(tg))
        elif isinstance(st, ast.For):
            for item in self.lit().ev(st.iter):
                from .pyfacts import _bind
                _bind(st.target, item, self.env)
                self.run(st.body)
        elif isinstance(st, ast.If):
            if self.lit().ev(st.test):
                self.run(st.body)
            else:
                self.run(st.orelse)
        elif isinstance(st, (ast.Pass, ast.Expr)):
            pass
        else:
            raise NotLiteral('statement ' + type(st).__name__)

def _return_lengths(fn):
    """Lengths a decoder method can return: the last element of its returned tuple, or n of self._defb(a, n)."""
    out = set()
    for n in ast.walk(fn):
        if isinstance(n, ast.Return) and n.value is not None:
            v = n.value
            if isinstance(v, ast.BinOp) and isinstance(v.op, ast.Add):
                v = v.left
            if isinstance(v, ast.Tuple) and len(v.elts) >= 2:
                last = v.elts[1]
                if isinstance(last, ast.Constant) and isinstance(last.value, int):
                    out.add(last.value)
                else:
                    out.add(('expr', ast.unparse(last)))
            elif isinstance(v, ast.Call) and isinstance(v.func, ast.Attribute) and v.func.attr == '_defb':
                a = v.args[1]
                out.add(('defb', a.value if isinstance(a, ast.Constant) else ast.unparse(a)))
            else:
                out.add(('expr', ast.unparse(v)))
    return out

class DisTables:
    """skoolkit/disassembler.py tables under a given set of Opcodes= options."""
    def __init__(self, repo):
        self.repo = repo
        self.mod = repo.mod('disassembler')
        meths = self.mod.methods('Disassembler')
        self.methods = meths
        for need in ('create_opcodes', '__init__', 'ed_arg', 'dd_arg', 'ddcb_arg', 'cb_arg', 'fd_arg', '_defb'):
            if need not in meths:
                raise FactError('skoolkit/disassembler.py: Disassembler.%s not found' % need)
        sf = StoreFold(repo, 'disassembler')
        self.base = {}
        self.lines = {}
        for st in meths['create_opcodes'].body:
            if isinstance(st, ast.Assign) and isinstance(st.targets[0], ast.Attribute) and isinstance(st.value, ast.Dict):
                name = st.targets[0].attr
                self.base[name] = sf.lit().ev(st.value)
                for k, v in zip(st.value.keys, st.value.values):
                    try:
                        self.lines[(name, sf.lit().ev(k))] = v.lineno
                    except NotLiteral:
                        pass
        # entries added after the literal (loops, single stores) belong to the base tables too
        rest = [st for st in meths['create_opcodes'].body
                if not (isinstance(st, ast.Assign) and isinstance(st.targets[0], ast.Attribute) and isinstance(st.value, ast.Dict))]
        if rest:
            f2 = StoreFold(repo, 'disassembler')
            try:
                f2.run(rest)
            except NotLiteral as e:
                raise FactError('skoolkit/disassembler.py: create_opcodes builds a table in a way that is not foldable (%s)' % e)
            for attr, key, val, line in f2.stores:
                self.base.setdefault(attr, {})[key] = val
                self.lines[(attr, key)] = line
        for t in ('ops', 'after_CB', 'after_DD', 'after_ED', 'after_DDCB'):
            if t not in self.base:
                raise FactError('skoolkit/disassembler.py: table self.%s not found in create_opcodes' % t)
        # option chain in __init__: for opcode in opcodes: if opcode == 'X': ... elif ...
        self.option_stores = {}
        loop = None
        for st in meths['__init__'].body:
            if isinstance(st, ast.For) and isinstance(st.target, ast.Name) and st.target.id == 'opcode':
                loop = st
        if loop is None:
            raise FactError('skoolkit/disassembler.py: option loop `for opcode in opcodes` not found in Disassembler.__init__')
        self.all_options = None
        for st in meths['__init__'].body:
            if isinstance(st, ast.If) and 'ALL' in ast.unparse(st.test):
                for s2 in st.body:
                    if isinstance(s2, ast.Assign):
                        try:
                            self.all_options = tuple(Lit(repo, 'disassembler').ev(s2.value))
                        except NotLiteral:
                            pass
        if not self.all_options:
            raise FactError("skoolkit/disassembler.py: expansion of Opcodes=ALL not found")
        for opt in self.all_options:
            f = StoreFold(repo, 'disassembler', {'opcode': opt})
            f.run(loop.body)
            self.option_stores[opt] = f.stores
        self.decoder_lengths = {name: _return_lengths(fn) for name, fn in meths.items()}

    def tables(self, options=()):
        t = {k: dict(v) for k, v in self.base.items()}
        for o in options:
            for attr, key, val, line in self.option_stores.get(o, ()):
                t.setdefault(attr, {})[key] = val
        return t

    def simple_len(self, decoder):
        """Length returned by a template decoder (no_arg, byte_arg, ...): a single constant."""
        ls = self.decoder_lengths.get(decoder)
        if ls is None:
            raise FactError('skoolkit/disassembler.py: decoder %s not found' % decoder)
        ints = {l for l in ls if isinstance(l, int)}
        if len(ints) != 1:
            raise FactError('skoolkit/disassembler.py: decoder %s returns lengths %s' % (decoder, sorted(map(str, ls))))
        return next(iter(ints))

    def prefix_shape(self, name):
        """Structure of ed_arg / dd_arg / ddcb_arg: table, operand offset, length rule per branch, fallback DEFB size."""
        fn = self.methods[name]
        shape = {'table': None, 'offset': None, 'template': None, 'decoder': None, 'fallback': None}
        for n in ast.walk(fn):
            if isinstance(n, ast.Call) and isinstance(n.func, ast.Attribute) and n.func.attr == 'get' and isinstance(n.func.value, ast.Attribute):
                shape['table'] = n.func.value.attr
                idx = n.args[0]
                for m in ast.walk(idx):
                    if isinstance(m, ast.BinOp) and isinstance(m.op, ast.Add) and isinstance(m.left, ast.Name) and m.left.id == 'a' and isinstance(m.right, ast.Constant):
                        shape['offset'] = m.right.value
        def ret_len(body):
            for st in body:
                if isinstance(st, ast.Return):
                    v = st.value
                    if isinstance(v, ast.BinOp):
                        v = v.left
                    if isinstance(v, ast.Tuple):
                        l = v.elts[1]
                        if isinstance(l, ast.Constant):
                            return ('const', l.value)
                        if isinstance(l, ast.BinOp) and isinstance(l.op, ast.Add) and isinstance(l.right, ast.Constant):
                            return ('plus', l.right.value)
                        if isinstance(l, ast.Name):
                            return ('plus', 0)
                    if isinstance(v, ast.Call) and isinstance(v.func, ast.Attribute) and v.func.attr == '_defb':
                        return ('defb', v.args[1].value)
                    if isinstance(v, ast.Call) and isinstance(v.func, ast.Name) and v.func.id == 'decoder':
                        return ('decoder', 0)
            return None
        for st in fn.body:
            if isinstance(st, ast.If) and isinstance(st.test, ast.Name) and st.test.id == 'template':
                shape['template'] = ret_len(st.body)
            elif isinstance(st, ast.If) and isinstance(st.test, ast.Name) and st.test.id == 'decoder':
                shape['decoder'] = ret_len(st.body)
            elif isinstance(st, ast.Return):
                shape['fallback'] = ret_len([st])
        if shape['table'] is None or shape['fallback'] is None:
            raise FactError('skoolkit/disassembler.py: cannot recognise the shape of Disassembler.%s' % name)
        return shape

    def decode_all(self, options=()):
        """-> {(table, byte): dict(kind='op'|'defb'|'prefix', text, length, variant, decoder)} for the 7 sequence tables."""
        t = self.tables(options)
        out = {}
        def entry_len(dec, off=0):
            return self.simple_len(dec) + off
        for b in range(256):
            e = t['ops'].get(b)
            if e is None:
                raise FactError('skoolkit/disassembler.py: ops has no entry for 0x%02X' % b)
            dec, tmpl = e
            if tmpl:
                out[('ops', b)] = {'kind': 'op', 'text': tmpl, 'length': entry_len(dec[1]), 'variant': 0, 'decoder': dec[1]}
            else:
                out[('ops', b)] = {'kind': 'prefix', 'text': '', 'length': None, 'variant': 0, 'decoder': dec[1]}
        cbs = self.decoder_lengths.get('cb_arg', set())
        cblen = [l for l in cbs if isinstance(l, int)]
        for b in range(256):
            if b not in t['after_CB']:
                raise FactError('skoolkit/disassembler.py: after_CB has no entry for 0x%02X (cb_arg indexes it unguarded)' % b)
            out[('after_CB', b)] = {'kind': 'op', 'text': t['after_CB'][b], 'length': cblen[0] if len(cblen) == 1 else None, 'variant': 0, 'decoder': 'cb_arg'}
        ed = self.prefix_shape('ed_arg')
        for b in range(256):
            e = t['after_ED'].get(b)
            if e is None:
                out[('after_ED', b)] = {'kind': 'defb', 'text': '', 'length': ed['fallback'][1], 'variant': 0, 'decoder': '_defb'}
            else:
                dec, tmpl, flags = e
                if tmpl:
                    out[('after_ED', b)] = {'kind': 'op', 'text': tmpl, 'length': entry_len(dec[1], ed['template'][1]), 'variant': flags & 1, 'decoder': dec[1]}
                else:
                    ls = [l for l in self.decoder_lengths.get(dec[1], ()) if isinstance(l, tuple) and l[0] == 'defb']
                    out[('after_ED', b)] = {'kind': 'defb', 'text': '', 'length': ls[0][1] if ls else None, 'variant': 0, 'decoder': dec[1]}
        dd = self.prefix_shape('dd_arg')
        ddcb = self.prefix_shape('ddcb_arg')
        for fam, ix in (('after_DD', 'IX'), ('after_FD', 'IY')):
            for b in range(256):
                e = t['after_DD'].get(b)
                if e is None:
                    out[(fam, b)] = {'kind': 'defb', 'text': '', 'length': dd['fallback'][1], 'variant': 0, 'decoder': '_defb'}
                else:
                    dec, tmpl = e
                    if tmpl:
                        out[(fam, b)] = {'kind': 'op', 'text': tmpl.replace('IX', ix), 'length': entry_len(dec[1], dd['template'][1]), 'variant': 0, 'decoder': dec[1]}
                    else:
                        out[(fam, b)] = {'kind': 'prefix', 'text': '', 'length': None, 'variant': 0, 'decoder': dec[1]}
        for fam, ix in (('after_DDCB', 'IX'), ('after_FDCB', 'IY')):
            for b in range(256):
                e = t['after_DDCB'].get(b)
                if e is None:
                    out[(fam, b)] = {'kind': 'defb', 'text': '', 'length': ddcb['fallback'][1], 'variant': 0, 'decoder': '_defb'}
                else:
                    dec, tmpl, flags = e
                    out[(fam, b)] = {'kind': 'op', 'text': tmpl.replace('IX', ix), 'length': ddcb['template'][1], 'variant': flags & 1, 'decoder': dec[1]}
        return out

class TraceTables:
    NAMES = {'ops': 'OPCODES', 'after_CB': 'AFTER_CB', 'after_ED': 'AFTER_ED', 'after_DD': 'AFTER_DD', 'after_FD': 'AFTER_FD',
             'after_DDCB': 'AFTER_DDCB', 'after_FDCB': 'AFTER_FDCB'}
    def __init__(self, repo):
        self.mod = repo.mod('traceutils')
        self.tables = {}
        self.lines = {}
        for fam, name in self.NAMES.items():
            if name not in self.mod.assigns:
                raise FactError('skoolkit/traceutils.py: table %s not found' % name)
            node = self.mod.assigns[name][-1]
            rows = Lit(repo, 'traceutils', opaque=_opaque).ev(node)
            if len(rows) != 256:
                raise FactError('skoolkit/traceutils.py: %s has %d entries, expected 256' % (name, len(rows)))
            self.tables[fam] = rows
            if isinstance(node, ast.Tuple):
                for i, e in enumerate(node.elts):
                    self.lines[(fam, i)] = e.lineno
        self.func_sizes = {}
        for name, fn in self.mod.funcs.items():
            self.func_sizes[name] = _return_lengths(fn)

    def entry(self, fam, b):
        func, text, size = self.tables[fam][b]
        fname = func[1] if isinstance(func, tuple) else None
        length = size
        if fname:
            ls = self.func_sizes.get(fname, set())
            ints = {l for l in ls if isinstance(l, int)}
            if fname == 'defb':
                length = size          # defb returns 1 or 2 according to `size`
            elif ints and not any(isinstance(l, tuple) and l[1] == 'size' for l in ls):
                if len(ints) == 1:
                    length = next(iter(ints))
        return {'func': fname, 'text': text, 'length': length, 'size': size}

class OpcodeTables:
    NAMES = {'ops': 'OPCODES', 'after_CB': 'AFTER_CB', 'after_ED': 'AFTER_ED', 'after_DD': 'AFTER_DD', 'after_FD': 'AFTER_FD',
             'after_DDCB': 'AFTER_DDCB', 'after_FDCB': 'AFTER_FDCB'}
    def __init__(self, repo):
        self.mod = repo.mod('opcodes')
        self.tables = {}
        for fam, name in self.NAMES.items():
            if name not in self.mod.assigns:
                raise FactError('skoolkit/opcodes.py: table %s not found' % name)
            self.tables[fam] = Lit(repo, 'opcodes').ev(self.mod.assigns[name][-1])
        self.repo = repo
        self._mf = None

    PFX = {'ops': [], 'after_CB': [0xCB], 'after_ED': [0xED], 'after_DD': [0xDD], 'after_FD': [0xFD], 'after_DDCB': [0xDD, 0xCB, 0], 'after_FDCB': [0xFD, 0xCB, 0]}

    def size(self, fam, b, address=32768):
        """Size opcodes.py reports for the sequence (fam, b) placed at `address`: the per-prefix decoder function that
        opcodes.decode dispatches to is folded on a model snapshot, so table hits, KeyError fall-backs (wherever they are
        caught) and boundary truncation are all followed.  A KeyError that nothing catches propagates to the caller."""
        from .pyfacts import ModFolder
        if self._mf is None:
            self._mf = ModFolder(self.repo, 'opcodes')
        seq = self.PFX[fam] + [b]
        mem = [0] * 65536
        for i, x in enumerate(seq):
            if address + i < 65536:
                mem[address + i] = x
        # the dispatch statements of opcodes.decode itself: the loop body up to the RST-handler / yield part
        if getattr(self, '_dispatch', None) is None:
            fn = self.mod.func('decode')
            loops = [n for n in fn.body if isinstance(n, ast.While)]
            if len(loops) != 1:
                raise FactError('skoolkit/opcodes.py: decode() loop not recognised')
            body = []
            for st in loops[0].body:
                if any(isinstance(x, (ast.Yield, ast.YieldFrom)) or (isinstance(x, ast.Name) and x.id == 'rst_handler') for x in ast.walk(st)):
                    break
                body.append(st)
            if not body:
                raise FactError('skoolkit/opcodes.py: decode() dispatch not recognised')
            self._dispatch = body
        from .pyfacts import FuncFold
        ff = FuncFold(self.repo, 'opcodes', {}, self._mf.hook())
        ff.env = {'snapshot': mem, 'addr': address, 'start': address, 'end': 65536, 'rst_handler': None}
        for st in self._dispatch:
            ff.stmt(st)
        if 'size' not in ff.env:
            raise FactError('skoolkit/opcodes.py: decode() dispatch does not bind `size`')
        return ff.env['size']

class TimingTables:
    NAMES = {'ops': 'TIMINGS', 'after_CB': 'AFTER_CB_TIMINGS', 'after_ED': 'AFTER_ED_TIMINGS', 'after_DD': 'AFTER_DD_TIMINGS',
             'after_DDCB': 'AFTER_DDCB_TIMINGS'}
    def __init__(self, repo):
        self.mod = repo.mod('z80')
        self.tables = {}
        for fam, name in self.NAMES.items():
            if name not in self.mod.assigns:
                raise FactError('skoolkit/z80.py: timing table %s not found' % name)
            self.tables[fam] = Lit(repo, 'z80').ev(self.mod.assigns[name][-1])
        self.tables['after_FD'] = self.tables['after_DD']
        self.tables['after_FDCB'] = self.tables['after_DDCB']
        gt = self.mod.func('get_timing')
        self.get_timing = gt
        # which table each prefix branch of get_timing consults
        self.dispatch = {}
        src = ast.unparse(gt)
        for fam, name in self.NAMES.items():
            if name not in src:
                raise FactError('skoolkit/z80.py: get_timing no longer consults %s' % name)
