"""C facts: clang -ast-dump=json of c/csimulator.c in the two build configurations
(plain, -DCONTENTION), reduced to the declarations that live in csimulator.c and
cached by digest of the source file (a changed file can never be served stale facts)."""
import hashlib, json, os, pickle, subprocess, sys, sysconfig

CACHE = os.path.join(os.path.dirname(os.path.dirname(os.path.dirname(os.path.abspath(__file__)))), '.cache')
KEEP = ('kind', 'name', 'opcode', 'value', 'isPostfix', 'isArrow', 'castKind', 'valueCategory', 'hasElse', 'storageClass', 'init')

class CFactsError(Exception):
    pass

def _reduce(n, cur):
    """Strip a clang JSON node to what the analyses use; track line numbers."""
    if not isinstance(n, dict):
        return None
    out = {}
    for k in KEEP:
        if k in n:
            out[k] = n[k]
    loc = n.get('loc') or {}
    rng = (n.get('range') or {}).get('begin') or {}
    for src in (loc, rng, loc.get('expansionLoc') or {}, rng.get('expansionLoc') or {}):
        if 'line' in src:
            cur[0] = src['line']
            break
    out['line'] = cur[0]
    t = n.get('type')
    if t:
        out['type'] = t.get('qualType')
    rd = n.get('referencedDecl')
    if rd:
        out['ref'] = rd.get('name')
        out['refkind'] = rd.get('kind')
    rm = n.get('referencedMemberDecl')
    if rm is not None:
        out['member'] = n.get('name')
    if 'inner' in n:
        out['inner'] = [r for r in (_reduce(c, cur) for c in n['inner']) if r is not None]
    if 'array_filler' in n:
        out['array_filler'] = [r for r in (_reduce(c, cur) for c in n['array_filler']) if r is not None]
    return out

def _clang(repo, contention):
    inc = sysconfig.get_paths()['include']
    cmd = ['clang', '-I' + inc] + (['-DCONTENTION'] if contention else []) + \
          ['-fsyntax-only', '-Xclang', '-ast-dump=json', os.path.join(repo, 'c', 'csimulator.c')]
    p = subprocess.run(cmd, capture_output=True)
    if p.returncode != 0:
        raise CFactsError('clang failed: ' + p.stderr.decode()[-2000:])
    tu = json.loads(p.stdout)
    del p
    decls = []
    curfile = None
    for d in tu['inner']:
        loc = d.get('loc') or {}
        for src in (loc, loc.get('expansionLoc') or {}, loc.get('spellingLoc') or {}):
            if 'file' in src:
                curfile = src['file']
        rb = (d.get('range') or {}).get('begin') or {}
        for src in (rb, rb.get('expansionLoc') or {}):
            if 'file' in src:
                curfile = src['file']
        if curfile and curfile.endswith('csimulator.c'):
            decls.append(_reduce(d, [loc.get('line', 0)]))
    return decls

def _worker(args):
    repo, contention = args
    return _clang(repo, contention)

def load(repo):
    """Return {'plain': [decls], 'cont': [decls]} for repo/c/csimulator.c."""
    src = os.path.join(repo, 'c', 'csimulator.c')
    with open(src, 'rb') as f:
        digest = hashlib.sha256(f.read() + b'|v3|' + sysconfig.get_paths()['include'].encode()).hexdigest()[:24]
    path = os.path.join(CACHE, 'cfacts-%s.pkl' % digest)
    if os.path.exists(path):
        try:
            with open(path, 'rb') as f:
                return _canon(pickle.load(f))
        except Exception:
            pass
    from concurrent.futures import ProcessPoolExecutor
    with ProcessPoolExecutor(2) as ex:
        plain, cont = ex.map(_worker, [(repo, False), (repo, True)])
    facts = {'plain': plain, 'cont': cont}
    try:
        os.makedirs(CACHE, exist_ok=True)
        tmp = path + '.%d.tmp' % os.getpid()
        with open(tmp, 'wb') as f:
            pickle.dump(facts, f)
        os.replace(tmp, path)
        # drop stale caches
        for fn in os.listdir(CACHE):
            if fn.startswith('cfacts-') and fn.endswith('.pkl') and os.path.join(CACHE, fn) != path:
                try:
                    if len([x for x in os.listdir(CACHE) if x.startswith('cfacts-')]) > 12:
                        os.remove(os.path.join(CACHE, fn))
                except OSError:
                    pass
    except OSError:
        pass
    return _canon(facts)

def _canon(facts):
    """local variables renamed back to the names the pinned tree uses (sa/core/canon.py); applied after caching, never stored"""
    from . import canon
    canon.c_normalise(facts)
    return facts

class CUnit:
    """Index over one configuration's declarations."""
    def __init__(self, decls):
        self.decls = decls
        self.funcs = {}
        self.vars = {}
        for d in decls:
            if d['kind'] == 'FunctionDecl' and any(c['kind'] == 'CompoundStmt' for c in d.get('inner', [])):
                self.funcs[d['name']] = d
            elif d['kind'] == 'VarDecl':
                self.vars[d['name']] = d

    def body(self, name):
        f = self.funcs[name]
        return [c for c in f['inner'] if c['kind'] == 'CompoundStmt'][0]

    def params(self, name):
        return [c['name'] for c in self.funcs[name].get('inner', []) if c['kind'] == 'ParmVarDecl']

def strip(n):
    while n.get('kind') in ('ImplicitCastExpr', 'ParenExpr', 'CStyleCastExpr', 'ConstantExpr') and n.get('inner'):
        n = n['inner'][-1]
    return n

def lit(n):
    """Literal value of an initialiser element: int, name of a referenced decl, or None."""
    n = strip(n)
    k = n['kind']
    if k == 'IntegerLiteral':
        return int(n['value'])
    if k == 'UnaryOperator' and n['opcode'] == '-':
        v = lit(n['inner'][0])
        return -v if isinstance(v, int) else None
    if k == 'UnaryOperator' and n['opcode'] == '&':
        return lit(n['inner'][0])
    if k == 'DeclRefExpr':
        return n['ref']
    if k == 'ImplicitValueInitExpr':
        return 0
    if k == 'InitListExpr':
        return init_list(n)
    return None

def init_list(n):
    if 'array_filler' in n:
        return [lit(z) for z in n['array_filler'][1:]]
    return [lit(z) for z in n.get('inner', [])]

def const_ints(unit):
    """static const int NAME = <int>; declarations."""
    out = {}
    for name, d in unit.vars.items():
        inner = d.get('inner') or []
        if inner and d.get('type', '').startswith('const int'):
            v = lit(inner[-1])
            if isinstance(v, int):
                out[name] = v
    return out

if __name__ == '__main__':
    import time
    t = time.time()
    f = load(sys.argv[1] if len(sys.argv) > 1 else '/repo')
    for k, v in f.items():
        u = CUnit(v)
        print(k, len(v), 'decls', len(u.funcs), 'funcs', len(u.vars), 'vars')
    print('%.1fs' % (time.time() - t))
