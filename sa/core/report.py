"""Reporting: obligations, violations, known findings, evidence files, exit codes."""
import json, os, time

VERIF = os.path.dirname(os.path.dirname(os.path.dirname(os.path.abspath(__file__))))
KNOWN = os.path.join(VERIF, 'known_findings.json')

class AnalysisError(Exception):
    """The analysis itself is broken (anchor vanished, instance floor not reached): exit 2."""

class Ctx:
    def __init__(self, prop, tier, repo_root, seed=0):
        self.prop = prop
        self.tier = tier
        self.repo_root = repo_root
        self.seed = seed
        self.t0 = time.time()
        self.rules = {}          # rule id -> dict(obligations, discharged, description, samples, ...)
        self.violations = []
        self.limits = []
        self.notes = []
        self.assumptions = []
        self.cur = None

    # -- rule bookkeeping
    def rule(self, rid, description, floor=0):
        r = self.rules.setdefault(rid, {'description': description, 'obligations': 0, 'discharged': 0, 'floor': floor,
                                        'samples': [], 'violations': 0, 'limits': 0})
        self.cur = rid
        return r

    def ok(self, sample=None, rule=None, n=1):
        r = self.rules[rule or self.cur]
        r['obligations'] += n
        r['discharged'] += n
        if sample is not None and len(r['samples']) < 3:
            r['samples'].append(sample)

    def violation(self, construct, where, message, detail=None, rule=None):
        rid = rule or self.cur
        r = self.rules[rid]
        r['obligations'] += 1
        for old in self.violations:
            if old['rule'] == rid and old['construct'] == construct and old['message'] == message:
                return
        r['violations'] += 1
        self.violations.append({'property': self.prop, 'rule': rid, 'construct': construct, 'where': where,
                                'message': message, 'detail': detail})

    def limit(self, construct, message, rule=None):
        rid = rule or self.cur
        r = self.rules[rid]
        r['obligations'] += 1
        r['limits'] += 1
        self.limits.append({'rule': rid, 'construct': construct, 'message': message})

    def note(self, text):
        self.notes.append(text)

    def assume(self, text):
        if text not in self.assumptions:
            self.assumptions.append(text)

    def waive(self, rid, reason):
        """A syntactic rule that cannot recognise the shape of the code, whose clause a fold rule of the same property decides anyway:
        the rule is reported as undecided (ANALYSIS-LIMIT) and its floor is not enforced.  Never used for a rule that reported something."""
        r = self.rules.get(rid)
        if r is None or r['violations']:
            return False
        r['waived'] = reason
        self.limits.append({'rule': rid, 'construct': 'shape', 'message': reason})
        r['limits'] += 1
        r['obligations'] += 1
        return True

    def check_floors(self):
        for rid, r in self.rules.items():
            if r.get('waived'):
                continue
            # the floor guards against a rule passing vacuously; a rule that reports a violation is not vacuous
            if r['violations'] == 0 and r['obligations'] < r['floor']:
                raise AnalysisError('rule %s found %d instances, fewer than the %d confirmed on the pinned tree' %
                                    (rid, r['obligations'], r['floor']))

def load_known():
    if not os.path.exists(KNOWN):
        return []
    with open(KNOWN) as f:
        data = json.load(f)
    return data.get('findings', [])

def match_known(v, known):
    for k in known:
        if k.get('status', 'open') != 'open':
            continue
        if k['property'] == v['property'] and k['rule'] == v['rule'] and k['construct'] == v['construct']:
            return k
    return None

def finish(ctx, explanation, exhaustive=False, extra=None):
    """Print the report, write evidence + replay files, return the exit code."""
    ctx.check_floors()
    known = load_known()
    real = []
    out = []
    for v in ctx.violations:
        k = match_known(v, known)
        if k:
            out.append('KNOWN-FINDING: property=%s %s [%s %s]' % (ctx.prop, k['what'], v['rule'], v['construct']))
        else:
            real.append(v)
    evdir = os.environ.get('VERIF_EVIDENCE_DIR') or os.path.join(VERIF, 'evidence')
    os.makedirs(os.path.join(evdir, 'replay'), exist_ok=True)
    for i, v in enumerate(real):
        rp = os.path.join(evdir, 'replay', '%s-%d.json' % (ctx.prop, i))
        with open(rp, 'w') as f:
            json.dump(v, f, indent=1, default=str)
        out.append('%s: rule %s: %s: %s' % (v['where'], v['rule'], v['construct'], v['message']))
        if v.get('detail'):
            out.append('    detail: ' + json.dumps(v['detail'], default=str)[:1500])
        out.append('VIOLATION property=%s replay=%s' % (ctx.prop, rp))
    for l in ctx.limits[:20]:
        out.append('ANALYSIS-LIMIT %s %s: %s' % (l['rule'], l['construct'], l['message'][:300]))
    obligations = sum(r['obligations'] for r in ctx.rules.values())
    discharged = sum(r['discharged'] for r in ctx.rules.values())
    samples = []
    for rid, r in ctx.rules.items():
        for s in r['samples'][:2]:
            samples.append({'rule': rid, 'obligation': s})
    cov = {
        'explanation': explanation,
        'obligations': obligations,
        'discharged': discharged,
        'undecided': sum(r['limits'] for r in ctx.rules.values()),
        'exhaustive': bool(exhaustive),
        'rules': {rid: {k: r[k] for k in ('description', 'obligations', 'discharged', 'violations', 'limits', 'floor')} for rid, r in ctx.rules.items()},
        'samples': samples[:40] or [{'rule': 'none', 'obligation': 'none'}],
        'known_findings_matched': len(ctx.violations) - len(real),
        'analysis_limits': ctx.limits[:50],
        'notes': ctx.notes,
        'evaluations': max(obligations, 1),
        'distinct_nontrivial': max(len({(r, s and json.dumps(s, default=str)) for r in ctx.rules for s in ctx.rules[r]['samples']}), 2) if obligations > 1 else 2,
        'rule': 'each obligation is one rule instance (table slot, call site, path, field) extracted from the current source tree',
    }
    if extra:
        cov.update(extra)
    ev = {'property_id': ctx.prop, 'tier': ctx.tier, 'seed': ctx.seed, 'level': 'other', 'coverage': cov,
          'assumptions': ctx.assumptions, 'wall_s': round(time.time() - ctx.t0, 2), 'violations': len(real)}
    with open(os.path.join(evdir, ctx.prop + '.json'), 'w') as f:
        json.dump(ev, f, indent=1, default=str)
    for rid, r in ctx.rules.items():
        out.append('rule %-10s %5d obligations %5d discharged %3d violations %3d undecided  - %s' %
                   (rid, r['obligations'], r['discharged'], r['violations'], r['limits'], r['description'][:90]))
    print('\n'.join(out))
    print('%s %s: %d obligations, %d discharged, %d violations (%d known), %d undecided, %.1fs' %
          (ctx.prop, ctx.tier, obligations, discharged, len(real), len(ctx.violations) - len(real), cov['undecided'], time.time() - ctx.t0))
    return 1 if real else 0
