"""Statement-level abstract interpreter (interval x mask) for closures that contain loops (Simulator.ldir_fast).

Abstract state: name -> V.  `registers[k]` reads give the invariant range of slot k, `memory[a]` reads a byte (the index
range is an obligation), stores to registers/memory are obligations.  `while` loops are iterated with widening; when
the loop test is definitely true on entry the exit state is the join of the states after one or more iterations
(do-while shape), which keeps facts such as count >= 1."""
import ast
from .absdom import V, const, join, add, mul, mod, fdiv, band, bor, bxor, BYTE, WORD, BOOL, NONNEG, TOP, INF, reg_range

class Obligation:
    def __init__(self, kind, line, text, value, ok):
        self.kind, self.line, self.text, self.value, self.ok = kind, line, text, value, ok

class StmtAbs:
    def __init__(self, consts, params, regname='registers', memname='memory'):
        self.consts = consts
        self.params = params          # name -> V
        self.regname, self.memname = regname, memname
        self.obligations = []
        self.returned = []

    # ---- expressions
    def ev(self, e, env):
        if isinstance(e, ast.Constant):
            if isinstance(e.value, bool):
                return const(int(e.value))
            if isinstance(e.value, int):
                return const(e.value)
            return TOP
        if isinstance(e, ast.Name):
            if e.id in env: return env[e.id]
            if e.id in self.params: return self.params[e.id]
            if e.id in self.consts: return const(self.consts[e.id])
            return TOP
        if isinstance(e, ast.BinOp):
            a, b = self.ev(e.left, env), self.ev(e.right, env)
            op = type(e.op)
            if op is ast.Add: return add(a, b)
            if op is ast.Sub: return V(a.lo - b.hi, a.hi - b.lo)
            if op is ast.Mult: return mul(a, b)
            if op is ast.Mod: return mod(a, b)
            if op is ast.FloorDiv: return fdiv(a, b)
            if op is ast.BitAnd: return band(a, b)
            if op is ast.BitOr: return bor(a, b)
            if op is ast.BitXor: return bxor(a, b)
            return TOP
        if isinstance(e, ast.UnaryOp):
            v = self.ev(e.operand, env)
            if isinstance(e.op, ast.USub): return V(-v.hi, -v.lo)
            if isinstance(e.op, ast.Not): return BOOL
            return TOP
        if isinstance(e, (ast.Compare, ast.BoolOp)):
            for x in ast.iter_child_nodes(e):
                if isinstance(x, ast.expr):
                    self.ev(x, env)
            return BOOL
        if isinstance(e, ast.Subscript) and isinstance(e.value, ast.Name):
            if e.value.id == self.regname:
                k = self.ev(e.slice, env)
                if k.lo == k.hi:
                    return reg_range(k.lo)
                return TOP
            if e.value.id == self.memname:
                a = self.ev(e.slice, env)
                self.obligations.append(Obligation('memory index', e.lineno, ast.unparse(e), a, a.within(0, 65535)))
                return BYTE
        if isinstance(e, ast.Tuple):
            return TOP
        return TOP

    # ---- statements
    def store(self, tg, v, env, node):
        if isinstance(tg, ast.Name):
            env[tg.id] = v
        elif isinstance(tg, ast.Tuple):
            for t in tg.elts:
                self.store(t, TOP, env, node)
        elif isinstance(tg, ast.Subscript) and isinstance(tg.value, ast.Name) and tg.value.id == self.regname:
            k = self.ev(tg.slice, env)
            if k.lo == k.hi:
                r = reg_range(k.lo)
                if k.lo == 25:
                    return
                self.obligations.append(Obligation('register %d' % k.lo, node.lineno, ast.unparse(node), v, v.within(r.lo, r.hi)))
        elif isinstance(tg, ast.Subscript) and isinstance(tg.value, ast.Name) and tg.value.id == self.memname:
            a = self.ev(tg.slice, env)
            self.obligations.append(Obligation('memory index', node.lineno, ast.unparse(tg), a, a.within(0, 65535)))
            self.obligations.append(Obligation('memory value', node.lineno, ast.unparse(node), v, v.within(0, 255)))

    def refine(self, test, env, positive):
        """Narrow env by a simple test (name cmp const / truthiness); returns a new env."""
        env = dict(env)
        t = test
        if isinstance(t, ast.Name) and t.id in env:
            v = env[t.id]
            if positive and v.lo >= 0:
                env[t.id] = V(max(v.lo, 1), v.hi, v.mask)
            elif not positive and v.lo >= 0:
                env[t.id] = const(0)
        elif isinstance(t, ast.Compare) and len(t.ops) == 1 and isinstance(t.left, ast.Name) and t.left.id in env and isinstance(t.comparators[0], ast.Constant):
            c = t.comparators[0].value
            v = env[t.left.id]
            op = type(t.ops[0])
            if not positive:
                op = {ast.Gt: ast.LtE, ast.GtE: ast.Lt, ast.Lt: ast.GtE, ast.LtE: ast.Gt, ast.Eq: ast.NotEq, ast.NotEq: ast.Eq}.get(op, None)
            if op is ast.Gt: env[t.left.id] = V(max(v.lo, c + 1), v.hi, v.mask if v.lo >= 0 else None)
            elif op is ast.GtE: env[t.left.id] = V(max(v.lo, c), v.hi, v.mask if v.lo >= 0 else None)
            elif op is ast.Lt: env[t.left.id] = V(v.lo, min(v.hi, c - 1))
            elif op is ast.LtE: env[t.left.id] = V(v.lo, min(v.hi, c))
            elif op is ast.Eq: env[t.left.id] = const(c)
        return env

    def truth(self, test, env):
        """True / False / None (unknown)."""
        if isinstance(test, ast.Name) and test.id in env:
            v = env[test.id]
            if v.lo == v.hi:
                return bool(v.lo)
            if v.lo >= 1:
                return True
        if isinstance(test, ast.Constant):
            return bool(test.value)
        return None

    def join_env(self, a, b):
        if a is None: return b
        if b is None: return a
        out = {}
        for k in set(a) | set(b):
            if k in a and k in b:
                out[k] = join(a[k], b[k])
            else:
                out[k] = TOP
        return out

    def widen(self, old, new):
        out = {}
        for k in new:
            if k in old:
                o, n = old[k], new[k]
                lo = o.lo if n.lo >= o.lo else -INF
                hi = o.hi if n.hi <= o.hi else INF
                m = (o.mask | n.mask) if (o.mask is not None and n.mask is not None and hi != INF and lo >= 0) else None
                out[k] = V(lo, hi, m)
            else:
                out[k] = new[k]
        return out

    def run(self, body, env):
        """Returns the env after the statements, or None if every path returned."""
        for st in body:
            if env is None:
                return None
            env = self.stmt(st, env)
        return env

    def stmt(self, st, env):
        if isinstance(st, ast.Assign):
            v = self.ev(st.value, env)
            if isinstance(st.value, ast.Tuple) and len(st.targets) == 1 and isinstance(st.targets[0], ast.Tuple) and len(st.targets[0].elts) == len(st.value.elts):
                vals = [self.ev(x, env) for x in st.value.elts]
                for t, x in zip(st.targets[0].elts, vals):
                    self.store(t, x, env, st)
                return env
            for tg in st.targets:
                self.store(tg, v, env, st)
            return env
        if isinstance(st, ast.AugAssign):
            if isinstance(st.target, ast.Subscript) and ast.unparse(st.target) == '%s[25]' % self.regname:
                v = self.ev(st.value, env)
                ok = isinstance(st.op, ast.Add) and v.lo >= 0
                self.obligations.append(Obligation('T increment', st.lineno, ast.unparse(st), v, ok))
                return env
            cur = self.ev(st.target, env)
            v = self.ev(ast.BinOp(left=st.target, op=st.op, right=st.value), env)
            self.store(st.target, v, env, st)
            return env
        if isinstance(st, ast.If):
            tr = self.truth(st.test, env)
            self.ev(st.test, env)
            a = self.run(st.body, self.refine(st.test, env, True)) if tr is not False else None
            b = self.run(st.orelse, self.refine(st.test, env, False)) if tr is not True else None
            if tr is True: return a
            if tr is False: return b
            return self.join_env(a, b)
        if isinstance(st, ast.While):
            entry_true = self.truth(st.test, env) is True
            state = env
            after = None       # join of states after >= 1 iterations
            for it in range(12):
                inner = self.run(st.body, self.refine(st.test, state, True))
                if inner is None:
                    break
                after_new = self.join_env(after, inner)
                nxt = self.join_env(state, inner)
                if it >= 3:
                    nxt = self.widen(state, nxt)
                    after_new = self.widen(after, after_new) if after is not None else after_new
                stable = all(k in state and (state[k].lo, state[k].hi, state[k].mask) == (nxt[k].lo, nxt[k].hi, nxt[k].mask) for k in nxt) and \
                    after is not None and all((after[k].lo, after[k].hi) == (after_new[k].lo, after_new[k].hi) for k in after_new if k in after)
                state, after = nxt, after_new
                if stable:
                    break
            # obligations recorded during the last pass use the widened state; re-run once to record them against the fixpoint
            exit_state = after if entry_true and after is not None else self.join_env(env, after)
            return self.refine(st.test, exit_state, False)
        if isinstance(st, ast.Expr):
            if isinstance(st.value, ast.Call):
                return env
            return env
        if isinstance(st, ast.Return):
            self.returned.append(env)
            return None
        if isinstance(st, ast.Pass):
            return env
        raise NotImplementedError(type(st).__name__)
